(* Property C07 — Parallel execution is unobservable.
   Only the pinned statements; proofs in Proofs/ParOk.v and Proofs/ParSitesOk.v.

   PARTIAL BY NATURE.  What is proved: a model of the rayon fragment the crate
   uses (Model/Par.v: indexed source, `map f`, `collect` into a Vec; a schedule
   is the order in which the work items are executed) returns the same vector
   for every schedule and every pure f, and "gather, then combine sequentially"
   equals the serial loop for an arbitrary (non-associative) combine — so both
   paths perform every floating-point operation in the same order.  The
   hypotheses of the model (indexed source, only `map`, collect into Vec, no
   shared mutable state, no unsafe, no interior mutability in the crate) are
   re-extracted from the source and re-proved on every run (C07_par_sites_ok).
   What is NOT proved: rayon's implementation of the indexed collect, real work
   stealing and memory ordering, and that the closures the crate passes are
   pure functions of (&Graph, item) — supported by "Graph has no interior
   mutability, the crate has no unsafe" and by the bit-for-bit exploration on
   the implementation (tools/p_par.py), which is testing, not proof. *)
From Coq Require Import String List Bool ZArith Sorting.Permutation.
From GV Require Import Base.Outcome Model.Par Spec.ParSiteDef Gen.ParSites Proofs.ParOk Proofs.ParSitesOk.
Import ListNotations.
Open Scope string_scope.

(* every schedule (a permutation of the item indices), every pure f *)
Theorem C07_schedule_independent : forall (X Y : Type) (f : X -> Y) (pi : list nat) (xs : list X),
  Permutation pi (seq 0 (length xs)) -> run_par pi f xs = Ok (map f xs).
Proof. exact @run_par_schedule_independent. Qed.

Theorem C07_two_schedules_agree : forall (X Y : Type) (f : X -> Y) (pi1 pi2 : list nat) (xs : list X),
  Permutation pi1 (seq 0 (length xs)) -> Permutation pi2 (seq 0 (length xs)) ->
  run_par pi1 f xs = run_par pi2 f xs.
Proof. exact @run_par_two_schedules. Qed.

(* in particular every fork-join plan rayon can follow (recursive splitting, either half first) *)
Theorem C07_plan_independent : forall (X Y : Type) (f : X -> Y) (p : plan) (xs : list X),
  run_par (plan_order p 0 (length xs)) f xs = Ok (map f xs).
Proof. exact @run_par_plan_independent. Qed.

(* all_pairs / multi_source (and get_all_shortest_paths_involving through all_pairs):
   parallel gather + sequential post-processing = serial gather + the same post-processing *)
Theorem C07_gather_then_post : forall (X Y : Type) (f : X -> Y) (R : Type) (post : list Y -> R)
                                      (pi : list nat) (xs : list X),
  Permutation pi (seq 0 (length xs)) -> par_then_post post pi f xs = seq_then_post post f xs.
Proof. exact @par_then_post_eq_seq. Qed.

(* betweenness / closeness: parallel gather, then `for r in results { combine }` = the serial loop
   `for x in xs { combine(f x) }`, for ANY combine (non-associative float accumulation included) *)
Theorem C07_gather_then_fold : forall (X Y : Type) (f : X -> Y) (A : Type) (combine : A -> Y -> A) (init : A)
                                      (pi : list nat) (xs : list X),
  Permutation pi (seq 0 (length xs)) ->
  par_then_fold combine init pi f xs = serial_loop combine init f xs.
Proof. exact @par_then_fold_eq_serial_loop. Qed.

(* the model's hypotheses, on the call sites extracted from the current source tree *)
Theorem C07_par_sites_ok :
  forallb site_ok par_sites = true /\
  no_unsafe = true /\ no_interior_mutability = true /\
  map ps_fn par_sites = expected_site_fns /\
  par_callers = expected_callers /\
  Forall (fun t => (snd t <= 20)%Z) par_thresholds /\
  map fst par_thresholds = ["all_pairs"; "betweenness_centrality"; "closeness_centrality"; "multi_source"] /\
  par_extractor_error = "" /\ (0 < par_files_scanned)%nat.
Proof. exact par_sites_ok. Qed.

Theorem C07_par_sites_modelled :
  forall s, In s par_sites -> exists k, site_shape s = ShapeIndexedMapCollect k.
Proof. exact par_sites_modelled. Qed.
