(* Property C08 — Shortest-path options restrict the answer but never change it.
   Only pinned statements; proofs live in Proofs/ShortestPathOk.v (spec level)
   and Proofs/DijkstraEntryOk.v (entry points of the model). *)
From Coq Require Import List Bool ZArith QArith.
From GV Require Import Spec.ShortestPathDef Spec.ShortestPathCheck Proofs.ShortestPathOk.
Import ListNotations.

(* Any answer [r] with options that meets the per-call statement is a
   restriction of any unrestricted all-paths answer [r0] that meets it: same
   distance, within the cutoff; no paths when with_paths=false; one of the
   shortest paths when first_only; the same path set otherwise. *)
Theorem C08_options_restrict_never_change : forall (g : wgraph) (s : nat) (t : option nat) (c : option Q)
    (fo wp : bool) (r0 r : answer) (v : nat) (x : Z) (ps : list (list nat)),
  result_ok g s None None false true r0 ->
  result_ok g s t c fo wp r ->
  In (v, (x, ps)) r ->
  within c x /\
  exists ps0, In (v, (x, ps0)) r0 /\
    (wp = false -> ps = []) /\
    (wp = true -> fo = true -> exists p, ps = [p] /\ (positive g -> In p ps0)) /\
    (wp = true -> fo = false -> positive g -> forall p, In p ps <-> In p ps0).
Proof. exact options_restrict_never_change. Qed.

Theorem C08_cutoff_exact : forall (g : wgraph) (s : nat) (c : option Q) (fo wp : bool) (r : answer) (v : nat),
  result_ok g s None c fo wp r ->
  (In v (map fst r) <-> exists x, is_dist g s v x /\ within c x).
Proof. exact cutoff_exact. Qed.

Theorem C08_target_reported : forall (g : wgraph) (s t : nat) (c : option Q) (fo wp : bool) (r : answer),
  result_ok g s (Some t) c fo wp r ->
  (In t (map fst r) <-> exists x, is_dist g s t x /\ within c x).
Proof. exact target_reported. Qed.

Theorem C08_distance_unique : forall (g : wgraph) (s t : nat) (a b : Z),
  is_dist g s t a -> is_dist g s t b -> a = b.
Proof. exact is_dist_unique. Qed.

Theorem C08_symmetric : forall (g : wgraph) (s t : nat) (x : Z),
  symmetric g -> is_dist g s t x -> is_dist g t s x.
Proof. exact dist_symmetric. Qed.

Theorem C08_triangle : forall (g : wgraph) (s u t : nat) (a b c : Z),
  is_dist g s u a -> is_dist g u t b -> is_dist g s t c -> (c <= a + b)%Z.
Proof. exact dist_triangle. Qed.

(* optimal substructure: what precedes the last hop of a shortest path is a shortest path *)
Theorem C08_prefix_optimal : forall (g : wgraph) (s u v : nat) (w : Z) (p : list nat) (d x : Z),
  walk g s u p d -> wedge g u v w -> is_dist g s v x -> (d + w = x)%Z -> is_dist g s u d.
Proof. exact sp_prefix. Qed.
