(* Property C08 — Shortest-path options restrict the answer but never change it.
   Only pinned statements; proofs live in Proofs/ShortestPathOk.v (spec level) and
   Proofs/DijkstraModelOk.v (the transcribed algorithm); end to end for every graph
   state satisfying the invariant [WF] — every reachable graph — in Proofs/DijkstraWF.v
   (C08_reachable_* / C08_constructed_*: the three entry points agree at the level of
   node names). *)
From Coq Require Import String List Bool ZArith QArith.
From GV Require Import Base.Outcome Base.AMap Model.GState Model.Creation Model.Query Model.Dijkstra.
From GV Require Import Spec.ShortestPathDef Spec.ShortestPathCheck Proofs.ShortestPathOk.
From GV Require Import Proofs.DijkstraLoopOk Proofs.DijkstraModelOk Proofs.InvolvingOk Proofs.DijkstraEntryOk.
From GV Require Import Spec.History Spec.ShortestPathRel Spec.EdgeStoreGraph.
From GV Require Import Proofs.WFDefs Proofs.HistoryOk Proofs.DijkstraWF Proofs.DijkstraWFExamples.
Import ListNotations.

(* ---------------------------------------------------------------- the model *)

(* Two runs of the transcribed [dijkstra] from the same source, one with options
   (target, cutoff, first_only, with_paths) and one unrestricted: every reported
   entry of the restricted run is an entry of the unrestricted run with the same
   distance, within the cutoff; conversely every unrestricted entry within the
   cutoff is reported when there is no target, and the target's entry is. *)
Theorem C08_model_options_restrict : forall (T A : Type) (g : gstate T A) (weighted : bool) (src : nat),
  nonneg (wgraph_of weighted (successors_vec g)) ->
  length (successors_vec g) = number_of_nodes g ->
  forall (target : option nat) (cutoff : option Q) (fo wp fo0 wp0 : bool) (r r0 : list (nat * spinfo nat)),
  cutoff_exceeded cutoff 0 = false ->
  dijkstra g weighted src target cutoff fo wp = Ok r ->
  dijkstra g weighted src None None fo0 wp0 = Ok r0 ->
  (forall t i, In (t, i) r ->
     exists i0, In (t, i0) r0 /\ sp_distance i0 = sp_distance i /\ within cutoff (sp_distance i)) /\
  (forall t i0, In (t, i0) r0 -> within cutoff (sp_distance i0) ->
     (target = None \/ target = Some t) ->
     exists i, In (t, i) r /\ sp_distance i = sp_distance i0).
Proof. exact @model_options_restrict. Qed.

(* The distance-only fast path (all options off) and the full algorithm report the
   same nodes with the same distances — the dispatch [can_use_basic] is harmless. *)
Theorem C08_model_fast_path_agrees : forall (T A : Type) (g : gstate T A) (weighted : bool) (src : nat),
  nonneg (wgraph_of weighted (successors_vec g)) ->
  length (successors_vec g) = number_of_nodes g ->
  forall (fo wp : bool) (rb r : list (nat * spinfo nat)),
  dijkstra_basic g weighted src = Ok rb ->
  dijkstra g weighted src None None fo wp = Ok r ->
  forall t x, (exists i, In (t, i) rb /\ sp_distance i = x) <-> (exists i, In (t, i) r /\ sp_distance i = x).
Proof. exact @model_fast_path_agrees. Qed.

(* The entry points agree: multi_source is one single_source call per listed source,
   all_pairs is the per-source function ([run_from_index], the same one single_source
   calls) at every node index followed by the same name conversion; both collected
   into a map keyed by source name. *)
Theorem C08_model_multi_source_per_source : forall (T A : Type) (teqb : T -> T -> bool) threads
    (g : gstate T A) weighted sources target cutoff fo wp mm,
  multi_source teqb threads g weighted sources target cutoff fo wp = Ok mm ->
  exists l,
    Forall2 (fun s sm => fst sm = s /\ single_source teqb g weighted s target cutoff fo wp = Ok (snd sm)) sources l /\
    mm = collect_map teqb l.
Proof. exact @multi_source_per_source. Qed.

Theorem C08_model_all_pairs_per_source : forall (T A : Type) (teqb : T -> T -> bool) threads
    (g : gstate T A) weighted target cutoff fo wp mm,
  all_pairs teqb threads g weighted target cutoff fo wp = Ok mm ->
  exists ti vecs l,
    match target with
    | Some t => exists i, get_node_index teqb g t = Ok i /\ ti = Some i
    | None => ti = None
    end /\
    Forall2 (fun i iv => fst iv = i /\ run_from_index g weighted i target ti cutoff fo wp = Ok (snd iv))
            (seq 0 (number_of_nodes g)) vecs /\
    Forall2 (fun iv sm => name_of_index "dijkstra.rs:132" g (fst iv) = Ok (fst sm) /\
                          convert_shortest_path_info_vec_to_t_map teqb g (snd iv) = Ok (snd sm)) vecs l /\
    mm = collect_map teqb l.
Proof. exact @all_pairs_per_source. Qed.

(* ... and in the failure case (since the repair of F22 a per-source `Err` is propagated with `?`, not
   unwrapped): once the up-front name checks have passed, multi_source returns Ok iff every per-source
   call does; otherwise its outcome is the failure of the FIRST listed source whose call is not Ok — the
   same Error kind, the same panic site.  all_pairs' region likewise, per node index.  Every graph state. *)
Theorem C08_model_multi_source_ok_iff : forall (T A : Type) (teqb : T -> T -> bool) threads
    (g : gstate T A) weighted sources target cutoff fo wp,
  has_nodes teqb g sources = Ok true ->
  match target with Some t => has_node teqb g t | None => Ok true end = Ok true ->
  ((exists mm, multi_source teqb threads g weighted sources target cutoff fo wp = Ok mm) <->
   (forall s, In s sources -> is_ok (single_source teqb g weighted s target cutoff fo wp) = true)).
Proof. exact @multi_source_ok_iff. Qed.

Theorem C08_model_multi_source_first_failure : forall (T A : Type) (teqb : T -> T -> bool) threads
    (g : gstate T A) weighted sources target cutoff fo wp pre s post,
  has_nodes teqb g sources = Ok true ->
  match target with Some t => has_node teqb g t | None => Ok true end = Ok true ->
  sources = (pre ++ s :: post)%list ->
  (forall x, In x pre -> is_ok (single_source teqb g weighted x target cutoff fo wp) = true) ->
  is_ok (single_source teqb g weighted s target cutoff fo wp) = false ->
  same_failure (multi_source teqb threads g weighted sources target cutoff fo wp)
               (single_source teqb g weighted s target cutoff fo wp).
Proof. exact @multi_source_first_failure. Qed.

Theorem C08_model_all_pairs_first_failure : forall (T A : Type) (teqb : T -> T -> bool)
    (g : gstate T A) weighted (target : option T) ti cutoff fo wp i,
  match target with
  | Some t => exists j, get_node_index teqb g t = Ok j /\ ti = Some j
  | None => ti = None
  end ->
  (i < number_of_nodes g)%nat ->
  (forall j, (j < i)%nat -> is_ok (run_from_index g weighted j target ti cutoff fo wp) = true) ->
  is_ok (run_from_index g weighted i target ti cutoff fo wp) = false ->
  same_failure (all_pairs_iter teqb g weighted target cutoff fo wp)
               (run_from_index g weighted i target ti cutoff fo wp).
Proof. exact @all_pairs_iter_first_failure. Qed.

Theorem C08_model_single_source_unfold : forall (T A : Type) (teqb : T -> T -> bool)
    (g : gstate T A) weighted source target cutoff fo wp m,
  single_source teqb g weighted source target cutoff fo wp = Ok m ->
  exists si ti r,
    get_node_index teqb g source = Ok si /\
    match target with
    | Some t => exists i, get_node_index teqb g t = Ok i /\ ti = Some i
    | None => ti = None
    end /\
    run_from_index g weighted si target ti cutoff fo wp = Ok r /\
    convert_shortest_path_info_vec_to_t_map teqb g r = Ok m.
Proof. exact @single_source_unfold. Qed.

(* get_all_shortest_paths_involving(x) keeps exactly the all-pairs entries that have a
   path with x strictly inside (the slice test path[1..len-1].contains(x)); the all-pairs
   entries themselves are characterised per source by C04_model_dijkstra_total. *)
Theorem C08_model_involving_filter : forall (T A : Type) (teqb : T -> T -> bool),
  (forall a b, teqb a b = true <-> a = b) ->
  forall threads (g : gstate T A) (x : T) (weighted : bool) l pairs,
  all_pairs teqb threads g weighted None None false true = Ok pairs ->
  get_all_shortest_paths_involving teqb threads g x weighted = Ok l ->
  forall spi, In spi l <->
    (exists s t, exists m, In (s, m) pairs /\ In (t, spi) m) /\
    exists p, In p (sp_paths spi) /\ inside x p.
Proof. exact @involving_spec. Qed.

(* ---------------------------------------------------------------- spec level *)

(* Any answer [r] with options that meets the per-call statement is a
   restriction of any unrestricted all-paths answer [r0] that meets it: same
   distance, within the cutoff; no paths when with_paths=false; one of the
   shortest paths when first_only; the same path set otherwise. *)
Theorem C08_options_restrict_never_change : forall (g : wgraph) (s : nat) (t : option nat) (c : option Q)
    (fo wp : bool) (r0 r : answer) (v : nat) (x : Z) (ps : list (list nat)),
  result_ok g s None None false true r0 ->
  result_ok g s t c fo wp r ->
  In (v, (x, ps)) r ->
  within c x /\
  exists ps0, In (v, (x, ps0)) r0 /\
    (wp = false -> ps = []) /\
    (wp = true -> fo = true -> exists p, ps = [p] /\ (positive g -> In p ps0)) /\
    (wp = true -> fo = false -> positive g -> forall p, In p ps <-> In p ps0).
Proof. exact options_restrict_never_change. Qed.

Theorem C08_cutoff_exact : forall (g : wgraph) (s : nat) (c : option Q) (fo wp : bool) (r : answer) (v : nat),
  result_ok g s None c fo wp r ->
  (In v (map fst r) <-> exists x, is_dist g s v x /\ within c x).
Proof. exact cutoff_exact. Qed.

Theorem C08_target_reported : forall (g : wgraph) (s t : nat) (c : option Q) (fo wp : bool) (r : answer),
  result_ok g s (Some t) c fo wp r ->
  (In t (map fst r) <-> exists x, is_dist g s t x /\ within c x).
Proof. exact target_reported. Qed.

Theorem C08_distance_unique : forall (g : wgraph) (s t : nat) (a b : Z),
  is_dist g s t a -> is_dist g s t b -> a = b.
Proof. exact is_dist_unique. Qed.

Theorem C08_symmetric : forall (g : wgraph) (s t : nat) (x : Z),
  symmetric g -> is_dist g s t x -> is_dist g t s x.
Proof. exact dist_symmetric. Qed.

Theorem C08_triangle : forall (g : wgraph) (s u t : nat) (a b c : Z),
  is_dist g s u a -> is_dist g u t b -> is_dist g s t c -> (c <= a + b)%Z.
Proof. exact dist_triangle. Qed.

(* optimal substructure: what precedes the last hop of a shortest path is a shortest path *)
Theorem C08_prefix_optimal : forall (g : wgraph) (s u v : nat) (w : Z) (p : list nat) (d x : Z),
  walk g s u p d -> wedge g u v w -> is_dist g s v x -> (d + w = x)%Z -> is_dist g s u d.
Proof. exact sp_prefix. Qed.

(* ---------------------------------------------------------------- end to end: every reachable graph *)
Section Reachable.
  Context {T A : Type}.
  Variable teqb : T -> T -> bool.
  Variable tltb : T -> T -> bool.
  Hypothesis teqb_spec : forall x y, teqb x y = true <-> x = y.
  Hypothesis tltb_asym : forall x y, tltb x y = true -> tltb y x = false.
  Hypothesis tltb_total : forall x y, tltb x y = false -> tltb y x = false -> x = y.
  Notation gstate := (gstate T A).
  Notation WF := (@WF T A teqb tltb).

  (* The entry points agree on node names.  On every WF graph with non-negative stored
     weights (or hop count), existing source / target names and a cutoff >= 0,
     multi_source returns Ok and its map has exactly the listed sources as keys, the
     value at s being THE answer of single_source from s (characterised by
     C04_reachable_single_source) — whatever the thread count. *)
  Theorem C08_reachable_multi_source : forall (threads : nat) (g : gstate) (weighted : bool)
      (sources : list T) (target : option T) (cutoff : option Q) (fo wp : bool),
    WF g -> small_adj g -> (weighted = true -> weights_nonneg g) ->
    (forall s, In s sources -> In s (names g)) ->
    (forall t, target = Some t -> In t (names g)) ->
    cutoff_exceeded cutoff 0 = false ->
    exists mm,
      multi_source teqb threads g weighted sources target cutoff fo wp = Ok mm /\
      forall s m, lookup teqb s mm = Some m <->
                  In s sources /\ single_source teqb g weighted s target cutoff fo wp = Ok m.
  Proof. exact (wf_multi_source teqb tltb teqb_spec tltb_total). Qed.

  (* all_pairs (weighted: every stored edge carries a weight, else it is
     Err EdgeWeightNotSpecified — C08_all_pairs_unweighted_store) returns Ok and its map
     has exactly the node names as keys, the value at s being the answer of
     single_source from s. *)
  Theorem C08_reachable_all_pairs : forall (threads : nat) (g : gstate) (weighted : bool)
      (target : option T) (cutoff : option Q) (fo wp : bool),
    WF g -> small_adj g -> (weighted = true -> weights_nonneg g) ->
    (weighted = true -> edges_have_weight g = true) ->
    (forall t, target = Some t -> In t (names g)) ->
    cutoff_exceeded cutoff 0 = false ->
    exists mm,
      all_pairs teqb threads g weighted target cutoff fo wp = Ok mm /\
      forall s m, lookup teqb s mm = Some m <->
                  In s (names g) /\ single_source teqb g weighted s target cutoff fo wp = Ok m.
  Proof. exact (wf_all_pairs teqb tltb teqb_spec tltb_total). Qed.

  (* The same agreement for ANY stored weights (negative ones included), any cutoff: multi_source /
     all_pairs return EITHER the map of the per-source answers — and then every per-source call
     returned Ok — OR Err ContradictoryPaths, and then some listed source's (some node's) single_source
     returns exactly that error.  No third outcome: the entry points agree on the Err case too. *)
  Theorem C08_reachable_multi_source_any_weights : forall (threads : nat) (g : gstate) (weighted : bool)
      (sources : list T) (target : option T) (cutoff : option Q) (fo wp : bool),
    WF g -> small_adj g ->
    (forall s, In s sources -> In s (names g)) ->
    (forall t, target = Some t -> In t (names g)) ->
    (exists mm,
       multi_source teqb threads g weighted sources target cutoff fo wp = Ok mm /\
       (forall s, In s sources -> exists m, single_source teqb g weighted s target cutoff fo wp = Ok m) /\
       forall s m, lookup teqb s mm = Some m <->
                   In s sources /\ single_source teqb g weighted s target cutoff fo wp = Ok m) \/
    (multi_source teqb threads g weighted sources target cutoff fo wp = Err ContradictoryPaths /\
     exists s, In s sources /\ single_source teqb g weighted s target cutoff fo wp = Err ContradictoryPaths).
  Proof. exact (wf_multi_source_any teqb tltb teqb_spec). Qed.

  Theorem C08_reachable_all_pairs_any_weights : forall (threads : nat) (g : gstate) (weighted : bool)
      (target : option T) (cutoff : option Q) (fo wp : bool),
    WF g -> small_adj g ->
    (weighted = true -> edges_have_weight g = true) ->
    (forall t, target = Some t -> In t (names g)) ->
    (exists mm,
       all_pairs teqb threads g weighted target cutoff fo wp = Ok mm /\
       (forall s, In s (names g) -> exists m, single_source teqb g weighted s target cutoff fo wp = Ok m) /\
       forall s m, lookup teqb s mm = Some m <->
                   In s (names g) /\ single_source teqb g weighted s target cutoff fo wp = Ok m) \/
    (all_pairs teqb threads g weighted target cutoff fo wp = Err ContradictoryPaths /\
     exists s, In s (names g) /\ single_source teqb g weighted s target cutoff fo wp = Err ContradictoryPaths).
  Proof. exact (wf_all_pairs_any teqb tltb teqb_spec). Qed.

  Theorem C08_all_pairs_unweighted_store : forall (threads : nat) (g : gstate)
      (target : option T) (cutoff : option Q) (fo wp : bool),
    edges_have_weight g = false ->
    all_pairs teqb threads g true target cutoff fo wp = Err EdgeWeightNotSpecified.
  Proof. exact (all_pairs_unweighted_store teqb). Qed.

  (* get_all_shortest_paths_involving(x) returns Ok: exactly the all-pairs entries (which
     exist, by the previous theorem) having a path with x strictly inside. *)
  Theorem C08_reachable_involving : forall (threads : nat) (g : gstate) (x : T) (weighted : bool),
    WF g -> small_adj g -> (weighted = true -> weights_nonneg g) ->
    (weighted = true -> edges_have_weight g = true) ->
    exists pairs l,
      all_pairs teqb threads g weighted None None false true = Ok pairs /\
      get_all_shortest_paths_involving teqb threads g x weighted = Ok l /\
      forall spi, In spi l <->
        (exists s t, exists m, In (s, m) pairs /\ In (t, spi) m) /\
        exists p, In p (sp_paths spi) /\ inside x p.
  Proof. exact (wf_involving teqb tltb teqb_spec tltb_total). Qed.

  (* ... in particular for every graph returned by Graph::new_from_nodes_and_edges *)
  Corollary C08_constructed_all_pairs : forall ns es (s : specs) (threads : nat) (g : gstate) (weighted : bool)
      (target : option T) (cutoff : option Q) (fo wp : bool),
    new_from_nodes_and_edges teqb tltb ns es s = Ok g ->
    small_adj g -> (weighted = true -> weights_nonneg g) ->
    (weighted = true -> edges_have_weight g = true) ->
    (forall t, target = Some t -> In t (names g)) ->
    cutoff_exceeded cutoff 0 = false ->
    exists mm,
      all_pairs teqb threads g weighted target cutoff fo wp = Ok mm /\
      forall x m, lookup teqb x mm = Some m <->
                  In x (names g) /\ single_source teqb g weighted x target cutoff fo wp = Ok m.
  Proof.
    intros ns es s threads g weighted target cutoff fo wp H.
    exact (wf_all_pairs teqb tltb teqb_spec tltb_total threads g weighted target cutoff fo wp
             (WF_reachable teqb tltb teqb_spec tltb_asym tltb_total s g (new_from_reachable teqb tltb teqb_spec ns es s g H))).
  Qed.

  Corollary C08_history_multi_source : forall (s : specs) (threads : nat) (g : gstate) (weighted : bool)
      (sources : list T) (target : option T) (cutoff : option Q) (fo wp : bool),
    reachable teqb tltb s g -> small_adj g -> (weighted = true -> weights_nonneg g) ->
    (forall x, In x sources -> In x (names g)) ->
    (forall t, target = Some t -> In t (names g)) ->
    cutoff_exceeded cutoff 0 = false ->
    exists mm,
      multi_source teqb threads g weighted sources target cutoff fo wp = Ok mm /\
      forall x m, lookup teqb x mm = Some m <->
                  In x sources /\ single_source teqb g weighted x target cutoff fo wp = Ok m.
  Proof.
    intros s threads g weighted sources target cutoff fo wp R.
    exact (wf_multi_source teqb tltb teqb_spec tltb_total threads g weighted sources target cutoff fo wp
             (WF_reachable teqb tltb teqb_spec tltb_asym tltb_total s g R)).
  Qed.
End Reachable.

(* non-vacuity of the Err branch of the two `_any_weights` theorems: F22's graph (reachable, WF, small,
   one negative weight) — single_source from 1, multi_source and all_pairs all return
   Err ContradictoryPaths; hop-count mode takes the Ok branch *)
Example C08_any_weights_err_branch_nonvacuous :
  match ex_neg with
  | Ok g =>
    WF Z.eqb Z.ltb g /\ small_adj g /\ ~ weights_nonneg g /\
    single_source Z.eqb g true 1%Z None None false true = Err ContradictoryPaths /\
    multi_source Z.eqb 1 g true [1%Z] None None false true = Err ContradictoryPaths /\
    multi_source Z.eqb 1 g true [2%Z; 1%Z; 3%Z] None None false true = Err ContradictoryPaths /\
    all_pairs Z.eqb 1 g true None None false true = Err ContradictoryPaths /\
    get_all_shortest_paths_involving Z.eqb 1 g 3%Z true = Ok [] /\
    (exists mm, all_pairs Z.eqb 1 g false None None false true = Ok mm /\ List.length mm = 3%nat)
  | _ => False
  end.
Proof. exact negative_weights_err. Qed.

(* non-vacuity: see C04_reachable_hypotheses_nonvacuous (the same example graph: reachable,
   WF, small, non-negative weights, all three entry points return Ok on it) *)
Example C08_reachable_hypotheses_nonvacuous :
  WF Z.eqb Z.ltb ex_g /\ small_adj ex_g /\ weights_nonneg ex_g /\ edges_have_weight ex_g = true /\
  (exists mm, multi_source Z.eqb 1 ex_g true [3%Z; 5%Z] None None false true = Ok mm /\ length mm = 2%nat) /\
  (exists mm, all_pairs Z.eqb 1 ex_g true None None false true = Ok mm /\ length mm = 4%nat).
Proof.
  destruct reachable_hypotheses_nonvacuous as (_ & H1 & H2 & H3 & H4 & _ & _ & _ & H5 & H6).
  exact (conj H1 (conj H2 (conj H3 (conj H4 (conj H5 H6))))).
Qed.
