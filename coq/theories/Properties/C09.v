(* Property C09 — Counts, degrees, density and the adjacency matrix agree with the edge multiset.
   Only pinned statements; proofs in Proofs/DegreeOk.v. *)
From Coq Require Import List Bool Arith Permutation ZArith QArith.
From GV Require Import Base.Outcome Base.AMap Model.GState Model.Creation Model.Query Model.Derived Spec.AGraph.
From GV Require Import Proofs.WFDefs Proofs.QueryOk Proofs.DegreeOk Proofs.MatrixOk Proofs.DegreeMaps.
Import ListNotations.
Close Scope Q_scope.
Open Scope nat_scope.

Section C09.
  Context {T A : Type}.
  Variable teqb : T -> T -> bool.
  Variable tltb : T -> T -> bool.
  Hypothesis teqb_spec : forall x y, teqb x y = true <-> x = y.
  Hypothesis tltb_asym : forall x y, tltb x y = true -> tltb y x = false.
  Hypothesis tltb_total : forall x y, tltb x y = false -> tltb y x = false -> x = y.
  Notation gstate := (gstate T A).
  Notation WF := (@WF T A teqb tltb).

  (* number_of_edges = size(false) = number of stored edges, parallel edges individually *)
  Theorem C09_counts : forall (g : gstate),
    number_of_edges g = length (flat_map snd (edges g)) /\
    size_unweighted g = length (flat_map snd (edges g)) /\
    number_of_nodes g = length (nodes_vec g).
  Proof. exact number_of_edges_is_size. Qed.

  (* degree = number of stored edges leaving + number entering (a self-loop adds two) *)
  Theorem C09_degree : forall (g : gstate) x,
    WF g -> In x (names g) ->
    get_node_degree teqb tltb g x = Ok (Some (out_deg teqb g x + in_deg teqb g x)).
  Proof. exact (get_node_degree_spec teqb tltb teqb_spec tltb_total). Qed.

  Theorem C09_out_degree : forall (g : gstate) x,
    WF g -> directed (sp g) = true -> In x (names g) ->
    get_node_out_degree teqb g x = Ok (Some (out_deg teqb g x)).
  Proof. exact (get_node_out_degree_spec teqb tltb teqb_spec). Qed.

  Theorem C09_in_degree : forall (g : gstate) x,
    WF g -> directed (sp g) = true -> In x (names g) ->
    get_node_in_degree teqb g x = Ok (Some (in_deg teqb g x)).
  Proof. exact (get_node_in_degree_spec teqb tltb teqb_spec). Qed.

  (* handshake identities *)
  Theorem C09_handshake : forall (g : gstate),
    WF g ->
    sum_over (fun x => out_deg teqb g x + in_deg teqb g x)%nat (names g) = (2 * length (flat_map snd (edges g)))%nat.
  Proof. exact (handshake teqb tltb teqb_spec). Qed.

  Theorem C09_out_degrees_sum : forall (g : gstate),
    WF g -> sum_over (out_deg teqb g) (names g) = length (flat_map snd (edges g)).
  Proof. exact (out_degrees_sum teqb tltb teqb_spec). Qed.

  Theorem C09_in_degrees_sum : forall (g : gstate),
    WF g -> sum_over (in_deg teqb g) (names g) = length (flat_map snd (edges g)).
  Proof. exact (in_degrees_sum teqb tltb teqb_spec). Qed.

  (* density of a single-edge graph with n >= 2: m/(n(n-1)), doubled when undirected *)
  Theorem C09_density : forall (g : gstate),
    WF g -> multi (sp g) = false -> (2 <= length (nodes_vec g))%nat ->
    let m := Z.of_nat (length (flat_map snd (edges g))) in
    let n := Z.of_nat (length (nodes_vec g)) in
    exists q, get_density g = Some q /\
              Qeq q ((if directed (sp g) then inject_Z m else inject_Z (2 * m)%Z) / inject_Z (n * (n - 1))%Z).
  Proof. exact (density_spec teqb tltb teqb_spec). Qed.

  (* degree centrality for n >= 2: one entry per node, degree / (n - 1) *)
  Theorem C09_degree_centrality : forall (g : gstate),
    WF g -> (2 <= length (nodes_vec g))%nat ->
    exists l, degree_centrality teqb tltb g = Ok l /\
              map fst l = names g /\
              forall x q, In (x, q) l ->
                Qeq q (inject_Z (Z.of_nat (out_deg teqb g x + in_deg teqb g x)) /
                       inject_Z (Z.of_nat (length (nodes_vec g)) - 1)).
  Proof. exact (degree_centrality_spec teqb tltb teqb_spec tltb_total). Qed.

  (* weighted variants, for uniformly weighted stores (no NaN weight) *)
  Theorem C09_weighted_degree : forall (g : gstate) x,
    WF g -> In x (names g) -> all_real (flat_map snd (edges g)) ->
    get_node_weighted_degree teqb tltb g x = Ok (Some (Some (w_out teqb g x + w_in teqb g x)%Z)).
  Proof. exact (get_node_weighted_degree_spec teqb tltb teqb_spec tltb_total). Qed.

  Theorem C09_weighted_handshake : forall (g : gstate),
    WF g ->
    zsum_over (fun x => (w_out teqb g x + w_in teqb g x)%Z) (names g) = (2 * zsum (flat_map snd (edges g)))%Z.
  Proof. exact (weighted_handshake teqb tltb teqb_spec). Qed.

  Theorem C09_size_weighted : forall (g : gstate),
    all_real (flat_map snd (edges g)) -> size_weighted g = Some (zsum (flat_map snd (edges g))).
  Proof. exact size_weighted_spec. Qed.

  (* sparse adjacency matrix of a single-edge graph (observed as its triplet list): entry (i,j) is
     present iff an edge is stored between the i-th and the j-th node (in either orientation when
     undirected), with the weight of that edge (1 for an unweighted edge); symmetric when undirected *)
  Theorem C09_matrix : forall (g : gstate),
    WF g -> multi (sp g) = false ->
    exists tr, matrix_triplets g = Ok tr /\
      forall i j w, In (i, j, w) tr <->
                    exists e es, grp_of teqb tltb g i j = Some (e :: es) /\ w = mweight e.
  Proof. exact (matrix_spec teqb tltb tltb_asym tltb_total). Qed.

  Theorem C09_matrix_symmetric : forall (g : gstate) tr i j w,
    WF g -> multi (sp g) = false -> directed (sp g) = false ->
    matrix_triplets g = Ok tr -> In (i, j, w) tr -> In (j, i, w) tr.
  Proof. exact (matrix_symmetric teqb tltb tltb_asym tltb_total). Qed.
  (* ... and every position (row, column) is emitted at most once, so the sparse matrix built from the
     triplets (which sums repeated positions) holds exactly the stored weights *)
  Theorem C09_matrix_positions_once : forall (g : gstate) tr,
    WF g -> multi (sp g) = false -> matrix_triplets g = Ok tr ->
    NoDup (map (fun t : nat * nat * weight => (fst (fst t), snd (fst t))) tr).
  Proof. intros g tr. exact (matrix_positions_nodup teqb tltb g tr). Qed.

  (* the six *_for_all_nodes maps, VALUES (their key lists: C20_degree_maps_total).  Whenever such a
     call returns a map l (any state): the keys are the node names in node order and every entry
     (x, d) carries the answer of the per-node function, per_node g x = Ok (Some d) *)
  Theorem C09_degree_maps_values : forall (g : gstate),
    (forall l, get_degree_for_all_nodes teqb tltb g = Ok l ->
       map fst l = names g /\
       forall x d, In (x, d) l -> In x (names g) /\ get_node_degree teqb tltb g x = Ok (Some d)) /\
    (forall l, get_in_degree_for_all_nodes teqb g = Ok l ->
       map fst l = names g /\
       forall x d, In (x, d) l -> In x (names g) /\ get_node_in_degree teqb g x = Ok (Some d)) /\
    (forall l, get_out_degree_for_all_nodes teqb g = Ok l ->
       map fst l = names g /\
       forall x d, In (x, d) l -> In x (names g) /\ get_node_out_degree teqb g x = Ok (Some d)) /\
    (forall l, get_weighted_degree_for_all_nodes teqb tltb g = Ok l ->
       map fst l = names g /\
       forall x d, In (x, d) l -> In x (names g) /\ get_node_weighted_degree teqb tltb g x = Ok (Some d)) /\
    (forall l, get_weighted_in_degree_for_all_nodes teqb g = Ok l ->
       map fst l = names g /\
       forall x d, In (x, d) l -> In x (names g) /\ get_node_weighted_in_degree teqb g x = Ok (Some d)) /\
    (forall l, get_weighted_out_degree_for_all_nodes teqb g = Ok l ->
       map fst l = names g /\
       forall x d, In (x, d) l -> In x (names g) /\ get_node_weighted_out_degree teqb g x = Ok (Some d)).
  Proof. exact (degree_maps_values teqb tltb). Qed.

  (* ... and in closed form on a coherent state (with C09_degree / C09_in_degree / C09_out_degree) *)
  Theorem C09_degree_maps_exact : forall (g : gstate),
    WF g ->
    get_degree_for_all_nodes teqb tltb g =
      Ok (map (fun x => (x, out_deg teqb g x + in_deg teqb g x)) (names g)) /\
    (directed (sp g) = true ->
     get_in_degree_for_all_nodes teqb g = Ok (map (fun x => (x, in_deg teqb g x)) (names g)) /\
     get_out_degree_for_all_nodes teqb g = Ok (map (fun x => (x, out_deg teqb g x)) (names g))).
  Proof. exact (degree_maps_exact teqb tltb teqb_spec tltb_total). Qed.

  Theorem C09_weighted_degree_map_exact : forall (g : gstate),
    WF g -> all_real (flat_map snd (edges g)) ->
    get_weighted_degree_for_all_nodes teqb tltb g =
      Ok (map (fun x => (x, Some (w_out teqb g x + w_in teqb g x)%Z)) (names g)).
  Proof. exact (weighted_degree_map_exact teqb tltb teqb_spec tltb_total). Qed.
End C09.

(* non-vacuity of C09_degree_maps_values, evaluated: an undirected multigraph with a self-loop and
   two parallel edges; the degree map lists 5 -> 4 (loop counted twice), 2 -> 2, in node order *)
Example C09_degree_maps_nonvacuous :
  (let s := mkspecs false DErr MCreate true true SErr in
   let g := fst (add_edges Z.eqb Z.ltb (new s)
                  [mkedge 5 2 (Some 1) (@None Z); mkedge 2 5 (Some 4) None; mkedge 5 5 (Some 3) None]) in
   get_degree_for_all_nodes Z.eqb Z.ltb g = Ok [(5, 4%nat); (2, 2%nat)] /\
   get_node_degree Z.eqb Z.ltb g 5 = Ok (Some 4%nat) /\
   get_weighted_degree_for_all_nodes Z.eqb Z.ltb g = Ok [(5, Some 11); (2, Some 5)])%Z.
Proof. vm_compute. repeat split. Qed.

