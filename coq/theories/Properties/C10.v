(* Property C10 — Component functions partition the nodes by the right reachability relation.
   This file contains only the pinned statements; proofs live in Proofs/.  The statements are
   repeated in coq/pins/C10.v and re-checked on every run. *)
From Coq Require Import List Bool Arith.
From GV Require Import Base.Outcome Base.AMap Model.GState Model.Creation Model.Query
     Model.Components Model.Scc Spec.ReachDef Spec.CompSpec Proofs.ReachOk Proofs.ComponentsOk Proofs.PartitionsOk Proofs.PartitionsTotalOk Proofs.SccOk Proofs.SccFullOk.
From GV Require Import Spec.EdgeAdj Spec.History Proofs.WFDefs Proofs.HistoryOk Proofs.CompWF.
Import ListNotations.

Section C10.
  Context {T A : Type}.
  Variable teqb : T -> T -> bool.
  Hypothesis teqb_spec : forall x y, teqb x y = true <-> x = y.
  Notation gstate := (gstate T A).

  (* FLOOR, verified checker: whenever the executable test accepts [comps] for a graph state,
     [comps] is the partition of the node list into the classes of reachability over the
     stored edge list (ignoring direction for RConn, in both directions for RStrong).  The Run
     module evaluates it on the model's connected / weak / strong components of every case. *)
  Theorem C10_checker_sound : forall (g : gstate) k comps,
    check_components_g teqb g k comps = true ->
    is_component_partition (g_nodes g) (g_rel k g) comps.
  Proof. exact (check_components_g_sound teqb teqb_spec). Qed.

  (* a component partition puts two nodes in one set iff they are related *)
  Theorem C10_same_set_iff_related : forall (nodes : list T) rel comps,
    is_component_partition nodes rel comps ->
    forall x y, In x nodes -> In y nodes ->
    ((exists c, In c comps /\ In x c /\ In y c) <-> rel x y).
  Proof. exact (partition_same_set (T:=T)). Qed.

  (* breadth_first_search(x): x first, no node twice, exactly the nodes reachable from x along
     the adjacency the search reads (partial correctness: for every run that returns) *)
  Theorem C10_bfs : forall (g : gstate) x l,
    breadth_first_search teqb g x = Ok l ->
    (exists t, l = x :: t) /\ NoDup l /\ (forall y, In y l <-> reach (step teqb g) x y).
  Proof. exact (bfs_correct teqb teqb_spec). Qed.

  (* ... and the search returns (the model's fuel |V|+2 is never exhausted, no unwrap fails)
     from every node of every graph state whose adjacency query is total and closed over the
     node list - which the executable test step_total_b decides (evaluated on every case) *)
  Theorem C10_bfs_total : forall (g : gstate) x,
    step_total_b teqb g = true -> In x (g_nodes g) ->
    exists l, breadth_first_search teqb g x = Ok l.
  Proof.
    intros g x H. exact (bfs_total teqb teqb_spec g x (step_total_sound teqb teqb_spec g H)).
  Qed.

  (* connected_components IS the partition of the node list into the classes of reachability
     along the adjacency the search reads, for every undirected graph state whose adjacency
     query is symmetric and closed over the node list ... *)
  Theorem C10_connected : forall (g : gstate) cs,
    (forall u v, step teqb g u v -> step teqb g v u) ->
    (forall u v, In u (g_nodes g) -> step teqb g u v -> In v (g_nodes g)) ->
    connected_components teqb g = Ok cs ->
    is_component_partition (g_nodes g) (reach (step teqb g)) cs.
  Proof. exact (connected_components_partition teqb teqb_spec). Qed.

  (* ... which an executable test decides (evaluated by the Run module on every case) *)
  Theorem C10_connected_checked : forall (g : gstate) cs,
    step_ok_b teqb g = true ->
    connected_components teqb g = Ok cs ->
    is_component_partition (g_nodes g) (reach (step teqb g)) cs.
  Proof. exact (connected_components_checked teqb teqb_spec). Qed.

  (* weakly_connected_components: classes of reachability along successors-or-predecessors *)
  Theorem C10_weak : forall (g : gstate) cs,
    (forall u v, wstep teqb g u v -> wstep teqb g v u) ->
    (forall u v, In u (g_nodes g) -> wstep teqb g u v -> In v (g_nodes g)) ->
    weakly_connected_components teqb g = Ok cs ->
    is_component_partition (g_nodes g) (reach (wstep teqb g)) cs.
  Proof. exact (weakly_connected_components_partition teqb teqb_spec). Qed.

  Theorem C10_weak_checked : forall (g : gstate) cs,
    wstep_ok_b teqb g = true ->
    weakly_connected_components teqb g = Ok cs ->
    is_component_partition (g_nodes g) (reach (wstep teqb g)) cs.
  Proof. exact (weakly_connected_components_checked teqb teqb_spec). Qed.

  (* strongly_connected_components (the iterative preorder / low-link loop), for EVERY
     neighbour iteration order [ord] and every graph state, every run that returns: the
     emitted sets are non-empty, no node occurs twice (the sets are pairwise disjoint) and
     every node of the graph is in one of them.  (Which nodes share a set is established per
     generated case by C10_checker_sound, not by an unbounded theorem.) *)
  Theorem C10_scc_partition : forall (ord : list T -> list T) (g : gstate) cs,
    strongly_connected_components teqb ord g = Ok cs ->
    (forall c, In c cs -> c <> []) /\
    NoDup (concat cs) /\
    (forall x, In x (get_all_node_names g) -> In x (concat cs)).
  Proof. exact (scc_partition teqb teqb_spec). Qed.

  (* FULL correctness of the loop: every emitted set is exactly one class of mutual
     reachability along the neighbour relation the loop reads ([ord] applied to the successor
     set), for EVERY order oracle and every graph state, every run that returns *)
  Theorem C10_scc_classes : forall (ord : list T -> list T) (g : gstate) cs,
    strongly_connected_components teqb ord g = Ok cs ->
    forall c, In c cs -> exists v, forall y, In y c <-> mutual teqb ord g v y.
  Proof. exact (scc_classes teqb teqb_spec). Qed.

  (* hence: strongly_connected_components IS the partition of the node list into the classes
     of mutual reachability along the successor relation, whenever [ord] permutes each
     successor set (as any HashSet iteration does) and successors are nodes of the graph
     (decided by the executable test wstep_ok_b, evaluated on every case) *)
  Theorem C10_scc : forall (ord : list T -> list T) (g : gstate) cs,
    (forall l x, In x (ord l) <-> In x l) ->
    wstep_ok_b teqb g = true ->
    strongly_connected_components teqb ord g = Ok cs ->
    is_component_partition (get_all_node_names g) (smutual teqb g) cs.
  Proof.
    intros ord g cs Hord Hok.
    exact (scc_correct teqb teqb_spec ord g Hord (succ_rows_closed teqb teqb_spec g Hok) cs).
  Qed.

  (* the three component functions RETURN (no unwrap fails, the model's fuel is never
     exhausted) on every graph state of the right kind passing the executable coherence tests *)
  Theorem C10_scc_total : forall (ord : list T -> list T) (g : gstate),
    (forall l x, In x (ord l) <-> In x l) ->
    wstep_ok_b teqb g = true -> directed (sp g) = true ->
    exists cs, strongly_connected_components teqb ord g = Ok cs.
  Proof.
    intros ord g Hord Hok.
    exact (scc_total teqb teqb_spec ord g Hord (succ_rows_closed teqb teqb_spec g Hok)).
  Qed.

  Theorem C10_weak_total : forall (g : gstate),
    directed (sp g) = true -> wstep_ok_b teqb g = true ->
    exists cs, weakly_connected_components teqb g = Ok cs.
  Proof. exact (weakly_connected_components_total teqb teqb_spec). Qed.

  Theorem C10_connected_total : forall (g : gstate),
    directed (sp g) = false -> step_total_b teqb g = true ->
    exists cs, connected_components teqb g = Ok cs.
  Proof. exact (connected_components_total teqb teqb_spec). Qed.

  Theorem C10_node_component : forall (g : gstate) x s,
    node_connected_component teqb g x = Ok s ->
    directed (sp g) = false /\ NoDup s /\ (forall y, In y s <-> reach (step teqb g) x y).
  Proof. exact (node_component_correct teqb teqb_spec). Qed.

  Theorem C10_node_component_absent : forall (g : gstate) x,
    directed (sp g) = false -> has_node teqb g x = Ok false ->
    node_connected_component teqb g x = Err NodeNotFound.
  Proof. exact (node_component_absent teqb). Qed.

  Theorem C10_count : forall (g : gstate) n,
    number_of_connected_components teqb g = Ok n ->
    exists cs, connected_components teqb g = Ok cs /\ n = length cs.
  Proof. exact (count_is_length teqb). Qed.

  Theorem C10_wrong_kind : forall (g : gstate),
    (directed (sp g) = true ->
       connected_components teqb g = Err WrongMethod /\
       number_of_connected_components teqb g = Err WrongMethod /\
       forall x, node_connected_component teqb g x = Err WrongMethod) /\
    (directed (sp g) = false ->
       weakly_connected_components teqb g = Err WrongMethod /\
       forall ord, strongly_connected_components teqb ord g = Err WrongMethod).
  Proof. exact (wrong_kind teqb). Qed.
  (* bfs_equal_size_partitions(k), for every run that returns: k >= 1, and the parts are the
     names of k index lists in which every node index 0..n-1 occurs exactly once and none is
     longer than n/k + 1 *)
  Theorem C10_equal_size : forall (g : gstate) k ps,
    bfs_equal_size_partitions g k = Ok ps ->
    1 <= k /\
    exists idx : list (list nat),
      Forall2 (fun ip p => names_of_indexes g ip = Ok p) idx ps /\
      length idx = k /\
      Forall (fun p => length p <= number_of_nodes g / k + 1) idx /\
      NoDup (concat idx) /\
      (forall i, In i (concat idx) <-> i < number_of_nodes g).
  Proof. exact (equal_size_indexes (T:=T) (A:=A)). Qed.

  Theorem C10_equal_size_shape : forall (g : gstate) k ps,
    bfs_equal_size_partitions g k = Ok ps ->
    length ps = k /\
    Forall (fun p => length p <= number_of_nodes g / k + 1) ps /\
    length (concat ps) = number_of_nodes g.
  Proof. exact (equal_size_shape (T:=T) (A:=A)). Qed.
  (* ... and it RETURNS for every k >= 1 on every graph state whose index adjacency is well
     formed (executable test vec_ok_b, evaluated on every case): both loops finish within the
     model's explicit fuel, `partitions[partition]` is never indexed at k, no other index or
     unwrap fails *)
  Theorem C10_equal_size_total : forall (g : gstate) k,
    vec_ok_b g = true -> 1 <= k -> exists ps, bfs_equal_size_partitions g k = Ok ps.
  Proof. exact (equal_size_total (T:=T) (A:=A)). Qed.
End C10.

(* ======================================================================================
   END TO END.  The executable coherence tests above (step_ok_b, step_total_b, wstep_ok_b,
   vec_ok_b) and the symmetry / closedness hypotheses are CONSEQUENCES of the coherence
   invariant WF of the twelve fields, which holds in every state reachable by any history of
   mutations (C01) - in particular in every graph built by new_from_nodes_and_edges - and the
   adjacency each loop reads is the one of the EDGE LIST (get_all_edges).  Hence, with no
   per-case test left in the hypotheses: every component function RETURNS, and returns the
   partition of the node list by the right reachability relation over the edge list. *)
Section C10_end_to_end.
  Context {T A : Type}.
  Variable teqb : T -> T -> bool.
  Variable tltb : T -> T -> bool.
  Hypothesis teqb_spec : forall x y, teqb x y = true <-> x = y.
  Hypothesis tltb_asym : forall x y, tltb x y = true -> tltb y x = false.
  Hypothesis tltb_total : forall x y, tltb x y = false -> tltb y x = false -> x = y.
  Notation gstate := (gstate T A).
  Notation WF := (@WF T A teqb tltb).

  (* every reachable state is coherent; every successfully built graph is reachable *)
  Theorem C10_reachable_WF : forall s (g : gstate), reachable teqb tltb s g -> WF g.
  Proof. exact (WF_reachable teqb tltb teqb_spec tltb_asym tltb_total). Qed.

  Theorem C10_built_WF : forall ns es s (g : gstate),
    new_from_nodes_and_edges teqb tltb ns es s = Ok g -> WF g.
  Proof.
    intros ns es s g H. apply (WF_reachable teqb tltb teqb_spec tltb_asym tltb_total s).
    exact (new_from_reachable teqb tltb teqb_spec ns es s g H).
  Qed.

  (* ---- the per-case tests are theorems ---- *)
  Theorem C10_tests_hold : forall (g : gstate), WF g ->
    (forall u v, step teqb g u v <-> g_follow g u v) /\
    adj_total teqb g /\
    vec_ok_b g = true /\
    (forall u w, succ_rel teqb g u w <-> g_follow g u w) /\
    (directed (sp g) = true ->
       (forall u v, wstep teqb g u v <-> (edge_rel g u v \/ edge_rel g v u)) /\
       wstep_closed teqb g).
  Proof. exact (tests_hold_wf teqb tltb teqb_spec tltb_total). Qed.

  (* ---- breadth_first_search ---- *)
  (* from every node of every coherent state the search RETURNS: x first, no node twice,
     exactly the nodes reachable from x along stored edges of get_all_edges (against them
     too on an undirected graph) *)
  Theorem C10_bfs_wf : forall (g : gstate) x,
    WF g -> In x (g_nodes g) ->
    exists l, breadth_first_search teqb g x = Ok l /\
              (exists t, l = x :: t) /\ NoDup l /\ (forall y, In y l <-> reach (g_follow g) x y).
  Proof. exact (bfs_wf teqb tltb teqb_spec tltb_total). Qed.

  Theorem C10_bfs_reachable : forall s (g : gstate) x,
    reachable teqb tltb s g -> In x (g_nodes g) ->
    exists l, breadth_first_search teqb g x = Ok l /\
              (exists t, l = x :: t) /\ NoDup l /\ (forall y, In y l <-> reach (g_follow g) x y).
  Proof. intros s g x R. exact (bfs_wf teqb tltb teqb_spec tltb_total g x (C10_reachable_WF s g R)). Qed.

  (* ---- connected_components / number_of_connected_components / node_connected_component ---- *)
  Theorem C10_connected_wf : forall (g : gstate),
    WF g -> directed (sp g) = false ->
    exists cs, connected_components teqb g = Ok cs /\
               is_component_partition (g_nodes g) (g_connected g) cs.
  Proof. exact (connected_components_wf teqb tltb teqb_spec tltb_total). Qed.

  Theorem C10_connected_reachable : forall s (g : gstate),
    reachable teqb tltb s g -> directed (sp g) = false ->
    exists cs, connected_components teqb g = Ok cs /\
               is_component_partition (g_nodes g) (g_connected g) cs.
  Proof. intros s g R. exact (connected_components_wf teqb tltb teqb_spec tltb_total g (C10_reachable_WF s g R)). Qed.

  Theorem C10_count_wf : forall (g : gstate),
    WF g -> directed (sp g) = false ->
    exists cs, number_of_connected_components teqb g = Ok (length cs) /\
               is_component_partition (g_nodes g) (g_connected g) cs.
  Proof. exact (number_of_connected_components_wf teqb tltb teqb_spec tltb_total). Qed.

  Theorem C10_node_component_wf : forall (g : gstate) x,
    WF g -> directed (sp g) = false ->
    (In x (g_nodes g) ->
       exists s, node_connected_component teqb g x = Ok s /\ NoDup s /\
                 (forall y, In y s <-> g_connected g x y)) /\
    (~ In x (g_nodes g) -> node_connected_component teqb g x = Err NodeNotFound).
  Proof. exact (node_component_wf teqb tltb teqb_spec tltb_total). Qed.

  (* ---- weakly_connected_components ---- *)
  Theorem C10_weak_wf : forall (g : gstate),
    WF g -> directed (sp g) = true ->
    exists cs, weakly_connected_components teqb g = Ok cs /\
               is_component_partition (g_nodes g) (g_connected g) cs.
  Proof. exact (weakly_connected_components_wf teqb tltb teqb_spec tltb_total). Qed.

  Theorem C10_weak_reachable : forall s (g : gstate),
    reachable teqb tltb s g -> directed (sp g) = true ->
    exists cs, weakly_connected_components teqb g = Ok cs /\
               is_component_partition (g_nodes g) (g_connected g) cs.
  Proof. intros s g R. exact (weakly_connected_components_wf teqb tltb teqb_spec tltb_total g (C10_reachable_WF s g R)). Qed.

  (* ---- strongly_connected_components, for EVERY neighbour iteration order that permutes
     each successor set (the one remaining hypothesis: it is about the hash iteration order,
     not about the graph) ---- *)
  Theorem C10_scc_wf : forall (ord : list T -> list T) (g : gstate),
    (forall l x, In x (ord l) <-> In x l) ->
    WF g -> directed (sp g) = true ->
    exists cs, strongly_connected_components teqb ord g = Ok cs /\
               is_component_partition (g_nodes g) (g_strongly g) cs.
  Proof. exact (strongly_connected_components_wf teqb tltb teqb_spec tltb_total). Qed.

  Theorem C10_scc_reachable : forall (ord : list T -> list T) s (g : gstate),
    (forall l x, In x (ord l) <-> In x l) ->
    reachable teqb tltb s g -> directed (sp g) = true ->
    exists cs, strongly_connected_components teqb ord g = Ok cs /\
               is_component_partition (g_nodes g) (g_strongly g) cs.
  Proof.
    intros ord s g Hord R.
    exact (strongly_connected_components_wf teqb tltb teqb_spec tltb_total ord g Hord (C10_reachable_WF s g R)).
  Qed.

  (* ---- bfs_equal_size_partitions returns for every k >= 1 ---- *)
  Theorem C10_equal_size_total_wf : forall (g : gstate) k,
    WF g -> 1 <= k -> exists ps, bfs_equal_size_partitions g k = Ok ps.
  Proof. exact (equal_size_total_wf teqb tltb). Qed.
  (* a component partition is unique: two partitions of the node list by the same relation
     have the same classes (as sets) *)
  Theorem C10_partition_unique : forall (nodes : list T) (rel : T -> T -> Prop) cs1 cs2,
    is_component_partition nodes rel cs1 -> is_component_partition nodes rel cs2 ->
    forall c1, In c1 cs1 -> exists c2, In c2 cs2 /\ forall y, In y c1 <-> In y c2.
  Proof. exact (partition_unique (T:=T)). Qed.

  (* hence the strong components do not depend on the neighbour iteration order (a per-case
     flag of the Run module, now a theorem), and for the two orders the Run module evaluates -
     insertion order and its reverse - no hypothesis on the order is left *)
  Theorem C10_scc_order_independent : forall (ord1 ord2 : list T -> list T) (g : gstate) cs1 cs2,
    (forall l x, In x (ord1 l) <-> In x l) -> (forall l x, In x (ord2 l) <-> In x l) ->
    WF g ->
    strongly_connected_components teqb ord1 g = Ok cs1 ->
    strongly_connected_components teqb ord2 g = Ok cs2 ->
    forall c1, In c1 cs1 -> exists c2, In c2 cs2 /\ forall y, In y c1 <-> In y c2.
  Proof. exact (scc_order_independent teqb tltb teqb_spec tltb_total). Qed.

  Theorem C10_scc_run_orders : forall (g : gstate),
    WF g -> directed (sp g) = true ->
    (exists cs, strongly_connected_components teqb (fun l => l) g = Ok cs /\
                is_component_partition (g_nodes g) (g_strongly g) cs) /\
    (exists cs, strongly_connected_components teqb (@rev T) g = Ok cs /\
                is_component_partition (g_nodes g) (g_strongly g) cs).
  Proof. exact (scc_run_orders teqb tltb teqb_spec tltb_total). Qed.
End C10_end_to_end.
