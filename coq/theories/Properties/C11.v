(* Property C11 — Clustering, triangle and transitivity values equal their definitions.
   This file contains only the pinned statements; proofs live in Proofs/.  The statements are
   repeated in coq/pins/C11.v and re-checked on every run. *)
From Coq Require Import List Bool Arith ZArith QArith.
From GV Require Import Base.Outcome Base.AMap Model.GState Model.Creation Model.Query
     Model.Components Model.Cluster Model.Square Spec.ClusterDef Spec.ClusterSpec
     Proofs.ClusterDefOk Proofs.ClusterOk Proofs.ClusterEqOk.
From GV Require Import Proofs.ClusterTotalOk.
From GV Require Import Spec.CompSpec Spec.EdgeAdj Spec.History Proofs.WFDefs Proofs.HistoryOk Proofs.ClusterWF
     Proofs.ClusterDirOk Proofs.ClusterRangeOk Proofs.SquareOk Proofs.ClusterRangeWF Proofs.ClusterTotalOk.
Import ListNotations.
Close Scope Q_scope.

Section C11.
  Context {T A : Type}.
  Variable teqb : T -> T -> bool.
  Hypothesis teqb_spec : forall x y, teqb x y = true <-> x = y.
  Notation gstate := (gstate T A).

  (* ---- about the definitions (Spec/ClusterDef.v), for every node list and adjacency ---- *)

  (* the triangles through v never exceed the pairs of neighbours of v ... *)
  Theorem C11_triangles_le_pairs : forall (nodes : list T) adjb v,
    2 * tri teqb nodes adjb v <= deg teqb nodes adjb v * (deg teqb nodes adjb v - 1).
  Proof. exact (tri_le_pairs teqb). Qed.

  (* ... hence the clustering coefficient lies in [0,1] *)
  Theorem C11_unit_interval : forall (nodes : list T) adjb v,
    (0 <= cc teqb nodes adjb v /\ cc teqb nodes adjb v <= 1)%Q.
  Proof. exact (cc_unit_interval teqb). Qed.

  (* Fagiolo's directed coefficient lies in [0,1], for every node list and arc relation
     (counting inequality 2T + 2 d_tot + 4 d_bi <= 2 d_tot^2) *)
  Theorem C11_directed_unit_interval : forall (nodes : list T) adjb i,
    (0 <= cc_directed teqb nodes adjb i /\ cc_directed teqb nodes adjb i <= 1)%Q.
  Proof. exact (cc_directed_unit_interval teqb teqb_spec). Qed.

  (* Lind's square coefficient lies in [0,1], for every duplicate-free node list, symmetric
     adjacency and node of the list (numerator <= denominator as integers) *)
  Theorem C11_square_unit_interval : forall (nodes : list T) adjb,
    NoDup nodes -> (forall u v, adjb u v = adjb v u) ->
    forall v, In v nodes ->
    (0 <= square_def teqb nodes adjb v /\ square_def teqb nodes adjb v <= 1)%Q.
  Proof. exact (square_unit_interval teqb teqb_spec). Qed.

  (* self-loops never count: two adjacencies that differ only on the diagonal give the same
     neighbours, degrees, triangle counts, clustering, transitivity, generalised degree,
     square coefficient and directed (Fagiolo) coefficient *)
  Theorem C11_selfloops_ignored : forall (nodes : list T) adjb1 adjb2,
    (forall u v, u <> v -> adjb1 u v = adjb2 u v) ->
    (forall v, nbrs teqb nodes adjb1 v = nbrs teqb nodes adjb2 v) /\
    (forall v, tri teqb nodes adjb1 v = tri teqb nodes adjb2 v) /\
    (forall v, cc teqb nodes adjb1 v = cc teqb nodes adjb2 v) /\
    transitivity_def teqb nodes adjb1 = transitivity_def teqb nodes adjb2 /\
    (forall v k, gen_degree teqb nodes adjb1 v k = gen_degree teqb nodes adjb2 v k) /\
    (forall v, square_def teqb nodes adjb1 v = square_def teqb nodes adjb2 v) /\
    (forall v, cc_directed teqb nodes adjb1 v = cc_directed teqb nodes adjb2 v).
  Proof.
    intros nodes adjb1 adjb2 H.
    exact (conj (nbrs_ext teqb teqb_spec nodes adjb1 adjb2 H)
          (conj (tri_ext teqb teqb_spec nodes adjb1 adjb2 H)
          (conj (cc_ext teqb teqb_spec nodes adjb1 adjb2 H)
          (conj (transitivity_ext teqb teqb_spec nodes adjb1 adjb2 H)
          (conj (gen_degree_ext teqb teqb_spec nodes adjb1 adjb2 H)
          (conj (square_ext teqb teqb_spec nodes adjb1 adjb2 H)
                (cc_directed_ext teqb teqb_spec nodes adjb1 adjb2 H))))))).
  Qed.

  (* double counting: the per-node triangle counts add up to 3 x the number of triangles *)
  Theorem C11_triangle_sum : forall (nodes : list T) adjb,
    (forall u v, adjb u v = adjb v u) ->
    sumf (tri teqb nodes adjb) nodes = 3 * n_triangles teqb nodes adjb.
  Proof. exact (triangle_sum teqb teqb_spec). Qed.

  (* ---- about the model (Model/Cluster.v, Model/Square.v), for every graph state ---- *)

  (* multi-edge graphs are refused by every function with an error channel, directed graphs
     by the undirected-only functions *)
  Theorem C11_refuses_multi : forall (g : gstate) nn cz,
    multi (sp g) = true ->
    triangles teqb g nn = Err WrongMethod /\
    generalized_degree teqb g nn = Err WrongMethod /\
    transitivity teqb g = Err WrongMethod /\
    clustering teqb g nn = Err WrongMethod /\
    average_clustering teqb g nn cz = Err WrongMethod.
  Proof. exact (refuses_multi teqb). Qed.

  Theorem C11_refuses_directed : forall (g : gstate) nn,
    directed (sp g) = true ->
    triangles teqb g nn = Err WrongMethod /\
    generalized_degree teqb g nn = Err WrongMethod /\
    transitivity teqb g = Err WrongMethod.
  Proof. exact (refuses_directed teqb). Qed.

  (* subset consistency: restricting to a non-empty list S of nodes returns the full
     computation's value for every node of S (that is a node of the graph) and nothing else *)
  Theorem C11_subset_triangles : forall (g : gstate) S mS mA,
    S <> [] -> triangles teqb g (Some S) = Ok mS -> triangles teqb g None = Ok mA ->
    restricts teqb g S mS mA.
  Proof. exact (triangles_subset teqb teqb_spec). Qed.

  Theorem C11_subset_generalized_degree : forall (g : gstate) S mS mA,
    S <> [] -> generalized_degree teqb g (Some S) = Ok mS -> generalized_degree teqb g None = Ok mA ->
    restricts teqb g S mS mA.
  Proof. exact (generalized_degree_subset teqb teqb_spec). Qed.

  Theorem C11_subset_clustering : forall (g : gstate) S mS mA,
    S <> [] -> clustering teqb g (Some S) = Ok mS -> clustering teqb g None = Ok mA ->
    restricts teqb g S mS mA.
  Proof. exact (clustering_subset teqb teqb_spec). Qed.

  Theorem C11_subset_square : forall (g : gstate) S mS mA,
    square_clustering teqb g (Some S) = Ok mS -> square_clustering teqb g None = Ok mA ->
    restricts teqb g S mS mA.
  Proof. exact (square_subset teqb teqb_spec). Qed.

  Theorem C11_subset_defined : forall (g : gstate) S mS v,
    S <> [] -> triangles teqb g (Some S) = Ok mS -> In v S -> exists a, lookup teqb v mS = Some a.
  Proof. exact (triangles_defined teqb teqb_spec). Qed.
  (* average_clustering = the mean of the counted values of the clustering map (all of them
     with count_zeros, the non-zero ones without); None (NaN) when nothing is counted *)
  Theorem C11_average_is_mean : forall (g : gstate) nn cz a,
    average_clustering teqb g nn cz = Ok a ->
    exists m, clustering teqb g nn = Ok m /\ opt_Qeq a (mean cz (map snd m)).
  Proof. exact (average_clustering_is_mean teqb). Qed.

  (* ---- model = definition (undirected, unweighted) ----
     for every graph state passing the executable coherence test nbr_ok_b (node list
     duplicate-free; neighbour query total, inside the node list, symmetric - evaluated by the
     Run module on every case) and every requested node of the graph, with node_names = None
     or any list: triangles(v) is the number of triangles through v in the adjacency [nadj]
     the function reads, and clustering(v) is (as a rational) 2 tri / (d (d-1)), 0 when d < 2 *)
  Theorem C11_triangles_eq_def : forall (g : gstate) nn m v,
    nbr_ok_b teqb g = true ->
    triangles teqb g nn = Ok m ->
    In v (requested_names g nn) -> In v (get_all_node_names g) ->
    lookup teqb v m = Some (tri teqb (get_all_node_names g) (nadj teqb g) v).
  Proof. intros g nn m v Hok. exact (triangles_eq_def teqb teqb_spec g Hok nn m v). Qed.

  Theorem C11_clustering_eq_def : forall (g : gstate) nn m v,
    nbr_ok_b teqb g = true ->
    directed (sp g) = false ->
    clustering teqb g nn = Ok m ->
    In v (requested_names g nn) -> In v (get_all_node_names g) ->
    exists c, lookup teqb v m = Some c /\ (c == cc teqb (get_all_node_names g) (nadj teqb g) v)%Q.
  Proof. intros g nn m v Hok. exact (clustering_eq_def teqb teqb_spec g Hok nn m v). Qed.
  (* transitivity = 3 x (number of triangles) / (number of connected triples), as a rational *)
  Theorem C11_transitivity_eq_def : forall (g : gstate) q,
    nbr_ok_b teqb g = true ->
    transitivity teqb g = Ok q ->
    (q == transitivity_def teqb (get_all_node_names g) (nadj teqb g))%Q.
  Proof. intros g q Hok. exact (transitivity_eq_def teqb teqb_spec g Hok q). Qed.
End C11.

(* ======================================================================================
   END TO END.  The executable coherence test nbr_ok_b is a CONSEQUENCE of the coherence
   invariant WF of the twelve fields (which holds in every state reachable by any history of
   mutations, in particular in every graph built by new_from_nodes_and_edges), and the
   adjacency nadj the functions read IS the adjacency of the EDGE LIST: edge_adjb g u v = there
   is an edge u -> v or v -> u in get_all_edges.  Hence, with no per-case test left in the
   hypotheses, the values equal the definitions of Spec/ClusterDef.v over the edge list. *)
Section C11_end_to_end.
  Context {T A : Type}.
  Variable teqb : T -> T -> bool.
  Variable tltb : T -> T -> bool.
  Hypothesis teqb_spec : forall x y, teqb x y = true <-> x = y.
  Hypothesis tltb_asym : forall x y, tltb x y = true -> tltb y x = false.
  Hypothesis tltb_total : forall x y, tltb x y = false -> tltb y x = false -> x = y.
  Notation gstate := (gstate T A).
  Notation WF := (@WF T A teqb tltb).

  Theorem C11_reachable_WF : forall s (g : gstate), reachable teqb tltb s g -> WF g.
  Proof. exact (WF_reachable teqb tltb teqb_spec tltb_asym tltb_total). Qed.

  (* ---- the per-case tests are theorems ---- *)
  Theorem C11_nbr_ok_holds : forall (g : gstate), WF g -> nbr_ok_b teqb g = true.
  Proof. exact (nbr_ok_wf teqb tltb teqb_spec tltb_total). Qed.

  Theorem C11_nadj_is_edge_list : forall (g : gstate) v u,
    WF g -> nadj teqb g v u = edge_adjb teqb g v u.
  Proof. exact (nadj_edge_adjb teqb tltb teqb_spec tltb_total). Qed.

  (* the neighbour set every clustering function starts from: total, duplicate-free, exactly
     the nodes joined to v by a stored edge in either direction *)
  Theorem C11_neighbor_set : forall (g : gstate) v,
    WF g -> In v (get_all_node_names g) ->
    exists l, neighbor_name_set teqb g v = Ok l /\ NoDup l /\
              forall u, In u l <-> (edge_rel g v u \/ edge_rel g u v).
  Proof. exact (neighbor_name_set_wf teqb tltb teqb_spec tltb_total). Qed.

  (* ---- model = definition over the edge list (undirected, unweighted) ---- *)
  Theorem C11_triangles_wf : forall (g : gstate), WF g -> forall nn m v,
    triangles teqb g nn = Ok m ->
    In v (requested_names g nn) -> In v (get_all_node_names g) ->
    lookup teqb v m = Some (tri teqb (get_all_node_names g) (edge_adjb teqb g) v).
  Proof. exact (triangles_wf teqb tltb teqb_spec tltb_total). Qed.

  Theorem C11_triangles_reachable : forall s (g : gstate), reachable teqb tltb s g -> forall nn m v,
    triangles teqb g nn = Ok m ->
    In v (requested_names g nn) -> In v (get_all_node_names g) ->
    lookup teqb v m = Some (tri teqb (get_all_node_names g) (edge_adjb teqb g) v).
  Proof. intros s g R. exact (triangles_wf teqb tltb teqb_spec tltb_total g (C11_reachable_WF s g R)). Qed.

  Theorem C11_clustering_wf : forall (g : gstate), WF g -> forall nn m v,
    directed (sp g) = false ->
    clustering teqb g nn = Ok m ->
    In v (requested_names g nn) -> In v (get_all_node_names g) ->
    exists c, lookup teqb v m = Some c /\ (c == cc teqb (get_all_node_names g) (edge_adjb teqb g) v)%Q.
  Proof. exact (clustering_wf teqb tltb teqb_spec tltb_total). Qed.

  Theorem C11_clustering_reachable : forall s (g : gstate), reachable teqb tltb s g -> forall nn m v,
    directed (sp g) = false ->
    clustering teqb g nn = Ok m ->
    In v (requested_names g nn) -> In v (get_all_node_names g) ->
    exists c, lookup teqb v m = Some c /\ (c == cc teqb (get_all_node_names g) (edge_adjb teqb g) v)%Q.
  Proof. intros s g R. exact (clustering_wf teqb tltb teqb_spec tltb_total g (C11_reachable_WF s g R)). Qed.

  Theorem C11_transitivity_wf : forall (g : gstate), WF g -> forall q,
    transitivity teqb g = Ok q ->
    (q == transitivity_def teqb (get_all_node_names g) (edge_adjb teqb g))%Q.
  Proof. exact (transitivity_wf teqb tltb teqb_spec tltb_total). Qed.

  Theorem C11_transitivity_reachable : forall s (g : gstate), reachable teqb tltb s g -> forall q,
    transitivity teqb g = Ok q ->
    (q == transitivity_def teqb (get_all_node_names g) (edge_adjb teqb g))%Q.
  Proof. intros s g R. exact (transitivity_wf teqb tltb teqb_spec tltb_total g (C11_reachable_WF s g R)). Qed.

  (* generalized_degree(v): a duplicate-free histogram with an entry (k, c) exactly when
     c = gen_degree v k (the number of edges at v lying in exactly k triangles) is not 0 *)
  Theorem C11_generalized_degree_wf : forall (g : gstate), WF g -> forall nn m v,
    generalized_degree teqb g nn = Ok m ->
    In v (requested_names g nn) -> In v (get_all_node_names g) ->
    exists h, lookup teqb v m = Some h /\ NoDup (map fst h) /\
      forall k, lookup Nat.eqb k h =
                if Nat.eqb (gen_degree teqb (get_all_node_names g) (edge_adjb teqb g) v k) 0 then None
                else Some (gen_degree teqb (get_all_node_names g) (edge_adjb teqb g) v k).
  Proof. exact (generalized_degree_wf teqb tltb teqb_spec tltb_total). Qed.

  (* clustering on a DIRECTED graph = Fagiolo's coefficient over the arcs of the edge list
     (has_edge_b g u v: there is an edge u -> v in get_all_edges) *)
  Theorem C11_clustering_directed_wf : forall (g : gstate), WF g -> directed (sp g) = true ->
    forall nn m v,
    clustering teqb g nn = Ok m ->
    In v (names_of g nn) -> In v (get_all_node_names g) ->
    exists c, lookup teqb v m = Some c /\
              (c == cc_directed teqb (get_all_node_names g) (has_edge_b teqb g) v)%Q.
  Proof. exact (clustering_directed_wf teqb tltb teqb_spec). Qed.

  (* square_clustering on an UNDIRECTED graph = Lind's coefficient over the edge list, and the
     call returns whenever every requested name is a node (there is no error channel) *)
  Theorem C11_square_wf : forall (g : gstate), WF g -> directed (sp g) = false ->
    forall nn m v,
    square_clustering teqb g nn = Ok m ->
    In v (names_of g nn) -> In v (get_all_node_names g) ->
    exists c, lookup teqb v m = Some c /\
              (c == square_def teqb (get_all_node_names g) (edge_adjb teqb g) v)%Q.
  Proof. exact (square_clustering_wf teqb tltb teqb_spec tltb_total). Qed.

  Theorem C11_square_total_wf : forall (g : gstate), WF g -> directed (sp g) = false ->
    forall nn, (forall v, In v (names_of g nn) -> In v (get_all_node_names g)) ->
    exists m, square_clustering teqb g nn = Ok m.
  Proof. exact (square_clustering_total teqb tltb teqb_spec tltb_total). Qed.

  (* every value returned by clustering (both graph kinds) and by square_clustering
     (undirected) lies in [0,1]; no hypothesis on the requested names *)
  Theorem C11_clustering_range_wf : forall (g : gstate), WF g -> forall nn m v c,
    clustering teqb g nn = Ok m -> lookup teqb v m = Some c -> (0 <= c /\ c <= 1)%Q.
  Proof. exact (clustering_unit_wf teqb tltb teqb_spec tltb_total). Qed.

  Theorem C11_square_range_wf : forall (g : gstate), WF g -> forall nn m v c,
    directed (sp g) = false ->
    square_clustering teqb g nn = Ok m -> lookup teqb v m = Some c -> (0 <= c /\ c <= 1)%Q.
  Proof. exact (square_unit_wf teqb tltb teqb_spec tltb_total). Qed.

  (* TOTALITY: on every coherent single-edge graph state, with node_names = None or any list of
     nodes of the graph, clustering (both kinds) and average_clustering RETURN, and on an
     undirected one so do triangles, generalized_degree and transitivity: no unwrap fails and no
     float division by zero (inf / NaN, a Panic site of the model) happens - Fagiolo's and the
     undirected denominators are positive whenever the numerator is *)
  Theorem C11_total_wf : forall (g : gstate), WF g -> forall nn,
    multi (sp g) = false ->
    (forall l, nn = Some l -> forall v, In v l -> In v (get_all_node_names g)) ->
    (exists m, clustering teqb g nn = Ok m) /\
    (forall cz, exists a, average_clustering teqb g nn cz = Ok a) /\
    (directed (sp g) = false ->
       (exists m, triangles teqb g nn = Ok m) /\
       (exists m, generalized_degree teqb g nn = Ok m) /\
       (exists q, transitivity teqb g = Ok q)).
  Proof. exact (cluster_total_wf teqb tltb teqb_spec tltb_total). Qed.
End C11_end_to_end.
