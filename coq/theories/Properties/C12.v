(* Property C12 — Modularity equals Newman's formula and only true partitions are accepted.
   This file contains only the pinned statements; proofs live in Proofs/PartitionOk.v.  The
   statements are repeated in coq/pins/C12.v and re-checked on every run.

   Objects: [is_partition_model] / [modularity_abs] (Spec/PartitionDef.v) are the computations of
   partitions.rs (after the repair of F8) written on a node list and an edge multiset;
   [is_partition] / [modularity] (Model/Partition.v) are the transcription over the twelve-field
   state that the correspondence check compares with the implementation; on every generated case
   the check also evaluates that the two layers agree (observation kind 210). *)
From Coq Require Import List Bool ZArith QArith.
From GV Require Import Base.Outcome Base.AMap Model.GState Model.Partition Spec.PartitionDef
     Proofs.PartitionOk Proofs.PartitionStateOk.
Import ListNotations.

Section C12.
  Context {T : Type}.
  Variable teqb : T -> T -> bool.
  Hypothesis teqb_spec : forall x y, teqb x y = true <-> x = y.

  (* is_partition is true iff the communities are pairwise disjoint, contain only nodes of the
     graph and together contain every node (communities are sets: duplicate-free lists) *)
  Theorem C12_is_partition : forall nodes comms,
    NoDup nodes -> Forall (@NoDup T) comms ->
    (is_partition_model teqb nodes comms = true <->
     (pairwise_disjoint comms /\
      (forall c x, In c comms -> In x c -> In x nodes) /\
      (forall x, In x nodes -> exists c, In c comms /\ In x c))).
  Proof. exact (is_partition_model_correct teqb teqb_spec). Qed.

  (* the value computed from per-node degrees, the induced subgraph and its size equals Newman's
     formula  sum_c L_c/m - gamma Kout_c Kin_c / m^2  (undirected: L_c/m - gamma (K_c/2m)^2)  with
     L_c, Kout_c, Kin_c, K_c, m defined directly on the edge multiset: parallel edges are separate
     entries, a self-loop is one entry (once in L_c) with both ends counted in K_c *)
  Theorem C12_modularity : forall directed nodes (es : list (T * T * Q)) gamma comms,
    NoDup nodes ->
    (forall e, In e es -> In (wu e) nodes /\ In (wv e) nodes) ->
    Forall (@NoDup T) comms ->
    modularity_abs teqb directed nodes es gamma comms == newman teqb directed es gamma comms.
  Proof. exact (modularity_abs_newman teqb teqb_spec). Qed.

  (* the same in the property's own words: a true partition, at least one unit of edge weight *)
  Theorem C12_modularity_of_partition : forall directed nodes (es : list (T * T * Q)) gamma comms,
    NoDup nodes ->
    (forall e, In e es -> In (wu e) nodes /\ In (wv e) nodes) ->
    Forall (@NoDup T) comms ->
    is_partition_model teqb nodes comms = true ->
    0 < total_w es ->
    modularity_abs teqb directed nodes es gamma comms ==
    qsum (map (fun c =>
                 if directed
                 then L_of teqb es c / total_w es
                      - gamma * (Kout_of teqb es c * Kin_of teqb es c) / (total_w es * total_w es)
                 else L_of teqb es c / total_w es
                      - gamma * ((K_of teqb es c / (2 * total_w es)) * (K_of teqb es c / (2 * total_w es))))
              comms).
  Proof. exact (modularity_abs_of_partition teqb teqb_spec). Qed.

  (* anything that is not a partition is rejected *)
  Theorem C12_not_partition_rejected : forall nodes comms,
    NoDup nodes -> Forall (@NoDup T) comms ->
    ~ is_partition_spec nodes comms -> is_partition_model teqb nodes comms = false.
  Proof. exact (not_partition_rejected teqb teqb_spec). Qed.
End C12.

(* The state-level transcription of is_partition (the one compared with the implementation: it
   reads nodes_map / nodes_map_rev through get_node) computes the list-level test, and hence decides
   the definition, on every state whose node indexes are coherent with its node list; coherence is
   evaluated by [nodes_coherentb] on every generated case (observation 210). *)
Theorem C12_is_partition_state :
  forall (T A : Type) (teqb : T -> T -> bool), (forall x y, teqb x y = true <-> x = y) ->
  forall (g : gstate T A) (comms : list (list T)),
    nodes_coherent teqb g -> NoDup (names_of g) -> Forall (@NoDup T) comms ->
    (is_partition teqb g comms = Ok true <-> is_partition_spec (names_of g) comms).
Proof. exact (@is_partition_state_correct). Qed.

Theorem C12_nodes_coherentb_sound :
  forall (T A : Type) (teqb : T -> T -> bool), (forall x y, teqb x y = true <-> x = y) ->
  forall g : gstate T A, nodes_coherentb teqb g = true -> nodes_coherent teqb g.
Proof. exact (@nodes_coherentb_sound). Qed.

(* ... with NotAPartition, by the state-level transcription of modularity() *)
Theorem C12_rejects : forall (T A : Type) (teqb tltb : T -> T -> bool) (g : gstate T A) comms weighted r,
  is_partition teqb g comms = Ok false ->
  modularity teqb tltb g comms weighted r = Err NotAPartition.
Proof. exact modularity_rejects. Qed.
