(* Property C12 — Modularity equals Newman's formula and only true partitions are accepted.
   This file contains only the pinned statements; proofs live in Proofs/PartitionOk.v.  The
   statements are repeated in coq/pins/C12.v and re-checked on every run.

   Objects: [is_partition_model] / [modularity_abs] (Spec/PartitionDef.v) are the computations of
   partitions.rs (after the repair of F8) written on a node list and an edge multiset;
   [is_partition] / [modularity] (Model/Partition.v) are the transcription over the twelve-field
   state that the correspondence check compares with the implementation.  Round 2: the two layers
   are proved equal on every state satisfying the coherence invariant WF, hence on every state
   reachable through the public mutation API (C12_*_reachable below: the end-to-end statements over
   get_all_node_names / get_all_edges); the per-case evaluation of the same link (observation kind
   210) is kept as a tie between model and code. *)
From Coq Require Import List Bool ZArith QArith.
From GV Require Import Base.Outcome Base.AMap Model.GState Model.Query Model.Partition Spec.History
     Spec.PartitionDef Proofs.WFDefs Proofs.HistoryOk Proofs.PartitionOk Proofs.PartitionStateOk
     Proofs.ModularityStateOk.
Import ListNotations.

Section C12.
  Context {T : Type}.
  Variable teqb : T -> T -> bool.
  Hypothesis teqb_spec : forall x y, teqb x y = true <-> x = y.

  (* is_partition is true iff the communities are pairwise disjoint, contain only nodes of the
     graph and together contain every node (communities are sets: duplicate-free lists) *)
  Theorem C12_is_partition : forall nodes comms,
    NoDup nodes -> Forall (@NoDup T) comms ->
    (is_partition_model teqb nodes comms = true <->
     (pairwise_disjoint comms /\
      (forall c x, In c comms -> In x c -> In x nodes) /\
      (forall x, In x nodes -> exists c, In c comms /\ In x c))).
  Proof. exact (is_partition_model_correct teqb teqb_spec). Qed.

  (* the value computed from per-node degrees, the induced subgraph and its size equals Newman's
     formula  sum_c L_c/m - gamma Kout_c Kin_c / m^2  (undirected: L_c/m - gamma (K_c/2m)^2)  with
     L_c, Kout_c, Kin_c, K_c, m defined directly on the edge multiset: parallel edges are separate
     entries, a self-loop is one entry (once in L_c) with both ends counted in K_c *)
  Theorem C12_modularity : forall directed nodes (es : list (T * T * Q)) gamma comms,
    NoDup nodes ->
    (forall e, In e es -> In (wu e) nodes /\ In (wv e) nodes) ->
    Forall (@NoDup T) comms ->
    modularity_abs teqb directed nodes es gamma comms == newman teqb directed es gamma comms.
  Proof. exact (modularity_abs_newman teqb teqb_spec). Qed.

  (* the same in the property's own words: a true partition, at least one unit of edge weight *)
  Theorem C12_modularity_of_partition : forall directed nodes (es : list (T * T * Q)) gamma comms,
    NoDup nodes ->
    (forall e, In e es -> In (wu e) nodes /\ In (wv e) nodes) ->
    Forall (@NoDup T) comms ->
    is_partition_model teqb nodes comms = true ->
    0 < total_w es ->
    modularity_abs teqb directed nodes es gamma comms ==
    qsum (map (fun c =>
                 if directed
                 then L_of teqb es c / total_w es
                      - gamma * (Kout_of teqb es c * Kin_of teqb es c) / (total_w es * total_w es)
                 else L_of teqb es c / total_w es
                      - gamma * ((K_of teqb es c / (2 * total_w es)) * (K_of teqb es c / (2 * total_w es))))
              comms).
  Proof. exact (modularity_abs_of_partition teqb teqb_spec). Qed.

  (* anything that is not a partition is rejected *)
  Theorem C12_not_partition_rejected : forall nodes comms,
    NoDup nodes -> Forall (@NoDup T) comms ->
    ~ is_partition_spec nodes comms -> is_partition_model teqb nodes comms = false.
  Proof. exact (not_partition_rejected teqb teqb_spec). Qed.
End C12.

(* The state-level transcription of is_partition (the one compared with the implementation: it
   reads nodes_map / nodes_map_rev through get_node) computes the list-level test, and hence decides
   the definition, on every state whose node indexes are coherent with its node list; coherence is
   evaluated by [nodes_coherentb] on every generated case (observation 210). *)
Theorem C12_is_partition_state :
  forall (T A : Type) (teqb : T -> T -> bool), (forall x y, teqb x y = true <-> x = y) ->
  forall (g : gstate T A) (comms : list (list T)),
    nodes_coherent teqb g -> NoDup (names_of g) -> Forall (@NoDup T) comms ->
    (is_partition teqb g comms = Ok true <-> is_partition_spec (names_of g) comms).
Proof. exact (@is_partition_state_correct). Qed.

Theorem C12_nodes_coherentb_sound :
  forall (T A : Type) (teqb : T -> T -> bool), (forall x y, teqb x y = true <-> x = y) ->
  forall g : gstate T A, nodes_coherentb teqb g = true -> nodes_coherent teqb g.
Proof. exact (@nodes_coherentb_sound). Qed.

(* ... with NotAPartition, by the state-level transcription of modularity() *)
Theorem C12_rejects : forall (T A : Type) (teqb tltb : T -> T -> bool) (g : gstate T A) comms weighted r,
  is_partition teqb g comms = Ok false ->
  modularity teqb tltb g comms weighted r = Err NotAPartition.
Proof. exact modularity_rejects. Qed.

(* ---------------------------------------------------------------------------------------------
   Round 2: end-to-end statements on the twelve-field state, for every state reachable by any
   history of add_node / add_nodes / add_edge / add_edges from the empty graph (hence also every
   graph built by new_from_nodes_and_edges and every derived graph), arbitrary name type.
   --------------------------------------------------------------------------------------------- *)
Section C12_state.
  Context {T A : Type}.
  Variable teqb : T -> T -> bool.
  Variable tltb : T -> T -> bool.
  Hypothesis teqb_spec : forall x y, teqb x y = true <-> x = y.
  Hypothesis tltb_asym : forall x y, tltb x y = true -> tltb y x = false.
  Hypothesis tltb_total : forall x y, tltb x y = false -> tltb y x = false -> x = y.

  (* the coherence hypothesis of C12_is_partition_state is a consequence of the invariant *)
  Theorem C12_WF_nodes_coherent : forall g : gstate T A, WF teqb tltb g -> nodes_coherent teqb g.
  Proof. exact (WF_nodes_coherent teqb tltb teqb_spec). Qed.

  (* is_partition over nodes_map / nodes_map_rev returns Ok b, and b = true exactly for the
     partitions of the graph's node names *)
  Theorem C12_is_partition_reachable : forall s (g : gstate T A) comms,
    reachable teqb tltb s g -> Forall (@NoDup T) comms ->
    exists b, is_partition teqb g comms = Ok b /\
              (b = true <-> is_partition_spec (get_all_node_names g) comms).
  Proof.
    intros s g comms Hr Hc. pose proof (WF_reachable teqb tltb teqb_spec tltb_asym tltb_total s g Hr) as W.
    exists (is_partition_model teqb (get_all_node_names g) comms). split.
    - exact (is_partition_WF teqb tltb teqb_spec g comms W).
    - exact (is_partition_model_correct teqb teqb_spec _ _ (wf_nodup _ _ _ W) Hc).
  Qed.

  (* the twelve-field computation (degree maps, get_subgraph, size) equals the list-level
     computation over the node names and the stored edge list *)
  Theorem C12_modularity_state_abs : forall (g : gstate T A) comms weighted gamma es,
    WF teqb tltb g -> wedges_of weighted (get_all_edges g) = Some es ->
    is_partition_model teqb (get_all_node_names g) comms = true -> ~ total_w es == 0 ->
    exists q, modularity teqb tltb g comms weighted gamma = Ok (Some q) /\
              q == modularity_abs teqb (directed (sp g)) (get_all_node_names g) es gamma comms.
  Proof. exact (modularity_WF_abs teqb tltb teqb_spec tltb_total). Qed.

  (* modularity() of a reachable graph: Newman's formula over get_all_edges for every partition
     (real weights when weighted, non-zero total weight) ... *)
  Theorem C12_modularity_reachable : forall s (g : gstate T A) comms weighted gamma es,
    reachable teqb tltb s g -> Forall (@NoDup T) comms ->
    wedges_of weighted (get_all_edges g) = Some es ->
    is_partition_spec (get_all_node_names g) comms -> ~ total_w es == 0 ->
    exists q, modularity teqb tltb g comms weighted gamma = Ok (Some q) /\
              q == newman teqb (directed s) es gamma comms.
  Proof.
    intros s g comms weighted gamma es Hr.
    rewrite <- (reachable_sp teqb tltb teqb_spec tltb_asym tltb_total s g Hr).
    apply (modularity_WF_newman teqb tltb teqb_spec tltb_total).
    exact (WF_reachable teqb tltb teqb_spec tltb_asym tltb_total s g Hr).
  Qed.

  (* ... and an error exactly when the family is not a partition, the error being NotAPartition
     (whatever the weights) *)
  Theorem C12_not_partition_iff_reachable : forall s (g : gstate T A) comms weighted gamma k,
    reachable teqb tltb s g -> Forall (@NoDup T) comms ->
    (modularity teqb tltb g comms weighted gamma = Err k <->
     k = NotAPartition /\ ~ is_partition_spec (get_all_node_names g) comms).
  Proof.
    intros s g comms weighted gamma k Hr.
    apply (modularity_WF_err_iff teqb tltb teqb_spec tltb_total).
    exact (WF_reachable teqb tltb teqb_spec tltb_asym tltb_total s g Hr).
  Qed.

  (* the degenerate values of a partition, as the implementation's binary64 arithmetic yields them
     (None = NaN): total weight 0 with non-negative weights (in particular an edgeless graph, or
     weighted = false on a graph without edges) gives 0/0; an edge without weight under
     weighted = true makes the result NaN; the empty family on the empty graph gives 0.  With
     C12_modularity_reachable this determines modularity() on every reachable graph with
     non-negative weights *)
  Theorem C12_modularity_degenerate_reachable : forall s (g : gstate T A) comms weighted gamma,
    reachable teqb tltb s g -> Forall (@NoDup T) comms ->
    is_partition_spec (get_all_node_names g) comms ->
    (forall es, wedges_of weighted (get_all_edges g) = Some es ->
                (forall e, In e es -> 0 <= ww e) -> total_w es == 0 ->
                modularity teqb tltb g comms weighted gamma =
                Ok (match comms with [] => Some 0 | _ => None end)) /\
    (weighted = true -> (exists e, In e (get_all_edges g) /\ ew e = None) ->
     modularity teqb tltb g comms weighted gamma = Ok None).
  Proof.
    intros s g comms weighted gamma Hr Hc Hp.
    pose proof (WF_reachable teqb tltb teqb_spec tltb_asym tltb_total s g Hr) as W.
    apply (is_partition_model_correct teqb teqb_spec _ _ (wf_nodup _ _ _ W) Hc) in Hp.
    split.
    - intros es Hes Hpos Hz.
      exact (modularity_WF_zero teqb tltb teqb_spec tltb_total g comms weighted gamma es W Hes Hp Hpos Hz).
    - intros -> He. exact (modularity_WF_nan teqb tltb teqb_spec tltb_total g comms gamma W Hp He).
  Qed.
End C12_state.
