(* Property C13 — Louvain terminates with nested partitions of non-decreasing modularity.
   This file contains only the pinned statements; proofs live in Proofs/PartitionOk.v and
   Proofs/LouvainOk.v.  The statements are repeated in coq/pins/C13.v and re-checked on every run.

   Route: a VERIFIED CHECKER.  [check_levels] is executable; C13_check_levels_sound proves that a
   positive verdict implies the Prop-level statement (non-empty list of levels, each a partition of
   the node set into non-empty communities, each level a coarsening of the one before).  The check
   evaluates it on the output of the Louvain model (Model/Louvain.v, the transcription of louvain.rs
   after the repairs F16/F17) for every generated case, together with the exact modularity of every
   level via [modularity_abs] (C12_modularity); the property oracle evaluates the same statement on
   the implementation's output.  Termination of the sweep loop is not proved (the model carries
   explicit fuel; OutOfFuel / a 2 s watchdog are reported as "does not return").
   Full statement kept visible (not proved for the model, validated per case):
     forall g weighted res thr perms, edges g <> [] ->
       exists levels, louvain_partitions g weighted res thr perms = Ok levels /\
                      levels_ok (names g) levels /\ modularity non-decreasing along levels. *)
From Coq Require Import List Bool ZArith QArith.
From GV Require Import Base.Outcome Base.AMap Model.GState Model.Louvain Spec.PartitionDef
     Proofs.PartitionOk Proofs.LouvainOk Proofs.MoveGainOk Proofs.AggregationOk.
Import ListNotations.

Section C13.
  Context {T : Type}.
  Variable teqb : T -> T -> bool.
  Hypothesis teqb_spec : forall x y, teqb x y = true <-> x = y.

  Theorem C13_check_levels_sound : forall nodes (levels : list (list (list T))),
    check_levels teqb nodes levels = true ->
    levels <> [] /\
    Forall (fun l => is_partition_spec nodes l /\ Forall (fun c => c <> []) l) levels /\
    chain (fun prev next =>
             forall c, In c next -> exists ds, incl ds prev /\ (forall x, In x c <-> In x (concat ds)))
          levels.
  Proof. exact (check_levels_sound teqb teqb_spec). Qed.

  (* Move gain on the edge multiset, undirected: u leaves u::D for C.  gain_u is the number the
     code compares: 2 * (weight between u and X) - gamma * K_X * k_u / m. *)
  Theorem C13_move_gain_newman : forall (es : list (T * T * Q)) gamma u C D rest,
    ~ In u C -> ~ In u D -> ~ total_w es == 0 ->
    newman teqb false es gamma (D :: (u :: C) :: rest) - newman teqb false es gamma ((u :: D) :: C :: rest)
    == (gain_u teqb es gamma u C - gain_u teqb es gamma u D) / (2 * total_w es).
  Proof. exact (move_gain_newman teqb teqb_spec). Qed.

  Theorem C13_accepted_move_increases_Q : forall (es : list (T * T * Q)) gamma u C D rest,
    ~ In u C -> ~ In u D -> 0 < total_w es ->
    gain_u teqb es gamma u D < gain_u teqb es gamma u C ->
    newman teqb false es gamma ((u :: D) :: C :: rest) < newman teqb false es gamma (D :: (u :: C) :: rest).
  Proof. exact (accepted_move_increases_Q teqb teqb_spec). Qed.

  (* directed, with the repaired gain (edges between u and X in both directions) *)
  Theorem C13_move_gain_newman_directed : forall (es : list (T * T * Q)) gamma u C D rest,
    ~ In u C -> ~ In u D -> ~ total_w es == 0 ->
    newman teqb true es gamma (D :: (u :: C) :: rest) - newman teqb true es gamma ((u :: D) :: C :: rest)
    == (gain_d teqb es gamma u C - gain_d teqb es gamma u D) / total_w es.
  Proof. exact (move_gain_newman_directed teqb teqb_spec). Qed.

  Theorem C13_accepted_move_increases_Q_directed : forall (es : list (T * T * Q)) gamma u C D rest,
    ~ In u C -> ~ In u D -> 0 < total_w es ->
    gain_d teqb es gamma u D < gain_d teqb es gamma u C ->
    newman teqb true es gamma ((u :: D) :: C :: rest) < newman teqb true es gamma (D :: (u :: C) :: rest).
  Proof. exact (accepted_move_increases_Q_directed teqb teqb_spec). Qed.

  (* the state-level model's decision: if, when it visits u, its bookkeeping agrees with the edge
     multiset (m, degree, Stot of the two communities, candidate weights = [between]; invariants
     L1-L3, evaluated on every generated case as observation 77), then a move it decides strictly
     increases Newman's modularity *)
  Theorem C13_model_move_increases_Q :
    forall (es : list (T * T * Q)) gamma (u : T) C D rest di m own bc w2c tie sC sD,
      NoDup (map fst w2c) ->
      update_best_com own w2c di m gamma false = Ok (bc, tie) -> bc <> own ->
      ~ In u C -> ~ In u D -> 0 < total_w es ->
      m == total_w es -> degree di == K_of teqb es [u] ->
      nth_error (stot di) bc = Some sC -> sC == K_of teqb es C ->
      nth_error (stot di) own = Some sD -> sD == K_of teqb es D ->
      (forall w, In (bc, w) w2c -> w == between teqb es u C) ->
      (forall w, In (own, w) w2c -> w == between teqb es u D) ->
      (~ In own (map fst w2c) -> between teqb es u D == 0) ->
      0 <= gamma * (K_of teqb es D * K_of teqb es [u]) ->
      newman teqb false es gamma ((u :: D) :: C :: rest) < newman teqb false es gamma (D :: (u :: C) :: rest).
  Proof. exact (model_move_increases_Q teqb teqb_spec). Qed.

  (* aggregation: relabel every edge by the communities of its ends, merge parallel edges by summing
     (self-loops included), smaller name first when undirected *)
  Theorem C13_aggregation_preserves_Q :
    forall (com : T -> nat) (nodes : list T) (es : list (T * T * Q)) (dir : bool) (gamma : Q)
           (P' : list (list nat)),
      (forall e, In e es -> In (wu e) nodes /\ In (wv e) nodes) ->
      newman Nat.eqb dir (aggregate dir (map (relabel com) es)) gamma P'
      == newman teqb dir es gamma (map (induced com nodes) P').
  Proof. exact (aggregation_preserves_Q T teqb teqb_spec). Qed.
End C13.

(* the repaired scan rule of update_best_com in the state-level model *)
Theorem C13_move_only_if_strictly_better : forall di m res dir own w2c bc tie,
  NoDup (map fst w2c) ->
  update_best_com own w2c di m res dir = Ok (bc, tie) -> bc <> own ->
  exists wt g, In (bc, wt) w2c /\ gain_of di m res dir bc wt = Ok (Some g) /\ 0 < g /\
    (forall c w gc, In (c, w) w2c -> gain_of di m res dir c w = Ok (Some gc) -> gc <= g) /\
    (forall wo go, In (own, wo) w2c -> gain_of di m res dir own wo = Ok (Some go) -> go < g).
Proof. exact move_only_if_strictly_better. Qed.

(* termination argument: a strictly increasing chain of values over a finite universe *)
Theorem C13_strict_chain_bounded : forall (X : Type) (f : X -> Q) (universe chain : list X),
  incl chain universe -> strictly_increasing (map f chain) -> (length chain <= length universe)%nat.
Proof. exact (@strict_chain_bounded). Qed.

(* louvain_communities returns the last level of louvain_partitions *)
Theorem C13_communities_is_last :
  forall (T A : Type) (teqb tltb : T -> T -> bool) lf sf (g : gstate T A) weighted res thr perms ls,
    louvain_partitions teqb tltb lf sf g weighted res thr perms = Ok ls ->
    louvain_communities teqb tltb lf sf g weighted res thr perms =
    match ls with [] => Err NoPartitions | _ => Ok (last ls []) end.
Proof. exact louvain_communities_is_last. Qed.

(* Move-gain algebra (DESIGN F.4).  Undirected: C is the target community, D the source without
   u; L, K their internal weights and degree sums, k the degree of u, kuC / kuD the weight between
   u and C / D, s the weight of u's self-loops.  Moving u from D to C changes the sum of the two
   Newman terms by (gain C - gain D) / 2m, where gain X = 2 k_uX - gamma Stot_X k / m is the number
   the code compares (Stot_D after u's degree has been subtracted).  With the repaired scan order a
   move happens only when gain C > gain D, so every accepted move strictly increases modularity. *)
Theorem C13_move_gain : forall LC LD KC KD k kuC kuD s m gamma : Q,
  ~ m == 0 ->
  let contrib := fun L K => L / m - gamma * ((K / (2 * m)) * (K / (2 * m))) in
  let gain := fun kuX stotX => 2 * kuX - gamma * (stotX * k) / m in
  (contrib (LC + kuC + s) (KC + k) + contrib LD KD)
  - (contrib LC KC + contrib (LD + kuD + s) (KD + k))
  == (gain kuC KC - gain kuD KD) / (2 * m).
Proof. exact move_gain_undirected. Qed.

(* Directed (what the repair of F16 supplies): wuX = k(u->X) + k(X->u). *)
Theorem C13_move_gain_directed : forall LC LD KoC KiC KoD KiD kout kin wuC wuD s m gamma : Q,
  ~ m == 0 ->
  let contrib := fun L Ko Ki => L / m - gamma * (Ko * Ki) / (m * m) in
  let gain := fun wuX stot_inX stot_outX => wuX - gamma * (kout * stot_inX + kin * stot_outX) / m in
  (contrib (LC + wuC + s) (KoC + kout) (KiC + kin) + contrib LD KoD KiD)
  - (contrib LC KoC KiC + contrib (LD + wuD + s) (KoD + kout) (KiD + kin))
  == (gain wuC KiC KoC - gain wuD KiD KoD) / m.
Proof. exact move_gain_directed. Qed.
