(* Property C13 — Louvain terminates with nested partitions of non-decreasing modularity.
   This file contains only the pinned statements; proofs live in Proofs/PartitionOk.v,
   Proofs/LouvainOk.v, MoveGainOk.v, AggregationOk.v and (round 2) Proofs/Louvain*Ok.v.  The
   statements are repeated in coq/pins/C13.v and re-checked on every run.

   Round 1 route: a VERIFIED CHECKER.  [check_levels] is executable; C13_check_levels_sound proves that a
   positive verdict implies the Prop-level statement (non-empty list of levels, each a partition of
   the node set into non-empty communities, each level a coarsening of the one before).  The check
   evaluates it on the output of the Louvain model (Model/Louvain.v, the transcription of louvain.rs
   after the repairs F16/F17) for every generated case, together with the exact modularity of every
   level via [modularity_abs] (C12_modularity); the property oracle evaluates the same statement on
   the implementation's output.  (In round 1 termination of the sweep loop was not proved.)
   Round 2 (deepening): the bookkeeping invariants L1-L3 of the state-level model are PROVED
   (second half of this file), and with them, for the model itself and every input:
     - C13_levels_partition_nested: whenever louvain_partitions returns, its levels satisfy
       levels_ok (non-empty list; every level a partition of the input node set into non-empty sets;
       every level coarsens the previous one) - no checker run needed;
     - C13_bookkeeping / C13_neighbor_weights_between / C13_visit: L1-L3 hold along the local-moving
       phase, the candidate weights are those of the edge multiset, every visit returns, every
       accepted move strictly increases the modularity of the level graph (both graph kinds, every
       visiting order);
     - C13_local_moving_terminates / C13_never_out_of_fuel: the sweep loop stops within n^n sweeps;
       with level fuel > N and sweep fuel >= N^N the model never returns OutOfFuel (the executable
       instance runs with 40 / 300, which this bound covers for N <= 4 only; beyond that OutOfFuel
       stays a reported per-case outcome);
     - C13_levels_monotone: on every single-edge input graph, Newman's modularity OF THE INPUT
       GRAPH (its own names and weighted edge list) never decreases from level to level of the
       returned list, and the first level is at least as good as the all-singletons partition;
       C13_levels_monotone_partial: the same on the first working graph for every input
       (multigraphs included).  It is SUPERSEDED (deep16, last part of this file) by
     - C13_levels_monotone_all_inputs: for EVERY coherent input graph, multigraphs included, the
       statement of C13_levels_monotone holds on the INPUT graph.  The missing piece was the
       transport of Newman's formula through to_single_edges: C13_newman_collapse(_graph) -
       Newman's formula is invariant under collapsing parallel edges into one edge with the sum
       of their weights (every family of communities, every resolution, both graph kinds,
       self-loops included; C13_collapse_regroups is the regrouping lemma behind it,
       C13_collapse_keys_distinct / C13_collapse_weight say that the list-level [collapse] is the
       collapse) - and C13_to_single_edges_newman: the graph built by to_single_edges (exact
       content: C15_to_single_edges_content) has the modularity of the input multigraph and of
       the list-level collapse of its edge list.  What is measured: with weighted = true the
       multigraph's own weighted edge list, parallel edges counted individually, as C12 defines
       modularity (C13_levels_monotone_weighted_all_inputs); with weighted = false a multigraph is
       measured on its SUPPORT (one unit edge per adjacent pair:
       C13_levels_monotone_unweighted_all_inputs), because convert_graph collapses first and
       overwrites the weights with 1 afterwards - k parallel edges count once.  For the
       modularity that counts every parallel edge the unweighted multigraph statement is FALSE:
       C13_unweighted_multigraph_counterexample (evaluated: edges 1-2, 3-4 once, 2-3, 1-4 four
       times; the returned level {1,2} {3,4} has modularity -3/10, the singletons -1/4) and
       C13_levels_monotone_by_multiplicity_refuted.
   Domain of the numeric theorems: resolution >= 0 and, when weighted = true, non-negative real
   weights (with negative weights a non-candidate own community may be worth more than the
   model's implicit 0, and the potential argument fails). *)
From Coq Require Import List Bool ZArith QArith.
From GV Require Import Base.Outcome Base.AMap Model.GState Model.Query Model.Louvain Spec.PartitionDef
     Proofs.PartitionOk Proofs.LouvainOk Proofs.MoveGainOk Proofs.AggregationOk.
From GV Require Import Proofs.WFDefs Proofs.LouvainStructOk Proofs.LouvainNumOk Proofs.LouvainTermOk
     Proofs.LouvainLevelOk Proofs.LouvainGenGraphOk Proofs.LouvainConvertOk Proofs.LouvainAggOk
     Proofs.LouvainLevelsOk Proofs.LouvainModelOk Proofs.LouvainTransportOk.
From GV Require Import Model.Derived Proofs.NewmanCollapse.
Import ListNotations.
Open Scope Q_scope.

Section C13.
  Context {T : Type}.
  Variable teqb : T -> T -> bool.
  Hypothesis teqb_spec : forall x y, teqb x y = true <-> x = y.

  Theorem C13_check_levels_sound : forall nodes (levels : list (list (list T))),
    check_levels teqb nodes levels = true ->
    levels <> [] /\
    Forall (fun l => is_partition_spec nodes l /\ Forall (fun c => c <> []) l) levels /\
    chain (fun prev next =>
             forall c, In c next -> exists ds, incl ds prev /\ (forall x, In x c <-> In x (concat ds)))
          levels.
  Proof. exact (check_levels_sound teqb teqb_spec). Qed.

  (* Move gain on the edge multiset, undirected: u leaves u::D for C.  gain_u is the number the
     code compares: 2 * (weight between u and X) - gamma * K_X * k_u / m. *)
  Theorem C13_move_gain_newman : forall (es : list (T * T * Q)) gamma u C D rest,
    ~ In u C -> ~ In u D -> ~ total_w es == 0 ->
    newman teqb false es gamma (D :: (u :: C) :: rest) - newman teqb false es gamma ((u :: D) :: C :: rest)
    == (gain_u teqb es gamma u C - gain_u teqb es gamma u D) / (2 * total_w es).
  Proof. exact (move_gain_newman teqb teqb_spec). Qed.

  Theorem C13_accepted_move_increases_Q : forall (es : list (T * T * Q)) gamma u C D rest,
    ~ In u C -> ~ In u D -> 0 < total_w es ->
    gain_u teqb es gamma u D < gain_u teqb es gamma u C ->
    newman teqb false es gamma ((u :: D) :: C :: rest) < newman teqb false es gamma (D :: (u :: C) :: rest).
  Proof. exact (accepted_move_increases_Q teqb teqb_spec). Qed.

  (* directed, with the repaired gain (edges between u and X in both directions) *)
  Theorem C13_move_gain_newman_directed : forall (es : list (T * T * Q)) gamma u C D rest,
    ~ In u C -> ~ In u D -> ~ total_w es == 0 ->
    newman teqb true es gamma (D :: (u :: C) :: rest) - newman teqb true es gamma ((u :: D) :: C :: rest)
    == (gain_d teqb es gamma u C - gain_d teqb es gamma u D) / total_w es.
  Proof. exact (move_gain_newman_directed teqb teqb_spec). Qed.

  Theorem C13_accepted_move_increases_Q_directed : forall (es : list (T * T * Q)) gamma u C D rest,
    ~ In u C -> ~ In u D -> 0 < total_w es ->
    gain_d teqb es gamma u D < gain_d teqb es gamma u C ->
    newman teqb true es gamma ((u :: D) :: C :: rest) < newman teqb true es gamma (D :: (u :: C) :: rest).
  Proof. exact (accepted_move_increases_Q_directed teqb teqb_spec). Qed.

  (* the state-level model's decision: if, when it visits u, its bookkeeping agrees with the edge
     multiset (m, degree, Stot of the two communities, candidate weights = [between]; invariants
     L1-L3, evaluated on every generated case as observation 77), then a move it decides strictly
     increases Newman's modularity *)
  Theorem C13_model_move_increases_Q :
    forall (es : list (T * T * Q)) gamma (u : T) C D rest di m own bc w2c tie sC sD,
      NoDup (map fst w2c) ->
      update_best_com own w2c di m gamma false = Ok (bc, tie) -> bc <> own ->
      ~ In u C -> ~ In u D -> 0 < total_w es ->
      m == total_w es -> degree di == K_of teqb es [u] ->
      nth_error (stot di) bc = Some sC -> sC == K_of teqb es C ->
      nth_error (stot di) own = Some sD -> sD == K_of teqb es D ->
      (forall w, In (bc, w) w2c -> w == between teqb es u C) ->
      (forall w, In (own, w) w2c -> w == between teqb es u D) ->
      (~ In own (map fst w2c) -> between teqb es u D == 0) ->
      0 <= gamma * (K_of teqb es D * K_of teqb es [u]) ->
      newman teqb false es gamma ((u :: D) :: C :: rest) < newman teqb false es gamma (D :: (u :: C) :: rest).
  Proof. exact (model_move_increases_Q teqb teqb_spec). Qed.

  (* aggregation: relabel every edge by the communities of its ends, merge parallel edges by summing
     (self-loops included), smaller name first when undirected *)
  Theorem C13_aggregation_preserves_Q :
    forall (com : T -> nat) (nodes : list T) (es : list (T * T * Q)) (dir : bool) (gamma : Q)
           (P' : list (list nat)),
      (forall e, In e es -> In (wu e) nodes /\ In (wv e) nodes) ->
      newman Nat.eqb dir (aggregate dir (map (relabel com) es)) gamma P'
      == newman teqb dir es gamma (map (induced com nodes) P').
  Proof. exact (aggregation_preserves_Q T teqb teqb_spec). Qed.
End C13.

(* the repaired scan rule of update_best_com in the state-level model *)
Theorem C13_move_only_if_strictly_better : forall di m res dir own w2c bc tie,
  NoDup (map fst w2c) ->
  update_best_com own w2c di m res dir = Ok (bc, tie) -> bc <> own ->
  exists wt g, In (bc, wt) w2c /\ gain_of di m res dir bc wt = Ok (Some g) /\ 0 < g /\
    (forall c w gc, In (c, w) w2c -> gain_of di m res dir c w = Ok (Some gc) -> gc <= g) /\
    (forall wo go, In (own, wo) w2c -> gain_of di m res dir own wo = Ok (Some go) -> go < g).
Proof. exact move_only_if_strictly_better. Qed.

(* termination argument: a strictly increasing chain of values over a finite universe *)
Theorem C13_strict_chain_bounded : forall (X : Type) (f : X -> Q) (universe chain : list X),
  incl chain universe -> strictly_increasing (map f chain) -> (length chain <= length universe)%nat.
Proof. exact (@strict_chain_bounded). Qed.

(* louvain_communities returns the last level of louvain_partitions *)
Theorem C13_communities_is_last :
  forall (T A : Type) (teqb tltb : T -> T -> bool) lf sf (g : gstate T A) weighted res thr perms ls,
    louvain_partitions teqb tltb lf sf g weighted res thr perms = Ok ls ->
    louvain_communities teqb tltb lf sf g weighted res thr perms =
    match ls with [] => Err NoPartitions | _ => Ok (last ls []) end.
Proof. exact louvain_communities_is_last. Qed.

(* Move-gain algebra (DESIGN F.4).  Undirected: C is the target community, D the source without
   u; L, K their internal weights and degree sums, k the degree of u, kuC / kuD the weight between
   u and C / D, s the weight of u's self-loops.  Moving u from D to C changes the sum of the two
   Newman terms by (gain C - gain D) / 2m, where gain X = 2 k_uX - gamma Stot_X k / m is the number
   the code compares (Stot_D after u's degree has been subtracted).  With the repaired scan order a
   move happens only when gain C > gain D, so every accepted move strictly increases modularity. *)
Theorem C13_move_gain : forall LC LD KC KD k kuC kuD s m gamma : Q,
  ~ m == 0 ->
  let contrib := fun L K => L / m - gamma * ((K / (2 * m)) * (K / (2 * m))) in
  let gain := fun kuX stotX => 2 * kuX - gamma * (stotX * k) / m in
  (contrib (LC + kuC + s) (KC + k) + contrib LD KD)
  - (contrib LC KC + contrib (LD + kuD + s) (KD + k))
  == (gain kuC KC - gain kuD KD) / (2 * m).
Proof. exact move_gain_undirected. Qed.

(* Directed (what the repair of F16 supplies): wuX = k(u->X) + k(X->u). *)
Theorem C13_move_gain_directed : forall LC LD KoC KiC KoD KiD kout kin wuC wuD s m gamma : Q,
  ~ m == 0 ->
  let contrib := fun L Ko Ki => L / m - gamma * (Ko * Ki) / (m * m) in
  let gain := fun wuX stot_inX stot_outX => wuX - gamma * (kout * stot_inX + kin * stot_outX) / m in
  (contrib (LC + wuC + s) (KoC + kout) (KiC + kin) + contrib LD KoD KiD)
  - (contrib LC KoC KiC + contrib (LD + wuD + s) (KoD + kout) (KiD + kin))
  == (gain wuC KiC KoC - gain wuD KiD KoD) / m.
Proof. exact move_gain_directed. Qed.

(* ====================================================================================== *)
(* Round 2: the bookkeeping invariants of the state-level model, and what follows from them *)
(* ====================================================================================== *)

(* A level graph: a coherent (WF) single-edge working graph with node names 0..n-1, non-negative
   real weights and pairwise disjoint attribute sets.  C13_first_graph_is_level_graph /
   C13_generate_graph_nodes / C13_generate_graph_aggregates show that every working graph of
   louvain_partitions is one. *)

(* L1 (node2com u = c <-> u in inner_partition[c]), L2 (_partition[c] = union of the attribute sets
   of the members of inner_partition[c]) and L3 (Stot / Stot_in / Stot_out = the degree sums of the
   members on the edge multiset) at the end of the local-moving phase, for every fuel, shuffle
   table, resolution >= 0 and m >= 0 *)
Theorem C13_bookkeeping : forall (g : lgraph) n, LevelGraph g n -> forall m res, 0 <= m -> 0 <= res ->
  forall fuel partition perms s,
    length partition = n ->
    (forall c p, nth_error partition c = Some p -> NoDup p /\ forall x, In x p <-> In x (attr_of g c)) ->
    compute_one_level_state fuel g m partition res perms = Ok s ->
    (forall u c, lookup Nat.eqb u (ls_node2com s) = Some c <->
                 exists l, nth_error (ls_inner s) c = Some l /\ In u l) /\
    (length (ls_partition s) = length (ls_inner s) /\
     forall c l p, nth_error (ls_inner s) c = Some l -> nth_error (ls_partition s) c = Some p ->
       NoDup p /\ forall x, In x p <-> exists u, In u l /\ In x (attr_of g u)) /\
    (if directed (sp g)
     then Forall2 (fun st l => st == Kin_of Nat.eqb (wedges g) l) (stot_in (ls_deg s)) (ls_inner s) /\
          Forall2 (fun st l => st == Kout_of Nat.eqb (wedges g) l) (stot_out (ls_deg s)) (ls_inner s)
     else Forall2 (fun st l => st == K_of Nat.eqb (wedges g) l) (stot (ls_deg s)) (ls_inner s)) /\
    (forall u, In u (seq 0 n) <-> lookup Nat.eqb u (ls_node2com s) <> None) /\
    length (ls_inner s) = n.
Proof. exact level_bookkeeping. Qed.

(* the structural invariants alone need nothing of the graph: every visit keeps them, whatever
   community is chosen *)
Theorem C13_visit_keeps_L1_L2 : forall names attr,
  (forall u v x, In u names -> In v names -> In x (attr u) -> In x (attr v) -> u = v) ->
  forall (g : lgraph), (forall u, attr_of g u = attr u) ->
  forall m res nbrs preds s u s',
    visit g m res nbrs preds s u = Ok s' -> SInvS names attr s -> SInvS names attr s'.
Proof. exact visit_SInv. Qed.

(* the weights the model accumulates from u towards its neighbouring communities are the weights
   [between] u and the members (other than u) of each community, on the edge multiset *)
Theorem C13_neighbor_weights_between : forall (g : lgraph) n, LevelGraph g n ->
  forall P I n2c u, SInv (seq 0 n) (attr_of g) P I n2c -> In u (seq 0 n) ->
  exists w0 w2c,
    get_neighbor_weights g u (successors g) n2c = Ok w0 /\
    (if directed (sp g) then add_predecessor_weights g u (predecessors g) n2c w0 else Ok w0) = Ok w2c /\
    NoDup (map fst w2c) /\
    forall c l, nth_error I c = Some l ->
      (match lookup Nat.eqb c w2c with Some x => x | None => 0 end)
      == between Nat.eqb (wedges g) u (set_remove u l).
Proof. exact neighbor_weights_between. Qed.

(* every visit returns (no panic), keeps L1-L3, and an accepted move strictly increases the
   potential Phi_m = sum_c L_c/m - res (K_c/2m)^2 (directed: - res Kout_c Kin_c / m^2) *)
Theorem C13_visit : forall (g : lgraph) n, LevelGraph g n -> forall m res, 0 <= m -> 0 <= res ->
  forall s u, In u (seq 0 n) -> SInvS (seq 0 n) (attr_of g) s -> NInv g n (ls_inner s) (ls_deg s) ->
  exists s', visit g m res (successors g) (predecessors g) s u = Ok s' /\
    SInvS (seq 0 n) (attr_of g) s' /\ NInv g n (ls_inner s') (ls_deg s') /\
    ((ls_moves s' = ls_moves s /\ ls_inner s' = ls_inner s /\ ls_node2com s' = ls_node2com s) \/
     (ls_moves s' = S (ls_moves s) /\
      Phi g m res (directed (sp g)) (ls_inner s) < Phi g m res (directed (sp g)) (ls_inner s'))).
Proof. exact level_visit. Qed.

(* ... which is Newman's modularity of the level graph when m is its total edge weight: EVERY
   accepted move strictly increases modularity, undirected and directed, for every visiting order *)
Theorem C13_accepted_move_increases_modularity : forall (g : lgraph) n,
  LevelGraph g n -> forall m res, 0 <= m -> 0 <= res -> forall s u, m == total_w (wedges g) ->
  In u (seq 0 n) -> SInvS (seq 0 n) (attr_of g) s -> NInv g n (ls_inner s) (ls_deg s) ->
  exists s', visit g m res (successors g) (predecessors g) s u = Ok s' /\
    (ls_inner s' = ls_inner s \/
     newman Nat.eqb (directed (sp g)) (wedges g) res (ls_inner s)
     < newman Nat.eqb (directed (sp g)) (wedges g) res (ls_inner s')).
Proof. exact level_visit_newman. Qed.

(* the repeat-until-no-move loop: with fuel >= n^n (the number of maps from the n nodes to the n
   community slots; consecutive sweeps visit pairwise different ones - C13_strict_chain_bounded)
   the phase returns Ok, and its result is at least as good as the singletons *)
Theorem C13_local_moving_terminates : forall (g : lgraph) n, LevelGraph g n -> forall m res, 0 <= m -> 0 <= res ->
  forall fuel partition perms order,
    length partition = n ->
    (forall c p, nth_error partition c = Some p -> NoDup p /\ forall x, In x p <-> In x (attr_of g c)) ->
    get_shuffled_node_names g perms = Ok order ->
    (n ^ n <= fuel)%nat ->
    exists p2 i2 imp tie,
      compute_one_level fuel g m partition res perms = Ok (p2, i2, imp, tie) /\
      Phi g m res (directed (sp g)) (map (fun k => [k]) (seq 0 n)) <= Phi g m res (directed (sp g)) i2.
Proof. exact level_total. Qed.

Theorem C13_level_ge_singletons : forall (g : lgraph) n, LevelGraph g n -> forall m res, 0 <= m -> 0 <= res ->
  forall fuel partition perms p2 i2 imp tie,
    m == total_w (wedges g) -> length partition = n ->
    (forall c p, nth_error partition c = Some p -> NoDup p /\ forall x, In x p <-> In x (attr_of g c)) ->
    compute_one_level fuel g m partition res perms = Ok (p2, i2, imp, tie) ->
    newman Nat.eqb (directed (sp g)) (wedges g) res (map (fun k => [k]) (seq 0 n))
    <= newman Nat.eqb (directed (sp g)) (wedges g) res i2.
Proof. exact level_result_ge_singletons_newman. Qed.

(* generate_graph: node k of the new graph carries the union of the attribute sets of part k ... *)
Theorem C13_generate_graph_nodes : forall (g : lgraph) (I : list (list nat)) (g2 : lgraph),
  generate_graph g I = Ok g2 ->
  WF Nat.eqb Nat.ltb g2 /\
  gnames g2 = seq 0 (length I) /\
  sp g2 = mkspecs (directed (sp g)) DKeepLast (ms (sp g)) (multi (sp g)) true (slf (sp g)) /\
  forall i l, nth_error I i = Some l ->
    NoDup (attr_of g2 i) /\ forall x, In x (attr_of g2 i) <-> exists u, In u l /\ In x (attr_of g u).
Proof. exact generate_graph_struct. Qed.

(* ... and its edge multiset is the list-level [aggregate] of C13_aggregation_preserves_Q (every
   end-point selection has the same weight): observation 76 as a theorem *)
Theorem C13_generate_graph_aggregates : forall (g : lgraph) I g2 (com : nat -> nat) es es2,
  generate_graph g I = Ok g2 ->
  (forall i l u, nth_error I i = Some l -> In u l -> com u = i) ->
  wedges_of true (get_all_edges g) = Some es ->
  wedges_of true (get_all_edges g2) = Some es2 ->
  forall p, ends_only p ->
    wsel p es2 == wsel p (map (canon_e (negb (directed (sp g)))) (map (relabel com) es)).
Proof. exact generate_graph_aggregates. Qed.

Section C13_entry.
  Context {T A : Type}.
  Variable teqb tltb : T -> T -> bool.
  Hypothesis teqb_spec : forall x y, teqb x y = true <-> x = y.
  Hypothesis tltb_asym : forall x y, tltb x y = true -> tltb y x = false.
  Hypothesis tltb_total : forall x y, tltb x y = false -> tltb y x = false -> x = y.

  (* the first working graph is a level graph, and m is its total weight *)
  Theorem C13_first_graph_is_level_graph : forall (g : gstate T A) weighted gu m,
    WF teqb tltb g -> weights_ok g weighted ->
    convert_graph teqb tltb g weighted (node_map_of tltb g) = Ok gu ->
    size_q gu weighted = Ok m ->
    LevelGraph gu (length (nodes_vec g)) /\ m == total_w (wedges gu) /\ 0 <= m.
  Proof.
    intros g weighted gu m W Hw Hg Hs.
    destruct (first_graph teqb tltb teqb_spec tltb_asym tltb_total g weighted gu m W Hw Hg Hs) as [H1 [_ [_ [H2 [H3 _]]]]].
    auto.
  Qed.

  (* THE STRUCTURAL HALF, for every reachable input, resolution, threshold, shuffle table and fuel:
     whenever the model returns, its levels are partitions of the input node set into non-empty
     sets, each coarsening the previous one *)
  Theorem C13_levels_partition_nested :
    forall lf sf (g : gstate T A) weighted res thr perms ls,
      WF teqb tltb g ->
      louvain_partitions teqb tltb lf sf g weighted res thr perms = Ok ls ->
      levels_ok (map nname (nodes_vec g)) ls.
  Proof. exact (louvain_partitions_levels_ok teqb tltb teqb_spec tltb_asym tltb_total). Qed.

  Theorem C13_communities_partition :
    forall lf sf (g : gstate T A) weighted res thr perms c,
      WF teqb tltb g ->
      louvain_communities teqb tltb lf sf g weighted res thr perms = Ok c ->
      level_ok (map nname (nodes_vec g)) c.
  Proof. exact (louvain_communities_level_ok teqb tltb teqb_spec tltb_asym tltb_total). Qed.

  (* TERMINATION of the model with a closed-form fuel: level fuel > N, sweep fuel >= N^N *)
  Theorem C13_never_out_of_fuel :
    forall lf sf (g : gstate T A) weighted res thr perms,
      WF teqb tltb g -> weights_ok g weighted -> 0 <= res ->
      (length (nodes_vec g) < lf)%nat -> (length (nodes_vec g) ^ length (nodes_vec g) <= sf)%nat ->
      louvain_partitions teqb tltb lf sf g weighted res thr perms <> OutOfFuel /\
      louvain_communities teqb tltb lf sf g weighted res thr perms <> OutOfFuel.
  Proof. exact (louvain_partitions_never_out_of_fuel teqb tltb teqb_spec tltb_asym tltb_total). Qed.

  (* MONOTONICITY and "first level at least as good as singletons" for a single-edge input graph,
     measured on the input graph itself: [esT] is its weighted edge list (weight 1 per edge when
     weighted = false), the levels are the returned ones, in the input's node names. *)
  Theorem C13_levels_monotone :
    forall lf sf (g : gstate T A) weighted res thr perms ls esT,
      WF teqb tltb g -> multi (sp g) = false -> weights_ok g weighted -> 0 <= res ->
      wedges_of weighted (get_all_edges g) = Some esT ->
      louvain_partitions teqb tltb lf sf g weighted res thr perms = Ok ls ->
      let QT := newman teqb (directed (sp g)) esT res in
      chain (fun a b => QT a <= QT b) ls /\
      exists first rest, ls = first :: rest /\
        QT (map (fun x => [x]) (map nname (nodes_vec g))) <= QT first.
  Proof. exact (louvain_levels_monotone_input teqb tltb teqb_spec tltb_asym tltb_total). Qed.

  (* the same WITHOUT the hypothesis [weights_ok] (round 2, after the repair of F23): with the guard
     in the model a returned value means that no real weight is negative, and [esT] exists only if
     every edge has a weight when weighted - so every weight is accounted for by the hypotheses
     that are left *)
  Theorem C13_levels_monotone_any_weights :
    forall lf sf (g : gstate T A) weighted res thr perms ls esT,
      WF teqb tltb g -> multi (sp g) = false -> 0 <= res ->
      wedges_of weighted (get_all_edges g) = Some esT ->
      louvain_partitions teqb tltb lf sf g weighted res thr perms = Ok ls ->
      let QT := newman teqb (directed (sp g)) esT res in
      chain (fun a b => QT a <= QT b) ls /\
      exists first rest, ls = first :: rest /\
        QT (map (fun x => [x]) (map nname (nodes_vec g))) <= QT first.
  Proof. exact (louvain_levels_monotone_input_guarded teqb tltb teqb_spec tltb_asym tltb_total). Qed.

  (* THE GUARD (repair of F23, /repo 9619d10; first statement of louvain_partitions): a weighted
     call on a graph with a real negative weight is answered with InvalidArgument - every graph
     state, fuel, shuffle table, resolution, threshold - and on the domain of the theorems above
     (weights_ok) the guard is false, so they are statements about the code after the guard *)
  Theorem C13_negative_weights_rejected :
    forall lf sf (g : gstate T A) weighted res thr perms,
      weighted = true -> (exists e z, In e (get_all_edges g) /\ ew e = Some z /\ (z < 0)%Z) ->
      louvain_partitions_t teqb tltb lf sf g weighted res thr perms = Err InvalidArgument /\
      louvain_partitions teqb tltb lf sf g weighted res thr perms = Err InvalidArgument /\
      louvain_communities teqb tltb lf sf g weighted res thr perms = Err InvalidArgument.
  Proof. exact (louvain_negative_weights_rejected teqb tltb). Qed.

  Theorem C13_guard_false_on_domain : forall (g : gstate T A) weighted,
    weights_ok g weighted -> negative_weight_guard g weighted = false.
  Proof. exact weights_ok_guard_false. Qed.

  (* the renaming convert_graph / convert_back preserves Newman's modularity (single-edge input) *)
  Theorem C13_convert_back_preserves_Q :
    forall (g : gstate T A) weighted gu esT level (lvT : list (list T)),
      WF teqb tltb g -> multi (sp g) = false ->
      convert_graph teqb tltb g weighted (node_map_of tltb g) = Ok gu ->
      wedges_of weighted (get_all_edges g) = Some esT ->
      (forall c i, In c level -> In i c -> (i < length (nodes_vec g))%nat) ->
      convert_back (node_map_of tltb g) [level] = Ok [lvT] ->
      forall res, newman teqb (directed (sp g)) esT res lvT
                  == newman Nat.eqb (directed (sp gu)) (wedges gu) res level.
  Proof. exact (convert_back_newman teqb tltb teqb_spec tltb_asym tltb_total). Qed.

  (* The same for EVERY input (multigraphs included), on the first working graph.
     PARTIAL: the modularity is that of convert_graph's output [gu] (integer names, parallel edges
     collapsed into their sum, weights 1 when weighted = false); for a multigraph input its
     equality with the modularity of the input graph (transport through to_single_edges) is not
     proved. *)
  Theorem C13_levels_monotone_partial :
    forall lf sf (g : gstate T A) weighted res thr perms ls tie,
      WF teqb tltb g -> weights_ok g weighted -> 0 <= res ->
      louvain_partitions_t teqb tltb lf sf g weighted res thr perms = Ok (ls, tie) ->
      exists gu levels first rest,
        convert_graph teqb tltb g weighted (node_map_of tltb g) = Ok gu /\
        convert_back (node_map_of tltb g) levels = Ok ls /\ levels = first :: rest /\
        levels_ok (seq 0 (length (nodes_vec g))) levels /\
        let Qm := newman Nat.eqb (directed (sp gu)) (wedges gu) res in
        Qm (map (fun k => [k]) (seq 0 (length (nodes_vec g)))) <= Qm first /\
        chain (fun a b => Qm a <= Qm b) levels.
  Proof. exact (louvain_levels_monotone teqb tltb teqb_spec tltb_asym tltb_total). Qed.
End C13_entry.

(* the hypotheses of the entry-point theorems are satisfiable, and the level graph ones through
   C13_first_graph_is_level_graph: an evaluated two-level run *)
Example C13_model_nonvacuous :
  exists g : gstate Z Z,
    WF Z.eqb Z.ltb g /\ weights_ok g false /\ 0 <= 1 /\ (length (nodes_vec g) < 10)%nat /\
    exists ls, louvain_partitions_t Z.eqb Z.ltb 10 50 g false 1 (1 # 10000000) mo_ex_perms = Ok (ls, false) /\
               length ls = 2%nat.
Proof.
  destruct louvain_model_nonvacuous as [g [_ [W [Hw [Hr [Hn Hl]]]]]].
  exists g. repeat (split; [assumption|]). exists mo_ex_levels. split; [exact Hl | reflexivity].
Qed.

(* ====================================================================================== *)
(* deep16: collapsing parallel edges preserves Newman's modularity; monotone levels for     *)
(* EVERY input graph                                                                        *)
(* ====================================================================================== *)
Section C13_collapse.
  Context {T : Type}.
  Variable teqb tltb : T -> T -> bool.
  Hypothesis teqb_spec : forall x y, teqb x y = true <-> x = y.

  (* [collapse] groups a weighted edge list by ordered end-point pair and sums the weights
     ([collapse_graph dir]: after orienting every edge canonically when undirected).  Regrouping:
     a selection that looks at the end points only weighs the same before and after *)
  Theorem C13_collapse_regroups : forall (p : T * T * Q -> bool) (es : list (T * T * Q)),
    (forall e e', wu e = wu e' -> wv e = wv e' -> p e = p e') ->
    wsel p (collapse teqb es) == wsel p es.
  Proof. exact (collapse_wsel teqb teqb_spec). Qed.

  (* the result has one entry per end-point pair, carrying the total weight of that pair *)
  Theorem C13_collapse_keys_distinct : forall es : list (T * T * Q),
    NoDup (map (fun e => (wu e, wv e)) (collapse teqb es)).
  Proof. exact (collapse_keys_distinct teqb teqb_spec). Qed.

  Theorem C13_collapse_weight : forall (es : list (T * T * Q)) e, In e (collapse teqb es) ->
    ww e == wsel (fun x => teqb (wu x) (wu e) && teqb (wv x) (wv e)) es.
  Proof. exact (collapse_weight teqb teqb_spec). Qed.

  (* NEWMAN'S FORMULA IS INVARIANT UNDER THE COLLAPSE: every family of communities (no partition
     or NoDup hypothesis), every resolution, directed and undirected, self-loops included *)
  Theorem C13_newman_collapse : forall dir (es : list (T * T * Q)) res (P : list (list T)),
    newman teqb dir (collapse teqb es) res P == newman teqb dir es res P.
  Proof. exact (newman_collapse teqb teqb_spec). Qed.

  Theorem C13_newman_collapse_graph : forall dir (es : list (T * T * Q)) res (P : list (list T)),
    newman teqb dir (collapse_graph teqb tltb dir es) res P == newman teqb dir es res P.
  Proof. exact (newman_collapse_graph teqb teqb_spec tltb). Qed.
End C13_collapse.

Section C13_all_inputs.
  Context {T A : Type}.
  Variable teqb tltb : T -> T -> bool.
  Hypothesis teqb_spec : forall x y, teqb x y = true <-> x = y.
  Hypothesis tltb_asym : forall x y, tltb x y = true -> tltb y x = false.
  Hypothesis tltb_total : forall x y, tltb x y = false -> tltb y x = false -> x = y.

  (* the graph that to_single_edges builds has, on its weighted edge list, the modularity of the
     input multigraph (parallel edges counted individually) and of the list-level collapse of the
     input's edge list - for every family, resolution and graph kind *)
  Theorem C13_to_single_edges_newman : forall (g h : gstate T A) esT,
    WF teqb tltb g -> multi (sp g) = true ->
    to_single_edges teqb tltb g = Ok h ->
    wedges_of true (get_all_edges g) = Some esT ->
    exists esH, wedges_of true (get_all_edges h) = Some esH /\
      forall dir res (P : list (list T)),
        newman teqb dir esH res P == newman teqb dir esT res P /\
        newman teqb dir esH res P == newman teqb dir (collapse teqb esT) res P /\
        newman teqb (directed (sp g)) esH res P
        == newman teqb (directed (sp g)) (collapse_graph teqb tltb (directed (sp g)) esT) res P.
  Proof. exact (to_single_edges_newman teqb tltb teqb_spec tltb_total). Qed.

  (* on a coherent state the support [support_wedges g] (one unit edge per stored pair) is the
     list-level support of the edge list: collapse, then weight 1 *)
  Theorem C13_support_is_support_of_edge_list : forall (g : gstate T A) esT, WF teqb tltb g ->
    wedges_of false (get_all_edges g) = Some esT ->
    Permutation.Permutation (support_wedges g) (support_graph teqb tltb (directed (sp g)) esT).
  Proof. exact (support_wedges_perm teqb tltb teqb_spec). Qed.

  (* MONOTONICITY FOR EVERY INPUT (supersedes C13_levels_monotone_partial): no hypothesis on
     multi (sp g), none on the weights.  [measured_wedges g weighted esT] is [esT], the input's own
     weighted edge list, except for an unweighted call on a multigraph, where it is the support *)
  Theorem C13_levels_monotone_all_inputs :
    forall lf sf (g : gstate T A) weighted res thr perms ls esT,
      WF teqb tltb g -> 0 <= res ->
      wedges_of weighted (get_all_edges g) = Some esT ->
      louvain_partitions teqb tltb lf sf g weighted res thr perms = Ok ls ->
      let QT := newman teqb (directed (sp g))
                  (if multi (sp g) && negb weighted then support_wedges g else esT) res in
      chain (fun a b => QT a <= QT b) ls /\
      exists first rest, ls = first :: rest /\
        QT (map (fun x => [x]) (map nname (nodes_vec g))) <= QT first.
  Proof. exact (louvain_levels_monotone_all_inputs teqb tltb teqb_spec tltb_asym tltb_total). Qed.

  (* weighted = true, FULL: every coherent input, multigraphs included, measured on the input's own
     weighted edge list (parallel edges individually) *)
  Theorem C13_levels_monotone_weighted_all_inputs :
    forall lf sf (g : gstate T A) res thr perms ls esT,
      WF teqb tltb g -> 0 <= res ->
      wedges_of true (get_all_edges g) = Some esT ->
      louvain_partitions teqb tltb lf sf g true res thr perms = Ok ls ->
      let QT := newman teqb (directed (sp g)) esT res in
      chain (fun a b => QT a <= QT b) ls /\
      exists first rest, ls = first :: rest /\
        QT (map (fun x => [x]) (map nname (nodes_vec g))) <= QT first.
  Proof. exact (louvain_levels_monotone_weighted teqb tltb teqb_spec tltb_asym tltb_total). Qed.

  (* weighted = false: a single-edge graph on its own unit edge list, a multigraph on the support
     of its edge list (what the code optimises: each adjacent pair counts once) *)
  Theorem C13_levels_monotone_unweighted_all_inputs :
    forall lf sf (g : gstate T A) res thr perms ls esT,
      WF teqb tltb g -> 0 <= res ->
      wedges_of false (get_all_edges g) = Some esT ->
      louvain_partitions teqb tltb lf sf g false res thr perms = Ok ls ->
      let QT := newman teqb (directed (sp g))
                  (if multi (sp g) then support_graph teqb tltb (directed (sp g)) esT else esT) res in
      chain (fun a b => QT a <= QT b) ls /\
      exists first rest, ls = first :: rest /\
        QT (map (fun x => [x]) (map nname (nodes_vec g))) <= QT first.
  Proof. exact (louvain_levels_monotone_unweighted teqb tltb teqb_spec tltb_asym tltb_total). Qed.
End C13_all_inputs.

(* the hypotheses are satisfiable on a weighted multigraph with a doubled edge (1-2 with weights 2
   and 3): four edges, three after the collapse, one returned level with a two-node community,
   strictly better than the singletons on the input's own edge list *)
Theorem C13_all_inputs_nonvacuous :
  exists (g : gstate Z Z) esT first,
    nc_ex_graph = Ok g /\ WF Z.eqb Z.ltb g /\ multi (sp g) = true /\ 0 <= 1 /\
    wedges_of true (get_all_edges g) = Some esT /\ length esT = 4%nat /\
    length (collapse_graph Z.eqb Z.ltb (directed (sp g)) esT) = 3%nat /\
    louvain_partitions Z.eqb Z.ltb 10 50 g true 1 (1 # 10000000) nc_ex_perms = Ok [first] /\
    (exists c, In c first /\ (2 <= length c)%nat) /\
    newman Z.eqb (directed (sp g)) esT 1 (map (fun x => [x]) (map nname (nodes_vec g)))
    < newman Z.eqb (directed (sp g)) esT 1 first.
Proof. exact collapse_monotone_nonvacuous. Qed.

(* THE UNWEIGHTED MULTIGRAPH STATEMENT IS FALSE FOR THE MODULARITY THAT COUNTS EVERY PARALLEL EDGE.
   [rf_ex_graph]: undirected multigraph, no weights, nodes 1 2 3 4, edges 1-2 and 3-4 once, 2-3 and
   1-4 four times each; visiting order 0 1 2 3 (rand 0.8, seed 0).  The model returns the single
   level {1,2} {3,4} without meeting a tie; on the multigraph's own unit edge list its modularity
   is -3/10, that of the singletons -1/4; on the support (the 4-cycle) it is an improvement. *)
Theorem C13_unweighted_multigraph_counterexample :
  exists (g : gstate Z Z) esT,
    rf_ex_graph = Ok g /\ WF Z.eqb Z.ltb g /\ multi (sp g) = true /\ directed (sp g) = false /\
    wedges_of false (get_all_edges g) = Some esT /\ length esT = 10%nat /\
    louvain_partitions_t Z.eqb Z.ltb 10 50 g false 1 (1 # 10000000) rf_ex_perms = Ok ([rf_ex_level], false) /\
    louvain_partitions Z.eqb Z.ltb 10 50 g false 1 (1 # 10000000) rf_ex_perms = Ok [rf_ex_level] /\
    newman Z.eqb false esT 1 rf_ex_level == - (3 # 10) /\
    newman Z.eqb false esT 1 (map (fun x => [x]) (map nname (nodes_vec g))) == - (1 # 4) /\
    newman Z.eqb false (support_graph Z.eqb Z.ltb false esT) 1 (map (fun x => [x]) (map nname (nodes_vec g)))
    < newman Z.eqb false (support_graph Z.eqb Z.ltb false esT) 1 rf_ex_level.
Proof. exact louvain_unweighted_multigraph_refuted. Qed.

Theorem C13_levels_monotone_by_multiplicity_refuted :
  ~ (forall lf sf (g : gstate Z Z) res thr perms ls esT,
       WF Z.eqb Z.ltb g -> 0 <= res ->
       wedges_of false (get_all_edges g) = Some esT ->
       louvain_partitions Z.eqb Z.ltb lf sf g false res thr perms = Ok ls ->
       let QT := newman Z.eqb (directed (sp g)) esT res in
       chain (fun a b => QT a <= QT b) ls /\
       exists first rest, ls = first :: rest /\
         QT (map (fun x => [x]) (map nname (nodes_vec g))) <= QT first).
Proof. exact louvain_multiplicity_monotone_refuted. Qed.
