(* Property C14 — GraphML write-then-read reproduces the graph exactly.
   Only pinned statements; proofs live in Proofs/EscapeOk.v and
   Proofs/GraphMLRoundTrip.v.  Strings are lists of naturals (every byte
   string, every UTF-8 encoded Unicode string is one); a weight is an opaque
   token, [fmt] / [parse] stand for Rust's f64 Display / FromStr (oracles,
   sampled by the harness; the hypotheses are satisfiable:
   GraphMLRoundTrip.roundtrip_hyps_satisfiable).
   Round 2: the well-formedness hypothesis of the round trip (distinct names, admissible stored
   edge list) is PROVED for every state satisfying the coherence invariant WF, hence for every
   graph reachable through the public mutation API (C14_WF_is_wellformed,
   C14_reachable_is_wellformed), and the round trip is stated for every reachable graph
   (C14_roundtrip_reachable); the per-case evaluation of wf_roundtrip_b (observation 31) is kept
   as a tie between model and code. *)
From Coq Require Import List NArith ZArith Bool Permutation.
From GV Require Import Base.Outcome Base.AMap Model.GState Model.Creation Model.Query Model.XmlEscape Model.GraphML.
From GV Require Import Spec.History Spec.GraphMLDef Proofs.WFDefs Proofs.EscapeOk Proofs.GraphMLOk Proofs.CreationNoPanic Proofs.CreationNodes Proofs.CreationRebuild Proofs.GraphMLRoundTrip Proofs.GraphMLStateOk.
Import ListNotations.
Open Scope N_scope.

(* the codec is lossless on ALL strings *)
Theorem C14_escape_roundtrip : forall s : bytes, unescape (escape s) = Some s.
Proof. exact escape_roundtrip. Qed.

(* escaped text contains none of the characters lt, gt, apostrophe, quote *)
Theorem C14_escape_no_markup : forall (s : bytes) (b : N), In b (escape s) ->
  b <> 60 /\ b <> 62 /\ b <> 39 /\ b <> 34.
Proof. exact escape_no_markup. Qed.

(* ... and an ampersand only as the start of one of the five predefined references *)
Theorem C14_escape_form : forall s : bytes, escaped_form (escape s).
Proof. exact escape_form. Qed.

Theorem C14_escape_injective : forall s t : bytes, escape s = escape t -> s = t.
Proof. exact escape_injective. Qed.

(* what the reader hands to the constructor after the writer ran on (d, ns, es)
   is exactly (d, ns, es): same names in the same order, same edge list with
   identical weight tokens, same directedness — for all names and all weights *)
Theorem C14_roundtrip_elements :
  forall (fmt : Z -> bytes) (parse : bytes -> option weight),
  (forall z, escape (fmt z) = fmt z) ->
  (forall z, parse (fmt z) = Some (Some z)) ->
  forall (d : bool) (ns : list gnode) (es : list gedge),
  read_elements parse (write_elements fmt d ns es) = Ok (d, map bare_node ns, map bare_edge es).
Proof. exact roundtrip_elements. Qed.

(* write-then-read = the constructor applied to the graph's own node list, edge list and specs *)
Theorem C14_roundtrip_is_rebuild :
  forall (fmt : Z -> bytes) (parse : bytes -> option weight),
  (forall z, escape (fmt z) = fmt z) ->
  (forall z, parse (fmt z) = Some (Some z)) ->
  forall g : ggraph,
  read_events parse (write_events fmt g) (sp g) =
  new_from_nodes_and_edges bytes_eqb bytes_ltb
    (map bare_node (get_all_nodes g)) (map bare_edge (get_all_edges g)) (sp g).
Proof. exact roundtrip_graph. Qed.

(* same node names in the same order and the same specs (so the same directedness), for every graph
   whose names are distinct and whose edges join its own nodes (two clauses of graphrs' well-formedness;
   satisfiable: GraphMLRoundTrip.roundtrip_nonvacuous) *)
Theorem C14_roundtrip_nodes_specs :
  forall (fmt : Z -> bytes) (parse : bytes -> option weight),
  (forall z, escape (fmt z) = fmt z) ->
  (forall z, parse (fmt z) = Some (Some z)) ->
  forall g g' : ggraph,
  NoDup (map nname (get_all_nodes g)) ->
  (forall e, In e (get_all_edges g) ->
     In (eu e) (map nname (get_all_nodes g)) /\ In (ev e) (map nname (get_all_nodes g))) ->
  read_events parse (write_events fmt g) (sp g) = Ok g' ->
  map nname (get_all_nodes g') = map nname (get_all_nodes g) /\ sp g' = sp g.
Proof. exact roundtrip_nodes_specs. Qed.

(* reading back a written graph never panics *)
Theorem C14_roundtrip_no_panic :
  forall (fmt : Z -> bytes) (parse : bytes -> option weight),
  (forall z, escape (fmt z) = fmt z) ->
  (forall z, parse (fmt z) = Some (Some z)) ->
  forall g : ggraph, is_panic (read_events parse (write_events fmt g) (sp g)) = false.
Proof. exact roundtrip_no_panic. Qed.

(* THE ROUND TRIP.  For every node list with distinct names and every edge list, in ANY order, that the
   specs admit (endpoints declared, no forbidden self-loop, no repeated pair unless multi-edges are
   allowed, canonical orientation when undirected — what a Graph's own content satisfies; checked
   on every generated graph by wf_roundtrip_b, sound by C14_wf_check_sound): reading back what was
   written, with the same specs, succeeds and yields the same names in the same order, the same
   specs (so the same directedness) and the same multiset of edges with identical weight tokens. *)
Theorem C14_roundtrip_elements_full :
  forall (fmt : Z -> bytes) (parse : bytes -> option weight),
  (forall z, escape (fmt z) = fmt z) ->
  (forall z, parse (fmt z) = Some (Some z)) ->
  forall (s : specs) (ns : list gnode) (es : list gedge),
  NoDup (map nname ns) ->
  all_admissible bytes_ltb s (map nname ns) [] es ->
  exists g', read_events parse (write_elements fmt (directed s) ns es) s = Ok g' /\
             get_all_nodes g' = map bare_node ns /\ sp g' = s /\
             Permutation (get_all_edges g') (map bare_edge es).
Proof. exact roundtrip_full_elements. Qed.

Theorem C14_roundtrip :
  forall (fmt : Z -> bytes) (parse : bytes -> option weight),
  (forall z, escape (fmt z) = fmt z) ->
  (forall z, parse (fmt z) = Some (Some z)) ->
  forall g : ggraph,
  NoDup (map nname (get_all_nodes g)) ->
  all_admissible bytes_ltb (sp g) (map nname (get_all_nodes g)) [] (get_all_edges g) ->
  exists g', read_events parse (write_events fmt g) (sp g) = Ok g' /\
             map nname (get_all_nodes g') = map nname (get_all_nodes g) /\
             directed (sp g') = directed (sp g) /\
             Permutation (get_all_edges g') (map bare_edge (get_all_edges g)).
Proof. exact roundtrip_full. Qed.

Theorem C14_wf_check_sound : forall (s : specs) (ns : list gnode) (es : list gedge),
  wf_roundtrip_b s ns es = true ->
  NoDup (map nname ns) /\ all_admissible bytes_ltb s (map nname ns) [] es.
Proof. exact wf_roundtrip_b_sound. Qed.

(* the constructor on admissible input, for any name type: succeeds, same nodes, same edge multiset *)
Theorem C14_rebuild :
  forall (T A : Type) (teqb tltb : T -> T -> bool),
  (forall x y, teqb x y = true <-> x = y) ->
  forall (ns : list (node T A)) (es : list (edge T A)) (s : specs),
  NoDup (map nname ns) -> all_admissible tltb s (map nname ns) [] es ->
  exists g, new_from_nodes_and_edges teqb tltb ns es s = Ok g /\
            nodes_vec g = ns /\ sp g = s /\ Permutation (get_all_edges g) es.
Proof. exact (@new_from_rebuild). Qed.

(* ---------------------------------------------------------------------------------------------
   Round 2: the writer's well-formedness predicate is a consequence of the invariant of C01.
   --------------------------------------------------------------------------------------------- *)

(* any name type: a coherent state has distinct node names and its stored edge list, in its stored
   order, is admissible for its specs (endpoints are nodes, no forbidden self-loop, canonical
   orientation when undirected, no repeated pair unless multi-edges are allowed) *)
Theorem C14_WF_is_wellformed :
  forall (T A : Type) (teqb tltb : T -> T -> bool),
  (forall x y, teqb x y = true <-> x = y) ->
  (forall x y, tltb x y = false -> tltb y x = false -> x = y) ->
  forall g : gstate T A, WF teqb tltb g ->
  NoDup (map nname (get_all_nodes g)) /\
  all_admissible tltb (sp g) (map nname (get_all_nodes g)) [] (get_all_edges g).
Proof. exact (@WF_admissible). Qed.

(* every Graph reachable by any history of add_node(s) / add_edge(s) satisfies it *)
Theorem C14_reachable_is_wellformed : forall (s : specs) (g : ggraph),
  reachable bytes_eqb bytes_ltb s g ->
  NoDup (map nname (get_all_nodes g)) /\
  all_admissible bytes_ltb (sp g) (map nname (get_all_nodes g)) [] (get_all_edges g).
Proof. intros s g Hr. exact (wf_roundtrip_of_WF g (breachable_WF s g Hr)). Qed.

(* THE ROUND TRIP, for every reachable graph: reading back what was written, with the graph's specs,
   succeeds and yields a reachable (hence valid) graph with the same names in the same order, the
   same specs and the same multiset of edges with identical weight tokens *)
Theorem C14_roundtrip_reachable :
  forall (fmt : Z -> bytes) (parse : bytes -> option weight),
  (forall z, escape (fmt z) = fmt z) ->
  (forall z, parse (fmt z) = Some (Some z)) ->
  forall (s : specs) (g : ggraph),
  reachable bytes_eqb bytes_ltb s g ->
  exists g', read_events parse (write_events fmt g) s = Ok g' /\
             reachable bytes_eqb bytes_ltb s g' /\
             map nname (get_all_nodes g') = map nname (get_all_nodes g) /\
             sp g' = s /\
             Permutation (get_all_edges g') (map bare_edge (get_all_edges g)).
Proof. exact roundtrip_reachable. Qed.
