(* Property C14 — GraphML write-then-read reproduces the graph exactly.
   Only pinned statements; proofs live in Proofs/EscapeOk.v and
   Proofs/GraphMLRoundTrip.v.  Strings are lists of naturals (every byte
   string, every UTF-8 encoded Unicode string is one); a weight is an opaque
   token, [fmt] / [parse] stand for Rust's f64 Display / FromStr (oracles,
   sampled by the harness; the hypotheses are satisfiable:
   GraphMLRoundTrip.roundtrip_hyps_satisfiable). *)
From Coq Require Import List NArith ZArith Bool.
From GV Require Import Base.Outcome Base.AMap Model.GState Model.Creation Model.Query Model.XmlEscape Model.GraphML.
From GV Require Import Spec.GraphMLDef Proofs.EscapeOk Proofs.GraphMLOk Proofs.CreationNoPanic Proofs.CreationNodes Proofs.GraphMLRoundTrip.
Import ListNotations.
Open Scope N_scope.

(* the codec is lossless on ALL strings *)
Theorem C14_escape_roundtrip : forall s : bytes, unescape (escape s) = Some s.
Proof. exact escape_roundtrip. Qed.

(* escaped text contains none of the characters lt, gt, apostrophe, quote *)
Theorem C14_escape_no_markup : forall (s : bytes) (b : N), In b (escape s) ->
  b <> 60 /\ b <> 62 /\ b <> 39 /\ b <> 34.
Proof. exact escape_no_markup. Qed.

(* ... and an ampersand only as the start of one of the five predefined references *)
Theorem C14_escape_form : forall s : bytes, escaped_form (escape s).
Proof. exact escape_form. Qed.

Theorem C14_escape_injective : forall s t : bytes, escape s = escape t -> s = t.
Proof. exact escape_injective. Qed.

(* what the reader hands to the constructor after the writer ran on (d, ns, es)
   is exactly (d, ns, es): same names in the same order, same edge list with
   identical weight tokens, same directedness — for all names and all weights *)
Theorem C14_roundtrip_elements :
  forall (fmt : Z -> bytes) (parse : bytes -> option weight),
  (forall z, escape (fmt z) = fmt z) ->
  (forall z, parse (fmt z) = Some (Some z)) ->
  forall (d : bool) (ns : list gnode) (es : list gedge),
  read_elements parse (write_elements fmt d ns es) = Ok (d, map bare_node ns, map bare_edge es).
Proof. exact roundtrip_elements. Qed.

(* FULL STATEMENT (not proved):  WF g -> exists g', read_events parse (write_events fmt g) (sp g) = Ok g'
     /\ map nname (get_all_nodes g') = map nname (get_all_nodes g) /\ directed (sp g') = directed (sp g)
     /\ Permutation (map bare_edge (get_all_edges g')) (map bare_edge (get_all_edges g)).
   PROVED PART: write-then-read equals the constructor applied to the graph's own node list, edge list and
   specs (below); the node-order and directedness clauses in full (C14_roundtrip_nodes_specs).
   MISSING: the edge-multiset clause of `rebuild' — the constructor applied to a well-formed graph's own
   edge list stores exactly that multiset (needs the full WF invariant of Model/Creation.v); validated per
   generated graph (observation 30) and on the implementation by the round-trip oracle. *)
Theorem C14_roundtrip_partial :
  forall (fmt : Z -> bytes) (parse : bytes -> option weight),
  (forall z, escape (fmt z) = fmt z) ->
  (forall z, parse (fmt z) = Some (Some z)) ->
  forall g : ggraph,
  read_events parse (write_events fmt g) (sp g) =
  new_from_nodes_and_edges bytes_eqb bytes_ltb
    (map bare_node (get_all_nodes g)) (map bare_edge (get_all_edges g)) (sp g).
Proof. exact roundtrip_graph. Qed.

(* same node names in the same order and the same specs (so the same directedness), for every graph
   whose names are distinct and whose edges join its own nodes (two clauses of graphrs' well-formedness;
   satisfiable: GraphMLRoundTrip.roundtrip_nonvacuous) *)
Theorem C14_roundtrip_nodes_specs :
  forall (fmt : Z -> bytes) (parse : bytes -> option weight),
  (forall z, escape (fmt z) = fmt z) ->
  (forall z, parse (fmt z) = Some (Some z)) ->
  forall g g' : ggraph,
  NoDup (map nname (get_all_nodes g)) ->
  (forall e, In e (get_all_edges g) ->
     In (eu e) (map nname (get_all_nodes g)) /\ In (ev e) (map nname (get_all_nodes g))) ->
  read_events parse (write_events fmt g) (sp g) = Ok g' ->
  map nname (get_all_nodes g') = map nname (get_all_nodes g) /\ sp g' = sp g.
Proof. exact roundtrip_nodes_specs. Qed.

(* reading back a written graph never panics *)
Theorem C14_roundtrip_no_panic :
  forall (fmt : Z -> bytes) (parse : bytes -> option weight),
  (forall z, escape (fmt z) = fmt z) ->
  (forall z, parse (fmt z) = Some (Some z)) ->
  forall g : ggraph, is_panic (read_events parse (write_events fmt g) (sp g)) = false.
Proof. exact roundtrip_no_panic. Qed.
