(* Property C15 — Derived graphs (subgraph, reverse, reweight, collapse) are exactly as specified.
   Only pinned statements; proofs in Proofs/DerivedOk.v. *)
From Coq Require Import List Bool.
From GV Require Import Base.Outcome Base.AMap Model.GState Model.Creation Model.Query Model.Derived Spec.AGraph.
From GV Require Import Proofs.WFDefs Proofs.DerivedOk.
Import ListNotations.

Section C15.
  Context {T A : Type}.
  Variable teqb : T -> T -> bool.
  Variable tltb : T -> T -> bool.
  Hypothesis teqb_spec : forall x y, teqb x y = true <-> x = y.
  Hypothesis tltb_asym : forall x y, tltb x y = true -> tltb y x = false.
  Hypothesis tltb_total : forall x y, tltb x y = false -> tltb y x = false -> x = y.
  Notation gstate := (gstate T A).
  Notation WF := (@WF T A teqb tltb).

  (* every derived graph is a reachable state: it satisfies the coherence invariant (hence
     C01-C03 hold of it) and carries the expected specs *)
  Theorem C15_subgraph_result_WF : forall (g h : gstate) xs,
    get_subgraph teqb tltb g xs = Ok h -> WF h /\ sp h = sp g.
  Proof. exact (subgraph_WF teqb tltb teqb_spec tltb_asym tltb_total). Qed.

  Theorem C15_reverse_result_WF : forall (g h : gstate),
    reverse teqb tltb g = Ok h -> WF h /\ sp h = sp g.
  Proof. exact (reverse_WF teqb tltb teqb_spec tltb_asym tltb_total). Qed.

  Theorem C15_set_weights_result_WF : forall (g h : gstate) w,
    set_all_edge_weights teqb tltb g w = Ok h -> WF h /\ sp h = sp g.
  Proof. exact (set_all_edge_weights_WF teqb tltb teqb_spec tltb_asym tltb_total). Qed.

  Theorem C15_to_single_edges_result_WF : forall (g h : gstate),
    to_single_edges teqb tltb g = Ok h ->
    WF h /\ multi (sp h) = false /\ directed (sp h) = directed (sp g) /\ selfloops (sp h) = selfloops (sp g).
  Proof. exact (to_single_edges_WF teqb tltb teqb_spec tltb_asym tltb_total). Qed.

  (* the wrong kind of graph is refused *)
  Theorem C15_reverse_wrong_kind : forall (g : gstate),
    directed (sp g) = false -> reverse teqb tltb g = Err WrongMethod.
  Proof. exact (reverse_wrong_kind teqb tltb). Qed.

  Theorem C15_to_single_edges_wrong_kind : forall (g : gstate),
    multi (sp g) = false -> to_single_edges teqb tltb g = Err WrongMethod.
  Proof. exact (to_single_edges_wrong_kind teqb tltb). Qed.

  (* the nodes handed to the rebuild are exactly the existing nodes named in S, with attributes *)
  Theorem C15_subgraph_nodes : forall (g : gstate) xs n,
    In n (filter (fun n => mem_name teqb (nname n) xs) (get_all_nodes g)) <->
    In n (nodes_vec g) /\ In (nname n) xs.
  Proof. exact (subgraph_nodes_input teqb teqb_spec). Qed.
End C15.
