(* Property C15 — Derived graphs (subgraph, reverse, reweight, collapse) are exactly as specified.
   Only pinned statements; proofs in Proofs/DerivedOk.v. *)
From Coq Require Import List Bool.
From GV Require Import Base.Outcome Base.AMap Model.GState Model.Creation Model.Query Model.Derived Spec.AGraph.
From Coq Require Import Permutation.
From GV Require Import Proofs.WFDefs Proofs.DerivedOk Proofs.DerivedContent.
Import ListNotations.

Section C15.
  Context {T A : Type}.
  Variable teqb : T -> T -> bool.
  Variable tltb : T -> T -> bool.
  Hypothesis teqb_spec : forall x y, teqb x y = true <-> x = y.
  Hypothesis tltb_asym : forall x y, tltb x y = true -> tltb y x = false.
  Hypothesis tltb_total : forall x y, tltb x y = false -> tltb y x = false -> x = y.
  Notation gstate := (gstate T A).
  Notation WF := (@WF T A teqb tltb).

  (* every derived graph is a reachable state: it satisfies the coherence invariant (hence
     C01-C03 hold of it) and carries the expected specs *)
  Theorem C15_subgraph_result_WF : forall (g h : gstate) xs,
    get_subgraph teqb tltb g xs = Ok h -> WF h /\ sp h = sp g.
  Proof. exact (subgraph_WF teqb tltb teqb_spec tltb_asym tltb_total). Qed.

  Theorem C15_reverse_result_WF : forall (g h : gstate),
    reverse teqb tltb g = Ok h -> WF h /\ sp h = sp g.
  Proof. exact (reverse_WF teqb tltb teqb_spec tltb_asym tltb_total). Qed.

  Theorem C15_set_weights_result_WF : forall (g h : gstate) w,
    set_all_edge_weights teqb tltb g w = Ok h -> WF h /\ sp h = sp g.
  Proof. exact (set_all_edge_weights_WF teqb tltb teqb_spec tltb_asym tltb_total). Qed.

  Theorem C15_to_single_edges_result_WF : forall (g h : gstate),
    to_single_edges teqb tltb g = Ok h ->
    WF h /\ multi (sp h) = false /\ directed (sp h) = directed (sp g) /\ selfloops (sp h) = selfloops (sp g).
  Proof. exact (to_single_edges_WF teqb tltb teqb_spec tltb_asym tltb_total). Qed.

  (* the wrong kind of graph is refused *)
  Theorem C15_reverse_wrong_kind : forall (g : gstate),
    directed (sp g) = false -> reverse teqb tltb g = Err WrongMethod.
  Proof. exact (reverse_wrong_kind teqb tltb). Qed.

  Theorem C15_to_single_edges_wrong_kind : forall (g : gstate),
    multi (sp g) = false -> to_single_edges teqb tltb g = Err WrongMethod.
  Proof. exact (to_single_edges_wrong_kind teqb tltb). Qed.

  (* the nodes handed to the rebuild are exactly the existing nodes named in S, with attributes *)
  Theorem C15_subgraph_nodes : forall (g : gstate) xs n,
    In n (filter (fun n => mem_name teqb (nname n) xs) (get_all_nodes g)) <->
    In n (nodes_vec g) /\ In (nname n) xs.
  Proof. exact (subgraph_nodes_input teqb teqb_spec). Qed.

  (* ---- exact content (on every coherent = every reachable source graph) ---- *)
  (* induced subgraph: the nodes of S that exist, in their original order and with their
     attributes, and exactly the stored edges with both ends in S; never panics *)
  Theorem C15_subgraph_content : forall (g : gstate) xs,
    WF g ->
    exists h, get_subgraph teqb tltb g xs = Ok h /\
              nodes_vec h = filter (fun n => mem_name teqb (nname n) xs) (nodes_vec g) /\
              sp h = sp g /\
              Permutation (flat_map snd (edges h))
                (filter (fun e => mem_name teqb (eu e) xs && mem_name teqb (ev e) xs) (flat_map snd (edges g))).
  Proof. exact (get_subgraph_content teqb tltb teqb_spec tltb_total). Qed.

  (* reweighting keeps nodes and edges (endpoints, attributes, multiplicity) and sets every weight *)
  Theorem C15_set_weights_content : forall (g : gstate) w,
    WF g ->
    exists h, set_all_edge_weights teqb tltb g w = Ok h /\
              nodes_vec h = nodes_vec g /\ sp h = sp g /\
              Permutation (flat_map snd (edges h))
                (map (fun e => mkedge (eu e) (ev e) w (eattr e)) (flat_map snd (edges g))).
  Proof. exact (set_all_edge_weights_content teqb tltb teqb_spec tltb_total). Qed.

  (* reverse flips every edge keeping nodes, weights, attributes and parallel edges *)
  Theorem C15_reverse_content : forall (g : gstate),
    WF g -> directed (sp g) = true ->
    exists h, reverse teqb tltb g = Ok h /\
              nodes_vec h = nodes_vec g /\ sp h = sp g /\
              Permutation (flat_map snd (edges h)) (map reversed (flat_map snd (edges g))).
  Proof. exact (reverse_content teqb tltb teqb_spec tltb_total). Qed.

  Theorem C15_reverse_twice : forall (g h k : gstate),
    WF g -> WF h -> reverse teqb tltb g = Ok h -> reverse teqb tltb h = Ok k ->
    nodes_vec k = nodes_vec g /\ Permutation (flat_map snd (edges k)) (flat_map snd (edges g)).
  Proof. exact (reverse_involutive teqb tltb teqb_spec tltb_total). Qed.

  (* collapse: nodes kept; one edge per group of parallel edges, its weight the group's sum *)
  Theorem C15_to_single_edges_content : forall (g : gstate),
    WF g -> multi (sp g) = true ->
    exists h, to_single_edges teqb tltb g = Ok h /\
              nodes_vec h = nodes_vec g /\
              multi (sp h) = false /\ directed (sp h) = directed (sp g) /\
              Permutation (flat_map snd (edges h)) (map collapse_edges (edges g)).
  Proof. exact (to_single_edges_content teqb tltb teqb_spec tltb_total). Qed.
End C15.
