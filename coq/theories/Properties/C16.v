(* Property C16 — Generators produce the graph family they name.
   This file contains only the pinned statements; proofs live in Proofs/
   (GensListOk, GnpOk, GensCreationOk, GensOk).  The statements are repeated in
   coq/pins/C16.v and re-checked on every run.

   Objects: [complete_graph], [fast_gnp_random_graph], [karate_club_graph] are the
   transcriptions of src/generators/{classic,random,social}.rs over the
   twelve-field graph state (Model/Classic.v, Model/Gnp.v, Model/Creation.v);
   [node_names g] / [edge_pairs g] are get_all_nodes / get_all_edges of the
   returned graph (undirected edges in storage orientation, smaller name first).
   The random draws of a seed enter as the gap stream k_i (see Model/Gnp.v).

   NOT formalised (partial): the distributional sentence of the property —
   "behaves as a draw from G(n,p)", mean edge count p*N*(1 +- 1/(n-1)).  The
   theorems below reduce it to the classical fact "i.i.d. geometric gaps <=>
   i.i.d. Bernoulli(p) slots" (Batagelj & Brandes 2005), which is cited and
   sampled on the implementation (oracle of tools/p_gens.py), not proved. *)
From Coq Require Import List Bool ZArith QArith.
From GV Require Import Base.Outcome Model.GState Model.Classic Model.Gnp Spec.GnpDef.
From GV Require Import Proofs.GnpOk Proofs.GensCreationOk Proofs.GensOk Gen.KarateData.
From GV Require Import Model.Creation Model.Query Proofs.WFDefs Proofs.DegreeOk Proofs.GensWF.
Import ListNotations.
Open Scope Z_scope.

(* complete_graph(n, directed), every n (n <= 0 gives the empty graph): exactly
   the nodes 0..n-1, each once; exactly one edge for every ordered (directed) /
   unordered (undirected, stored a < b) pair of distinct nodes; n(n-1) resp.
   n(n-1)/2 edges *)
Theorem C16_complete : forall n dir,
  exists g, complete_graph n dir = Ok g /\
    (forall x, In x (node_names g) <-> 0 <= x < n) /\ NoDup (node_names g) /\
    NoDup (edge_pairs g) /\
    (forall a b, In (a, b) (edge_pairs g) <->
                 0 <= a < n /\ 0 <= b < n /\ (if dir then a <> b else a < b)) /\
    Z.of_nat (length (edge_pairs g)) * (if dir then 1 else 2) = Z.max 0 n * (Z.max 0 n - 1).
Proof. exact complete_graph_exact. Qed.

(* fast_gnp_random_graph, for EVERY stream of non-negative gaps that is long
   enough to pass the last slot, every node count 0 <= n <= i32::MAX and every
   0 < p < 1: success; exactly the nodes 0..n-1; no self-loop; no repeated pair
   (for undirected graphs not in either orientation); all end points in range *)
Theorem C16_gnp_structural : forall n p dir gaps,
  0 <= n <= i32_max -> p_valid p ->
  Forall (fun k => 0 <= k) gaps -> gnp_slots n dir < Z.of_nat (length gaps) ->
  exists g, fast_gnp_random_graph n p dir gaps = Ok g /\
    node_names g = zrange n /\
    NoDup (edge_pairs g) /\
    (forall a b, In (a, b) (edge_pairs g) ->
       0 <= a < n /\ 0 <= b < n /\ a <> b /\ (dir = false -> a < b /\ ~ In (b, a) (edge_pairs g))).
Proof. exact gnp_graph_structural. Qed.

(* the emitted pairs are exactly slot(t_1), slot(t_2), ... of the published walk
   t_j = b(t_(j-1) + 1 + k_j), t_0 = -1, cut off at N (Spec/GnpDef.v): triangle
   index v(v-1)/2 + w when undirected, n x n grid with the diagonal bump when
   directed *)
Theorem C16_gnp_slots : forall n p dir gaps ts,
  0 <= n <= i32_max -> p_valid p -> Forall (fun k => 0 <= k) gaps ->
  gnp_walk n dir gaps = Some ts ->
  exists g l, fast_gnp_random_graph n p dir gaps = Ok g /\ node_names g = zrange n /\
              edge_pairs g = map (canon dir) l /\
              map (gnp_index n dir) l = ts /\ Forall (gnp_pair n dir) l.
Proof. exact gnp_graph_slots. Qed.

(* every possible pair can occur: a gap stream that makes it the only edge *)
Theorem C16_gnp_every_pair_possible : forall n p dir q,
  0 <= n <= i32_max -> p_valid p -> gnp_pair n dir q ->
  exists gaps g, Forall (fun k => 0 <= k) gaps /\
                 fast_gnp_random_graph n p dir gaps = Ok g /\ edge_pairs g = [canon dir q].
Proof. exact gnp_graph_every_pair. Qed.

(* p outside (0,1) — including NaN and the infinities — is rejected *)
Theorem C16_rejects_p : forall n p dir gaps,
  ~ p_valid p -> fast_gnp_random_graph n p dir gaps = Err InvalidArgument.
Proof. exact gnp_rejects_p. Qed.

(* no gap stream (not even a too short one) makes the generator panic: every
   checked i64 operation of the loops stays in range *)
Theorem C16_gnp_no_panic : forall n p dir gaps site,
  0 <= n <= i32_max -> Forall (fun k => 0 <= k) gaps ->
  fast_gnp_random_graph n p dir gaps <> Panic site.
Proof. exact gnp_graph_no_panic. Qed.

(* the adjacency literal of social.rs (re-extracted on every run): 34 x 34,
   0/1 tokens, symmetric, zero diagonal, 78 edges, equal to the Zachary
   reference edge list (NetworkX) *)
Theorem C16_karate_is_zachary :
  length karate_rows = 34%nat /\
  Forall (fun r => length r = 34%nat) karate_rows /\
  karate_tokens_clean = true /\ karate_node_bound = 34 /\
  karate_spec_keep_last = true /\ karate_spec_undirected = true /\
  (forall i j, (i < 34)%nat -> (j < 34)%nat -> mat_get karate_rows i j = mat_get karate_rows j i) /\
  (forall i, (i < 34)%nat -> mat_get karate_rows i i = false) /\
  count_true karate_rows = 156%nat /\
  length zachary_ref = 78%nat /\
  upper_pairs karate_rows 34 = zachary_ref.
Proof. exact karate_is_zachary. Qed.

(* and the graph karate_club_graph() builds from it: nodes 0..33, undirected,
   single edges, edge list = the 78 Zachary edges *)
Theorem C16_karate_graph :
  exists g, karate_club_graph karate_rows karate_node_bound = Ok g /\
            node_names g = zrange 34 /\ directed (sp g) = false /\ multi (sp g) = false /\
            edge_pairs g = zachary_ref.
Proof. exact karate_graph_is_zachary. Qed.

(* LINK TO THE GRAPH-STRUCTURE CORE.  Every graph state any of the three generators returns
   (complete_graph for every n and directedness; fast_gnp_random_graph for EVERY n, p, gap stream;
   karate_club_graph for ANY adjacency literal) is a state of a mutation history from the empty
   graph, hence satisfies the coherence invariant WF of all twelve fields (name type Z with
   Z.eqb / Z.ltb), and carries the GraphSpecs the generator names.  Every theorem of C01 / C02 /
   C09 / C15 stated for WF graphs therefore applies to generator output. *)
Theorem C16_generators_wf :
  (forall n dir g, complete_graph n dir = Ok g ->
     @WF Z unit Z.eqb Z.ltb g /\ sp g = with_create (if dir then specs_directed else specs_undirected)) /\
  (forall n p dir gaps g, fast_gnp_random_graph n p dir gaps = Ok g ->
     @WF Z unit Z.eqb Z.ltb g /\ sp g = with_create (if dir then specs_directed else specs_undirected)) /\
  (forall dat nn g, karate_club_graph dat nn = Ok g ->
     @WF Z unit Z.eqb Z.ltb g /\ sp g = with_keep_last specs_undirected).
Proof. exact generators_wf. Qed.

(* non-vacuity: under the hypotheses of C16_complete / C16_gnp_structural / C16_karate_graph the
   generators do return a graph, and it is WF *)
Theorem C16_generators_wf_total :
  (forall n dir, exists g, complete_graph n dir = Ok g /\ @WF Z unit Z.eqb Z.ltb g) /\
  (forall n p dir gaps, 0 <= n <= i32_max -> p_valid p ->
     Forall (fun k => 0 <= k) gaps -> gnp_slots n dir < Z.of_nat (length gaps) ->
     exists g, fast_gnp_random_graph n p dir gaps = Ok g /\ @WF Z unit Z.eqb Z.ltb g) /\
  (exists g, karate_club_graph karate_rows karate_node_bound = Ok g /\ @WF Z unit Z.eqb Z.ltb g).
Proof. exact generators_wf_total. Qed.

(* one structure theorem (the handshake identity of C09) instantiated at generator output *)
Theorem C16_complete_graph_handshake : forall n dir g,
  complete_graph n dir = Ok g ->
  sum_over (fun x => out_deg Z.eqb g x + in_deg Z.eqb g x)%nat (names g)
  = (2 * length (flat_map snd (edges g)))%nat.
Proof. exact complete_graph_handshake. Qed.
