(* Property C17 — A seed makes randomised functions reproducible.
   This file contains only the pinned statements; proofs live in Proofs/LouvainOk.v and
   Proofs/LouvainOrdOk.v.  The statements are repeated in coq/pins/C17.v and re-checked on every run.

   In the model the only inputs of louvain_partitions are its arguments and the seed-derived
   shuffle table, so "equal inputs give equal outputs" is trivially true of a Gallina function.
   The content of the property is independence from the iteration order of std's hash
   containers (re-keyed for every map, every call and every process); the theorems below state
   it for the three places where louvain.rs iterates such a container on a decision path, as
   repaired (F17): the candidate communities of a node, and the neighbour sets whose edge
   weights are accumulated - and, round 2, for the WHOLE ALGORITHM: Model/LouvainOrd.v is the same
   pipeline with the iteration order of every such container supplied by an arbitrary, stateful
   oracle, and C17_louvain_partitions_hash_order_independent /
   C17_louvain_communities_hash_order_independent say that the oracle cannot be observed in the
   result (value, error, panic site or fuel exhaustion), for every graph state.  Across processes
   and rayon pool sizes the property is checked on the implementation only (the property oracle),
   as is fast_gnp_random_graph (its model belongs to C16). *)
From Coq Require Import String List Bool ZArith QArith Permutation.
From GV Require Import Base.Outcome Base.AMap Model.GState Model.Query Model.Louvain Model.LouvainOrd
     Proofs.WFDefs Proofs.LouvainOk Proofs.LouvainGenGraphOk Proofs.LouvainOrdOk.
Import ListNotations.

(* the community chosen for a node does not depend on the order in which the HashMap of
   candidate communities is iterated *)
Theorem C17_best_com_order_independent : forall own l1 l2 di m res dir,
  Permutation l1 l2 -> NoDup (map fst l1) ->
  update_best_com own l1 di m res dir = update_best_com own l2 di m res dir.
Proof. exact update_best_com_order_independent. Qed.

(* the scan order itself is canonical *)
Theorem C17_scan_order_canonical : forall own l1 l2,
  Permutation l1 l2 -> NoDup (map fst l1) -> sort_candidates own l1 = sort_candidates own l2.
Proof. exact sort_candidates_perm. Qed.

(* the weights from a node to its neighbouring communities do not depend on the order in which
   the neighbour HashSet (successors, and predecessors when directed) is iterated *)
Theorem C17_neighbor_weights_order_independent :
  forall (g : lgraph) u nbrs1 nbrs2 node2com towards acc h1 h2,
    lookup Nat.eqb u nbrs1 = Some h1 -> lookup Nat.eqb u nbrs2 = Some h2 ->
    Permutation h1 h2 -> NoDup h1 ->
    neighbor_weights_into g u nbrs1 node2com towards acc =
    neighbor_weights_into g u nbrs2 node2com towards acc.
Proof. exact neighbor_weights_order_independent. Qed.

(* the order in which generate_graph accumulates the aggregated edge weights does not depend on
   the iteration order of the edge HashMap (the working graphs are single-edge: distinct pairs) *)
Theorem C17_edge_order_canonical : forall l1 l2 : list ledge,
  Permutation l1 l2 -> NoDup (map (fun e => (eu e, ev e)) l1) ->
  sort_by edge_ltb l1 = sort_by edge_ltb l2.
Proof. exact sort_edges_perm. Qed.

(* ------------------------------------------------------------------------------------------ *)
(* Round 2: the four local facts composed.  [h] is the order oracle of Model/LouvainOrd.v: at   *)
(* every site where louvain.rs hands the elements of a HashMap / HashSet to order-sensitive    *)
(* code, the iterator yields [fst (ho_* h o l)] for the container content [l] and the oracle   *)
(* state moves on.  The ONLY assumption is that the yielded sequence is a permutation of the   *)
(* content.  No hypothesis on the graph (coherent or not), the seed table, resolution,         *)
(* threshold or the fuels; the three hypotheses on teqb / tltb are the framework's standing    *)
(* ones on the name type.                                                                      *)
(* ------------------------------------------------------------------------------------------ *)

(* side condition of C17_best_com_order_independent, discharged: the keys of weights2com are
   distinct whenever get_neighbor_weights / add_predecessor_weights return *)
Theorem C17_weights2com_keys_distinct : forall (g : lgraph) u nbrs node2com towards acc0 r,
  NoDup (map fst acc0) ->
  neighbor_weights_into g u nbrs node2com towards acc0 = Ok r -> NoDup (map fst r).
Proof. exact neighbor_weights_keys. Qed.

(* side condition of C17_neighbor_weights_order_independent, removed: sorting naturals is
   canonical with or without repetitions *)
Theorem C17_sorted_neighbours_canonical : forall l1 l2 : list nat,
  Permutation l1 l2 -> sort_by Nat.ltb l1 = sort_by Nat.ltb l2.
Proof. exact sort_nat_perm_any. Qed.

(* side condition of C17_edge_order_canonical, discharged on every working graph: the first one
   is coherent and single-edge whatever the input state, generate_graph keeps that (C13) *)
Theorem C17_working_graph_edge_keys_distinct : forall g : lgraph,
  WF Nat.eqb Nat.ltb g -> multi (sp g) = false ->
  NoDup (map (fun e : ledge => (eu e, ev e)) (get_all_edges g)).
Proof. exact level_graph_keys. Qed.

(* one local-moving phase (compute_one_level), any graph state *)
Theorem C17_compute_one_level_hash_order_independent :
  forall (OS : Type) (h : hash_oracle OS),
    (forall o l, Permutation (fst (ho_cand h o l)) l) ->
    (forall o l, Permutation (fst (ho_nbr h o l)) l) ->
    (forall o l, Permutation (fst (ho_edge h o l)) l) ->
    forall o fuel (g : lgraph) m partition res perms,
      omap fst (compute_one_level_ord h o fuel g m partition res perms) =
      compute_one_level fuel g m partition res perms.
Proof. intros OS h H1 H2 H3. exact (compute_one_level_ord_eq h (mkOP OS h H1 H2 H3)). Qed.

(* the aggregation step (generate_graph) on a coherent single-edge working graph *)
Theorem C17_generate_graph_hash_order_independent :
  forall (OS : Type) (h : hash_oracle OS),
    (forall o l, Permutation (fst (ho_cand h o l)) l) ->
    (forall o l, Permutation (fst (ho_nbr h o l)) l) ->
    (forall o l, Permutation (fst (ho_edge h o l)) l) ->
    forall o (g : lgraph) partition,
      WF Nat.eqb Nat.ltb g -> multi (sp g) = false ->
      omap fst (generate_graph_ord h o g partition) = generate_graph g partition.
Proof.
  intros OS h H1 H2 H3 o g partition W Hm.
  exact (generate_graph_ord_eq h (mkOP OS h H1 H2 H3) o g partition (level_graph_keys g W Hm)).
Qed.

(* the whole algorithm *)
Theorem C17_louvain_partitions_hash_order_independent :
  forall (OS : Type) (h : hash_oracle OS),
    (forall o l, Permutation (fst (ho_cand h o l)) l) ->
    (forall o l, Permutation (fst (ho_nbr h o l)) l) ->
    (forall o l, Permutation (fst (ho_edge h o l)) l) ->
    forall (T A : Type) (teqb tltb : T -> T -> bool),
      (forall x y, teqb x y = true <-> x = y) ->
      (forall x y, tltb x y = true -> tltb y x = false) ->
      (forall x y, tltb x y = false -> tltb y x = false -> x = y) ->
      forall (o : OS) level_fuel sweep_fuel (g : gstate T A) weighted resolution thr perms,
        louvain_partitions_ord h teqb tltb o level_fuel sweep_fuel g weighted resolution thr perms =
        louvain_partitions teqb tltb level_fuel sweep_fuel g weighted resolution thr perms.
Proof.
  intros OS h H1 H2 H3 T A teqb tltb E1 E2 E3.
  exact (louvain_partitions_ord_eq h (mkOP OS h H1 H2 H3) teqb tltb E1 E2 E3).
Qed.

Theorem C17_louvain_communities_hash_order_independent :
  forall (OS : Type) (h : hash_oracle OS),
    (forall o l, Permutation (fst (ho_cand h o l)) l) ->
    (forall o l, Permutation (fst (ho_nbr h o l)) l) ->
    (forall o l, Permutation (fst (ho_edge h o l)) l) ->
    forall (T A : Type) (teqb tltb : T -> T -> bool),
      (forall x y, teqb x y = true <-> x = y) ->
      (forall x y, tltb x y = true -> tltb y x = false) ->
      (forall x y, tltb x y = false -> tltb y x = false -> x = y) ->
      forall (o : OS) level_fuel sweep_fuel (g : gstate T A) weighted resolution thr perms,
        louvain_communities_ord h teqb tltb o level_fuel sweep_fuel g weighted resolution thr perms =
        louvain_communities teqb tltb level_fuel sweep_fuel g weighted resolution thr perms.
Proof.
  intros OS h H1 H2 H3 T A teqb tltb E1 E2 E3.
  exact (louvain_communities_ord_eq h (mkOP OS h H1 H2 H3) teqb tltb E1 E2 E3).
Qed.

(* ------------------------------------------------------------------------------------------ *)
(* The content-only iteration sites (the elements only flow into another hash container; the   *)
(* model keeps its list representation there and applies no oracle): locally, the CONTENT of   *)
(* the produced container and the outcome class do not depend on the iteration order.  Not     *)
(* composed into the whole-algorithm theorems (that needs "equal as sets of sets").            *)
(* ------------------------------------------------------------------------------------------ *)

(* compute_one_level: HashSet::difference / union *)
Theorem C17_set_ops_content_only : forall a a' b b', same_set a a' -> same_set b b' ->
  same_set (set_diff a b) (set_diff a' b') /\ same_set (set_union a b) (set_union a' b').
Proof. exact set_ops_content_only. Qed.

(* convert_usize_partitons_to_t: renaming one community *)
Theorem C17_convert_back_community_order_free :
  forall (T : Type) (rev_map : list (nat * T)) (hs hs' : list nat), Permutation hs hs' ->
    outcome_rel (@Permutation T)
      (omapM (fun u => unwrap_at "louvain.rs:reverse_node_map unwrap" (lookup Nat.eqb u rev_map)) hs)
      (omapM (fun u => unwrap_at "louvain.rs:reverse_node_map unwrap" (lookup Nat.eqb u rev_map)) hs').
Proof. exact (@convert_back_community_order_free). Qed.

(* generate_graph: `for node in part` fills node2com (compared as a lookup function) and the
   attribute set of the new node (compared by membership); [gg_inner] is the loop body *)
Theorem C17_generate_graph_part_order_free : forall (g : lgraph), WF Nat.eqb Nat.ltb g ->
  forall i part part' n2c, Permutation part part' ->
    outcome_rel (fun r r' : list (nat * nat) * list nat =>
                   (forall u, lookup Nat.eqb u (fst r) = lookup Nat.eqb u (fst r')) /\ same_set (snd r) (snd r'))
                (ofold (gg_inner g i) part (n2c, [])) (ofold (gg_inner g i) part' (n2c, [])).
Proof. exact generate_graph_part_order_free. Qed.

(* non-vacuity: two oracles that satisfy the hypotheses and really permute - "iterate every table
   backwards", and a stateful one, "the k-th iteration of the run starts at offset k" - on the
   4-cycle and the 12-cycle (exact gain ties at every first visit): the three runs return the
   same one resp. two non-trivial levels *)
Theorem C17_hash_order_oracles_satisfy_hypotheses :
  ((forall o l, Permutation (fst (ho_cand rev_oracle o l)) l) /\
   (forall o l, Permutation (fst (ho_nbr rev_oracle o l)) l) /\
   (forall o l, Permutation (fst (ho_edge rev_oracle o l)) l)) /\
  ((forall o l, Permutation (fst (ho_cand rot_oracle o l)) l) /\
   (forall o l, Permutation (fst (ho_nbr rot_oracle o l)) l) /\
   (forall o l, Permutation (fst (ho_edge rot_oracle o l)) l)).
Proof.
  split; [destruct rev_oracle_perm as [a b c] | destruct rot_oracle_perm as [a b c]];
    (split; [exact a | split; [exact b | exact c]]).
Qed.

Theorem C17_hash_order_nonvacuous :
  fst (ho_cand rev_oracle tt [(1%nat, 1%Q); (3%nat, 1%Q)]) = [(3%nat, 1%Q); (1%nat, 1%Q)] /\
  fst (ho_nbr rot_oracle 1%nat [1; 3; 5]%nat) = [3; 5; 1]%nat /\
  match ord_ex_ring 4, ord_ex_ring 12 with
  | Ok g4, Ok g12 =>
    let expect4 := Ok [[[1; 0]; [3; 2]]]%Z in
    let expect12 := Ok [[[1; 0]; [3; 2]; [5; 4]; [7; 6]; [9; 8]; [11; 10]];
                        [[3; 2; 1; 0]; [7; 6; 5; 4]; [11; 10; 9; 8]]]%Z in
    louvain_partitions Z.eqb Z.ltb 10 50 g4 false 1%Q (1 # 10000000)%Q (ord_ex_perms 4) = expect4 /\
    louvain_partitions_ord rev_oracle Z.eqb Z.ltb tt 10 50 g4 false 1%Q (1 # 10000000)%Q (ord_ex_perms 4) = expect4 /\
    louvain_partitions_ord rot_oracle Z.eqb Z.ltb 1%nat 10 50 g4 false 1%Q (1 # 10000000)%Q (ord_ex_perms 4) = expect4 /\
    louvain_partitions Z.eqb Z.ltb 10 50 g12 false 1%Q (1 # 10000000)%Q (ord_ex_perms 12) = expect12 /\
    louvain_partitions_ord rev_oracle Z.eqb Z.ltb tt 10 50 g12 false 1%Q (1 # 10000000)%Q (ord_ex_perms 12) = expect12 /\
    louvain_partitions_ord rot_oracle Z.eqb Z.ltb 1%nat 10 50 g12 false 1%Q (1 # 10000000)%Q (ord_ex_perms 12) = expect12 /\
    louvain_communities_ord rev_oracle Z.eqb Z.ltb tt 10 50 g12 false 1%Q (1 # 10000000)%Q (ord_ex_perms 12) =
      Ok [[3; 2; 1; 0]; [7; 6; 5; 4]; [11; 10; 9; 8]]%Z
  | _, _ => False
  end.
Proof. exact ord_oracles_nonvacuous. Qed.

(* control: without the canonicalisation the order IS observable - the raw first-wins scan picks a
   different community for two tied candidates arriving in the opposite order *)
Theorem C17_raw_scan_is_order_sensitive :
  let di := mkdi [] [] [] [] [] [2%Q; 2%Q; 2%Q; 2%Q] 2%Q 0%Q 0%Q in
  let cands := [(1%nat, 1%Q); (3%nat, 1%Q)] in
  (do r <- scan_candidates di 4%Q 1%Q false cands 0%nat 0%Q []; Ok (fst (fst r))) = Ok 1%nat /\
  (do r <- scan_candidates di 4%Q 1%Q false (rev cands) 0%nat 0%Q []; Ok (fst (fst r))) = Ok 3%nat /\
  update_best_com 0 cands di 4%Q 1%Q false = update_best_com 0 (rev cands) di 4%Q 1%Q false.
Proof. exact ord_raw_scan_is_order_sensitive. Qed.
