(* Property C17 — A seed makes randomised functions reproducible.
   This file contains only the pinned statements; proofs live in Proofs/LouvainOk.v.  The
   statements are repeated in coq/pins/C17.v and re-checked on every run.

   In the model the only inputs of louvain_partitions are its arguments and the seed-derived
   shuffle table, so "equal inputs give equal outputs" is trivially true of a Gallina function.
   The content of the property is independence from the iteration order of std's hash
   containers (re-keyed for every map, every call and every process); the theorems below state
   it for the three places where louvain.rs iterates such a container on a decision path, as
   repaired (F17): the candidate communities of a node, and the neighbour sets whose edge
   weights are accumulated.  Across processes and rayon pool sizes the property is checked on
   the implementation only (the property oracle), as is fast_gnp_random_graph (its model belongs
   to C16). *)
From Coq Require Import List Bool ZArith QArith Permutation.
From GV Require Import Base.Outcome Base.AMap Model.GState Model.Louvain Proofs.LouvainOk.
Import ListNotations.

(* the community chosen for a node does not depend on the order in which the HashMap of
   candidate communities is iterated *)
Theorem C17_best_com_order_independent : forall own l1 l2 di m res dir,
  Permutation l1 l2 -> NoDup (map fst l1) ->
  update_best_com own l1 di m res dir = update_best_com own l2 di m res dir.
Proof. exact update_best_com_order_independent. Qed.

(* the scan order itself is canonical *)
Theorem C17_scan_order_canonical : forall own l1 l2,
  Permutation l1 l2 -> NoDup (map fst l1) -> sort_candidates own l1 = sort_candidates own l2.
Proof. exact sort_candidates_perm. Qed.

(* the weights from a node to its neighbouring communities do not depend on the order in which
   the neighbour HashSet (successors, and predecessors when directed) is iterated *)
Theorem C17_neighbor_weights_order_independent :
  forall (g : lgraph) u nbrs1 nbrs2 node2com towards acc h1 h2,
    lookup Nat.eqb u nbrs1 = Some h1 -> lookup Nat.eqb u nbrs2 = Some h2 ->
    Permutation h1 h2 -> NoDup h1 ->
    neighbor_weights_into g u nbrs1 node2com towards acc =
    neighbor_weights_into g u nbrs2 node2com towards acc.
Proof. exact neighbor_weights_order_independent. Qed.

(* the order in which generate_graph accumulates the aggregated edge weights does not depend on
   the iteration order of the edge HashMap (the working graphs are single-edge: distinct pairs) *)
Theorem C17_edge_order_canonical : forall l1 l2 : list ledge,
  Permutation l1 l2 -> NoDup (map (fun e => (eu e, ev e)) l1) ->
  sort_by edge_ltb l1 = sort_by edge_ltb l2.
Proof. exact sort_edges_perm. Qed.
