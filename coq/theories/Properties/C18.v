(* Property C18 — eigenvector centrality returns a unit-norm approximate
   dominant eigenvector.  Only pinned statements; proofs live in
   Proofs/EigenOk.v (any number structure with the ordered-field-with-sqrt laws
   [Laws]; closed under the global context) and Proofs/EigenReal.v (the
   instance of Coq's reals, which brings in the standard library's three
   axioms of Reals).  Repeated in coq/pins/C18.v and re-checked on every run.

   Not proved (stretch): C18_next_step_bound, i.e. ||T x - x||_1 <= L*n*tol for
   the returned x with an explicit Lipschitz constant L of
   T y = normalise (y + A^T y); the proved form of "approximate fixed point" is
   C18_approx_fixed_point (x = T xlast with ||x - xlast||_1 < n*tol).  The
   next-step bound itself is checked on the implementation's output by the
   property oracle of tools/p_c18.py.  That [spread] equals the matrix form
   xlast + A^T xlast is covered by the correspondence/oracle, not by a theorem. *)
From Coq Require Import String List Bool ZArith Arith QArith Reals.
From GV Require Import Base.Outcome Base.AMap Model.GState Model.Creation Model.Query Model.Eigen.
From GV Require Import Proofs.EigenOk Proofs.EigenReal.
Import ListNotations.

Section C18.
  Context {T A : Type}.
  Variable teqb : T -> T -> bool.
  Variable F : Num.
  Variable L : Laws F.
  Notation gstate := (gstate T A).

  (* F14 repaired: a multi-edge graph is refused, not a panic *)
  Theorem C18_multi_refused : forall (g : gstate) weighted max_iter tol,
    multi (sp g) = true -> eigenvector_centrality teqb F g weighted max_iter tol = Err WrongMethod.
  Proof. exact (ev_multi_refused teqb F). Qed.

  (* the only errors: WrongMethod (multi-edge) and PowerIterationFailedConvergence *)
  Theorem C18_error_kinds : forall (g : gstate) weighted max_iter tol k,
    eigenvector_centrality teqb F g weighted max_iter tol = Err k ->
    (multi (sp g) = true /\ k = WrongMethod) \/
    (multi (sp g) = false /\ k = PowerIterationFailedConvergence).
  Proof. exact (ev_err_kinds teqb F). Qed.

  (* Ok is returned only from a pass whose L1 test against the threshold succeeded ... *)
  Theorem C18_ok_only_from_passed_test : forall (g : gstate) weighted fuel thr x0 x,
    iterate teqb F fuel g weighted thr x0 = Ok x ->
    exists xlast x1 y,
      spread teqb F g weighted xlast = Ok x1 /\ x = normalise F x1 /\
      l1_change teqb F x xlast = Ok y /\ nltb F y thr = true.
  Proof. intros g weighted. exact (iterate_ok_inv teqb F g weighted). Qed.

  (* ... and when no pass within max_iter meets it, no vector is returned *)
  Theorem C18_err_on_exhaustion : forall fuel (g : gstate) weighted thr x,
    (forall y, In y (trace teqb F fuel g weighted thr x) -> nltb F y thr = false) ->
    forall r, iterate teqb F fuel g weighted thr x = Ok r -> False.
  Proof. exact (iterate_exhausted teqb F). Qed.

  Theorem C18_loop_error_is_convergence_failure : forall fuel (g : gstate) weighted thr x k,
    iterate teqb F fuel g weighted thr x = Err k -> k = PowerIterationFailedConvergence.
  Proof. exact (iterate_err_kind teqb F). Qed.

  (* the returned vector is normalise (xlast + A^T xlast) for an xlast within n*tol in L1 *)
  Theorem C18_approx_fixed_point : forall (g : gstate) weighted max_iter tol x,
    eigenvector_centrality teqb F g weighted max_iter tol = Ok x ->
    exists xlast x1 y,
      spread teqb F g weighted xlast = Ok x1 /\ x = normalise F x1 /\
      l1_change teqb F x xlast = Ok y /\
      nltb F y (threshold F g (match tol with Some q => nofQ F q | None => nofQ F (1 # 1000000) end)) = true.
  Proof. exact (ev_approx_fixed_point teqb F). Qed.

  (* one entry per node: the keys are those of the initial map, i.e. the node names *)
  Theorem C18_entries : forall (g : gstate) weighted max_iter tol x,
    eigenvector_centrality teqb F g weighted max_iter tol = Ok x ->
    weights_nonneg g = true -> keys x = keys (init_x teqb F g).
  Proof. exact (ev_entries teqb F L). Qed.

  Theorem C18_initial_keys_are_node_names :
    (forall x y, teqb x y = true <-> x = y) ->
    forall g : gstate, NoDup (map nname (nodes_vec g)) ->
    keys (init_x teqb F g) = map nname (nodes_vec g).
  Proof. exact (init_keys teqb F). Qed.

  (* all entries >= 0 when all stored weights are >= 0 *)
  Theorem C18_nonneg : forall (g : gstate) weighted max_iter tol x,
    eigenvector_centrality teqb F g weighted max_iter tol = Ok x ->
    weights_nonneg g = true -> Forall (fun kv => nn F L (snd kv)) x.
  Proof. exact (ev_nonneg teqb F L). Qed.

  (* Euclidean norm 1: the sum of squares of the returned entries is exactly 1 *)
  Theorem C18_unit_norm : forall (g : gstate) weighted max_iter tol x,
    eigenvector_centrality teqb F g weighted max_iter tol = Ok x ->
    weights_nonneg g = true -> sumsq F (values x) = n1 F.
  Proof. exact (ev_unit_norm teqb F L). Qed.
End C18.

(* the laws are satisfiable (Coq's reals), so none of the above is vacuous; at that instance: *)
Theorem C18_unit_norm_real : forall (g : gstate Z Z) weighted max_iter tol x,
  eigenvector_centrality Z.eqb NumR g weighted max_iter tol = Ok x ->
  weights_nonneg g = true -> sumsq NumR (values x) = 1%R.
Proof. exact (ev_unit_norm Z.eqb NumR LawsR). Qed.

Theorem C18_real_instance_nonvacuous :
  exists x, eigenvector_centrality Z.eqb NumR ex_g1 false (Some 1%nat) (Some (1 # 100)%Q) = Ok x /\
            weights_nonneg ex_g1 = true.
Proof. exact ex_real_ok. Qed.
