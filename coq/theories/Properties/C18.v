(* Property C18 — eigenvector centrality returns a unit-norm approximate
   dominant eigenvector.  Only pinned statements; proofs live in
   Proofs/EigenOk.v (any number structure with the ordered-field-with-sqrt laws
   [Laws]; closed under the global context), Proofs/EigenMatrix.v (the
   accumulation loop = (I + A^T) x over the edge store; generic [Num], only the
   four [SumLaws]: + commutative, associative, a+0 = a, a*0 = 0),
   Proofs/EigenWF.v (hypotheses discharged from the coherence invariant [WF],
   which holds in every reachable state), Proofs/EigenReal.v /
   Proofs/EigenBound.v / Proofs/EigenExample.v (the instance of Coq's reals,
   which brings in the standard library's three axioms of Reals).  Repeated in
   coq/pins/C18.v and re-checked on every run.

   Section C18     : the loop and the result, for any lawful number structure.
   Section C18_WF  : (a) [spread] equals the matrix form x + A^T x with A read off
                     [get_all_edges]; the returned x = normalise ((I + A^T) xlast) with
                     ||x - xlast||_1 < n*tol; "keys = node names" and "stored weights >= 0"
                     follow from WF + a premise over [get_all_edges]; corollaries for every
                     reachable graph / every graph built by new_from_nodes_and_edges.
   At R            : (b) the explicit next-step bound (see the statements below). *)
From Coq Require Import String List Bool ZArith Arith QArith Reals.
From GV Require Import Base.Outcome Base.AMap Model.GState Model.Creation Model.Query Model.Eigen Spec.History.
From GV Require Import Proofs.WFDefs Proofs.AdjOk Proofs.EigenOk Proofs.EigenReal Proofs.EigenMatrix Proofs.EigenWF Proofs.EigenBound Proofs.EigenExample.
Import ListNotations.

Section C18.
  Context {T A : Type}.
  Variable teqb : T -> T -> bool.
  Variable F : Num.
  Variable L : Laws F.
  Notation gstate := (gstate T A).

  (* F14 repaired: a multi-edge graph is refused, not a panic *)
  Theorem C18_multi_refused : forall (g : gstate) weighted max_iter tol,
    multi (sp g) = true -> eigenvector_centrality teqb F g weighted max_iter tol = Err WrongMethod.
  Proof. exact (ev_multi_refused teqb F). Qed.

  (* the only errors: WrongMethod (multi-edge) and PowerIterationFailedConvergence *)
  Theorem C18_error_kinds : forall (g : gstate) weighted max_iter tol k,
    eigenvector_centrality teqb F g weighted max_iter tol = Err k ->
    (multi (sp g) = true /\ k = WrongMethod) \/
    (multi (sp g) = false /\ k = PowerIterationFailedConvergence).
  Proof. exact (ev_err_kinds teqb F). Qed.

  (* Ok is returned only from a pass whose L1 test against the threshold succeeded ... *)
  Theorem C18_ok_only_from_passed_test : forall (g : gstate) weighted fuel thr x0 x,
    iterate teqb F fuel g weighted thr x0 = Ok x ->
    exists xlast x1 y,
      spread teqb F g weighted xlast = Ok x1 /\ x = normalise F x1 /\
      l1_change teqb F x xlast = Ok y /\ nltb F y thr = true.
  Proof. intros g weighted. exact (iterate_ok_inv teqb F g weighted). Qed.

  (* ... and when no pass within max_iter meets it, no vector is returned *)
  Theorem C18_err_on_exhaustion : forall fuel (g : gstate) weighted thr x,
    (forall y, In y (trace teqb F fuel g weighted thr x) -> nltb F y thr = false) ->
    forall r, iterate teqb F fuel g weighted thr x = Ok r -> False.
  Proof. exact (iterate_exhausted teqb F). Qed.

  Theorem C18_loop_error_is_convergence_failure : forall fuel (g : gstate) weighted thr x k,
    iterate teqb F fuel g weighted thr x = Err k -> k = PowerIterationFailedConvergence.
  Proof. exact (iterate_err_kind teqb F). Qed.

  (* the returned vector is normalise (xlast + A^T xlast) for an xlast within n*tol in L1 *)
  Theorem C18_approx_fixed_point : forall (g : gstate) weighted max_iter tol x,
    eigenvector_centrality teqb F g weighted max_iter tol = Ok x ->
    exists xlast x1 y,
      spread teqb F g weighted xlast = Ok x1 /\ x = normalise F x1 /\
      l1_change teqb F x xlast = Ok y /\
      nltb F y (threshold F g (match tol with Some q => nofQ F q | None => nofQ F (1 # 1000000) end)) = true.
  Proof. exact (ev_approx_fixed_point teqb F). Qed.

  (* one entry per node: the keys are those of the initial map, i.e. the node names *)
  Theorem C18_entries : forall (g : gstate) weighted max_iter tol x,
    eigenvector_centrality teqb F g weighted max_iter tol = Ok x ->
    weights_nonneg g = true -> keys x = keys (init_x teqb F g).
  Proof. exact (ev_entries teqb F L). Qed.

  Theorem C18_initial_keys_are_node_names :
    (forall x y, teqb x y = true <-> x = y) ->
    forall g : gstate, NoDup (map nname (nodes_vec g)) ->
    keys (init_x teqb F g) = map nname (nodes_vec g).
  Proof. exact (init_keys teqb F). Qed.

  (* all entries >= 0 when all stored weights are >= 0 *)
  Theorem C18_nonneg : forall (g : gstate) weighted max_iter tol x,
    eigenvector_centrality teqb F g weighted max_iter tol = Ok x ->
    weights_nonneg g = true -> Forall (fun kv => nn F L (snd kv)) x.
  Proof. exact (ev_nonneg teqb F L). Qed.

  (* Euclidean norm 1: the sum of squares of the returned entries is exactly 1 *)
  Theorem C18_unit_norm : forall (g : gstate) weighted max_iter tol x,
    eigenvector_centrality teqb F g weighted max_iter tol = Ok x ->
    weights_nonneg g = true -> sumsq F (values x) = n1 F.
  Proof. exact (ev_unit_norm teqb F L). Qed.
End C18.

(* ------------------------------------------------------------------------------------------
   Deepening: the model linked to the proved graph invariant WF and to the edge store. *)
Section C18_WF.
  Context {T A : Type}.
  Variable teqb : T -> T -> bool.
  Variable tltb : T -> T -> bool.
  Hypothesis teqb_spec : forall x y, teqb x y = true <-> x = y.
  Hypothesis tltb_asym : forall x y, tltb x y = true -> tltb y x = false.
  Hypothesis tltb_total : forall x y, tltb x y = false -> tltb y x = false -> x = y.
  Variable F : Num.
  Notation gstate := (gstate T A).
  Notation WF := (@WF T A teqb tltb).

  (* (a) the accumulation loop is x + A^T x over the EDGE STORE.  On every coherent single-edge
     graph, for every vector xlast indexed by the node names (in ANY order), the one-pass update
     does not panic, keeps the keys and sets, for every node v,
        x1[v] = xlast[v] + SUM over e in get_all_edges g with  ev e = v, or (undirected) eu e = v
                            [a self-loop (v,v) is one edge, so it is counted once]
                           of xlast[the other end of e] * w(e),
     w(e) = 1 when weighted = false or the weight is NaN.  Laws used: SumLaws (to reorder). *)
  Theorem C18_update_is_matrix_form : forall (SL : SumLaws F) (g : gstate) weighted (xlast : @xmap T F),
    WF g -> multi (sp g) = false ->
    NoDup (keys xlast) -> (forall k, In k (keys xlast) <-> In k (names g)) ->
    exists x1, spread teqb F g weighted xlast = Ok x1 /\ keys x1 = keys xlast /\
      forall v xv, lookup teqb v xlast = Some xv ->
        lookup teqb v x1 =
        Some (nadd F xv (nsum F (map (fun e => nmul F (xat teqb F xlast (other teqb v e)) (edge_w F weighted e))
                                     (filter (fun e => teqb (ev e) v || (negb (directed (sp g)) && teqb (eu e) v))
                                             (get_all_edges g))))).
  Proof.
    intros SL g weighted xlast W Hm Hnd Hk.
    exact (spread_edge_form teqb tltb teqb_spec tltb_asym tltb_total F SL g weighted W Hm xlast Hnd Hk).
  Qed.

  (* the same in node-indexed matrix form: x1[v] = xlast[v] + SUM_{u in names g} xlast[u] * A[u][v],
     A[u][v] = [aent g weighted u v] = w of the stored edge between u and v, 0 when there is none *)
  Theorem C18_update_is_matrix_form_entries : forall (SL : SumLaws F) (g : gstate) weighted (xlast : @xmap T F),
    WF g -> multi (sp g) = false ->
    NoDup (keys xlast) -> (forall k, In k (keys xlast) <-> In k (names g)) ->
    exists x1, spread teqb F g weighted xlast = Ok x1 /\ keys x1 = keys xlast /\
      forall v xv, lookup teqb v xlast = Some xv ->
        lookup teqb v x1 =
        Some (nadd F xv (nsum F (map (fun u => nmul F (xat teqb F xlast u) (aent teqb tltb F g weighted u v)) (names g)))).
  Proof.
    intros SL g weighted xlast W Hm Hnd Hk.
    exact (spread_matrix_form teqb tltb teqb_spec tltb_asym tltb_total F SL g weighted W Hm xlast Hnd Hk).
  Qed.

  (* A is the matrix of the edge store: at most one stored edge per pair, and symmetric when undirected *)
  Theorem C18_matrix_entry_from_store : forall (g : gstate) weighted u v,
    WF g -> multi (sp g) = false ->
    (stored_between teqb tltb g u v = [] /\ aent teqb tltb F g weighted u v = n0 F) \/
    (exists e, stored_between teqb tltb g u v = [e] /\ aent teqb tltb F g weighted u v = edge_w F weighted e).
  Proof. exact (aent_from_store teqb tltb teqb_spec F). Qed.

  Theorem C18_matrix_symmetric_when_undirected : forall (g : gstate) weighted u v,
    directed (sp g) = false -> aent teqb tltb F g weighted u v = aent teqb tltb F g weighted v u.
  Proof. exact (aent_sym teqb tltb tltb_asym tltb_total F). Qed.

  (* with no law of arithmetic at all: the terms are added in the order of xlast's keys *)
  Theorem C18_update_in_key_order : forall (g : gstate) weighted (xlast : @xmap T F),
    WF g -> multi (sp g) = false -> (forall k, In k (keys xlast) <-> In k (names g)) ->
    exists x1, spread teqb F g weighted xlast = Ok x1 /\ keys x1 = keys xlast /\
      forall v, lookup teqb v x1 =
                option_map (fun a => fold_left (acc_step teqb tltb F g weighted xlast v) (keys xlast) a)
                           (lookup teqb v xlast).
  Proof.
    intros g weighted xlast W Hm Hk.
    exact (spread_node_form teqb tltb teqb_spec tltb_asym tltb_total F g weighted W Hm xlast Hk).
  Qed.

  (* as one equation between vectors: spread = (I + A^T), in the edge-store and in the node-indexed form *)
  Theorem C18_update_is_matvec : forall (SL : SumLaws F) (g : gstate) weighted (xlast : @xmap T F),
    WF g -> multi (sp g) = false ->
    NoDup (keys xlast) -> (forall k, In k (keys xlast) <-> In k (names g)) ->
    spread teqb F g weighted xlast = Ok (matvec_e teqb F g weighted xlast) /\
    matvec_e teqb F g weighted xlast = matvec teqb tltb F g weighted xlast.
  Proof.
    intros SL g weighted xlast W Hm Hnd Hk. split.
    - exact (spread_is_matvec_e teqb tltb teqb_spec tltb_asym tltb_total F SL g weighted W Hm xlast Hnd Hk).
    - symmetry. exact (matvec_edge teqb tltb teqb_spec tltb_asym tltb_total F SL g weighted W Hm xlast Hnd Hk).
  Qed.

  (* hence: the returned vector is a fixed point, up to the tolerance, of x |-> normalise ((I + A^T) x)
     with A defined from the edge store: x = normalise ((I + A^T) xlast) for an xlast over the node
     names with ||x - xlast||_1 < n * tol *)
  Theorem C18_approx_eigenvector : forall (SL : SumLaws F) (g : gstate) weighted max_iter tol x,
    WF g ->
    eigenvector_centrality teqb F g weighted max_iter tol = Ok x ->
    exists xlast y,
      keys xlast = names g /\
      x = normalise F (matvec_e teqb F g weighted xlast) /\
      matvec_e teqb F g weighted xlast = matvec teqb tltb F g weighted xlast /\
      l1_change teqb F x xlast = Ok y /\
      nltb F y (threshold F g (match tol with Some q => nofQ F q | None => nofQ F (1 # 1000000) end)) = true.
  Proof.
    intros SL g weighted max_iter tol x W H.
    exact (ev_approx_eigenvector teqb tltb teqb_spec tltb_asym tltb_total F g weighted max_iter tol W SL x H).
  Qed.

  (* the structural hypotheses of the result theorems follow from WF and the public edge list *)
  Theorem C18_weights_nonneg_from_edge_list : forall g : gstate,
    WF g -> (forall e, In e (get_all_edges g) -> wnn e = true) -> weights_nonneg g = true.
  Proof. exact (weights_nonneg_of_store teqb tltb teqb_spec). Qed.

  Theorem C18_initial_keys_WF : forall g : gstate, WF g -> keys (init_x teqb F g) = names g.
  Proof. exact (init_keys_WF teqb tltb teqb_spec F). Qed.

  (* one entry per node (the node names, in node order), all >= 0, unit norm *)
  Theorem C18_result_WF : forall (L : Laws F) (g : gstate) weighted max_iter tol x,
    WF g -> (forall e, In e (get_all_edges g) -> wnn e = true) ->
    eigenvector_centrality teqb F g weighted max_iter tol = Ok x ->
    keys x = names g /\ Forall (fun kv => nn F L (snd kv)) x /\ sumsq F (values x) = n1 F.
  Proof.
    intros L g weighted max_iter tol x W Hw H.
    exact (ev_result_WF teqb tltb teqb_spec F g weighted max_iter tol W L Hw x H).
  Qed.

  (* ... in every state reachable by any history of mutations, and for every constructed graph *)
  Theorem C18_result_reachable : forall (L : Laws F) s (g : gstate) weighted max_iter tol x,
    reachable teqb tltb s g ->
    (forall e, In e (get_all_edges g) -> wnn e = true) ->
    eigenvector_centrality teqb F g weighted max_iter tol = Ok x ->
    keys x = names g /\ Forall (fun kv => nn F L (snd kv)) x /\ sumsq F (values x) = n1 F.
  Proof. exact (ev_result_reachable teqb tltb teqb_spec tltb_asym tltb_total F). Qed.

  Theorem C18_result_new_from : forall (L : Laws F) ns es s (g : gstate) weighted max_iter tol x,
    new_from_nodes_and_edges teqb tltb ns es s = Ok g ->
    (forall e, In e (get_all_edges g) -> wnn e = true) ->
    eigenvector_centrality teqb F g weighted max_iter tol = Ok x ->
    keys x = names g /\ Forall (fun kv => nn F L (snd kv)) x /\ sumsq F (values x) = n1 F.
  Proof. exact (ev_result_new_from teqb tltb teqb_spec tltb_asym tltb_total F). Qed.

  Theorem C18_approx_eigenvector_reachable : forall (SL : SumLaws F) s (g : gstate) weighted max_iter tol x,
    reachable teqb tltb s g ->
    eigenvector_centrality teqb F g weighted max_iter tol = Ok x ->
    exists xlast y,
      keys xlast = names g /\
      x = normalise F (matvec_e teqb F g weighted xlast) /\
      matvec_e teqb F g weighted xlast = matvec teqb tltb F g weighted xlast /\
      l1_change teqb F x xlast = Ok y /\
      nltb F y (threshold F g (match tol with Some q => nofQ F q | None => nofQ F (1 # 1000000) end)) = true.
  Proof. exact (ev_approx_eigenvector_reachable teqb tltb teqb_spec tltb_asym tltb_total F). Qed.
End C18_WF.

(* the laws are satisfiable (Coq's reals), so none of the above is vacuous; at that instance: *)
Theorem C18_unit_norm_real : forall (g : gstate Z Z) weighted max_iter tol x,
  eigenvector_centrality Z.eqb NumR g weighted max_iter tol = Ok x ->
  weights_nonneg g = true -> sumsq NumR (values x) = 1%R.
Proof. exact (ev_unit_norm Z.eqb NumR LawsR). Qed.

Theorem C18_real_instance_nonvacuous :
  exists x, eigenvector_centrality Z.eqb NumR ex_g1 false (Some 1%nat) (Some (1 # 100)%Q) = Ok x /\
            weights_nonneg ex_g1 = true.
Proof. exact ex_real_ok. Qed.

(* ------------------------------------------------------------------------------------------
   (b) the explicit next-step bound, at Coq's reals.  M = I + A^T with A = [aent] read off the
   edge store, [Mop g weighted f v] = f v + SUM_{u in names g} f u * A[u][v],
   [Wtot g weighted] = SUM_{u,v in names g} A[u][v], n = number of nodes, thr = n * tol. *)
Section C18_bound.
  Context {T A : Type}.
  Variable teqb : T -> T -> bool.
  Variable tltb : T -> T -> bool.
  Hypothesis teqb_spec : forall x y, teqb x y = true <-> x = y.
  Hypothesis tltb_asym : forall x y, tltb x y = true -> tltb y x = false.
  Hypothesis tltb_total : forall x y, tltb x y = false -> tltb y x = false -> x = y.
  Notation gstate := (gstate T A).
  Notation WF := (@WF T A teqb tltb).

  (* (lambda, x) is an approximate eigenpair of M in L1:  ||M x - lambda x||_1 < (1 + Wtot) * n * tol *)
  Theorem C18_eigen_residual_bound : forall (g : gstate) weighted max_iter tol x,
    WF g -> (forall e, In e (get_all_edges g) -> wnn e = true) ->
    eigenvector_centrality teqb NumR g weighted max_iter tol = Ok x ->
    exists lam : R, (0 < lam)%R /\
      (Rsum (fun v => Rabs (Mop teqb tltb g weighted (xat teqb NumR x) v - lam * xat teqb NumR x v)) (names g)
       < (1 + Wtot teqb tltb g weighted) *
         threshold NumR g (match tol with Some q => nofQ NumR q | None => nofQ NumR (1 # 1000000) end))%R.
  Proof.
    intros g weighted max_iter tol x W Hw H.
    exact (ev_residual_bound teqb tltb teqb_spec tltb_asym tltb_total g weighted max_iter tol W Hw x H).
  Qed.

  (* one further pass of the very loop, x |-> normalise (x + A^T x), does not panic and measures an
     L1 change below L * n * tol with the explicit constant L = (n + 1) * (1 + Wtot) *)
  Theorem C18_next_step_bound : forall (g : gstate) weighted max_iter tol x,
    WF g -> (forall e, In e (get_all_edges g) -> wnn e = true) ->
    eigenvector_centrality teqb NumR g weighted max_iter tol = Ok x ->
    exists x2 y2, step teqb NumR g weighted x = Ok (x2, y2) /\
                  x2 = normalise NumR (matvec teqb tltb NumR g weighted x) /\
                  (y2 < (INR (length (names g)) + 1) * (1 + Wtot teqb tltb g weighted) *
                        threshold NumR g (match tol with Some q => nofQ NumR q | None => nofQ NumR (1 # 1000000) end))%R.
  Proof.
    intros g weighted max_iter tol x W Hw H.
    exact (ev_next_step_bound teqb tltb teqb_spec tltb_asym tltb_total g weighted max_iter tol W Hw x H).
  Qed.

  Theorem C18_next_step_bound_reachable : forall s (g : gstate) weighted max_iter tol x,
    reachable teqb tltb s g -> (forall e, In e (get_all_edges g) -> wnn e = true) ->
    eigenvector_centrality teqb NumR g weighted max_iter tol = Ok x ->
    exists x2 y2, step teqb NumR g weighted x = Ok (x2, y2) /\
                  x2 = normalise NumR (matvec teqb tltb NumR g weighted x) /\
                  (y2 < (INR (length (names g)) + 1) * (1 + Wtot teqb tltb g weighted) *
                        threshold NumR g (match tol with Some q => nofQ NumR q | None => nofQ NumR (1 # 1000000) end))%R.
  Proof.
    intros s g weighted max_iter tol x Hr Hw H.
    exact (ev_next_step_bound teqb tltb teqb_spec tltb_asym tltb_total g weighted max_iter tol
             (HistoryOk.WF_reachable teqb tltb teqb_spec tltb_asym tltb_total s g Hr) Hw x H).
  Qed.
End C18_bound.

(* a concrete weighted run with every hypothesis of the deepened theorems satisfied: the undirected
   graph {0,1} w=1, {1,2} w=4, self-loop {2,2} w=4 built by a history; A = [[0,1,0],[1,0,4],[0,4,4]],
   (I + A^T)(1/3,1/3,1/3) = (2,6,9)/3 of norm 11/3, and the first pass returns (2,6,9)/11 *)
Theorem C18_weighted_example_result :
  eigenvector_centrality Z.eqb NumR ex_g3 true (Some 1%nat) (Some (1 # 3)%Q)
  = Ok [(0%Z, 2/11); (1%Z, 6/11); (2%Z, 9/11)]%R.
Proof. exact ex_g3_result. Qed.

Theorem C18_weighted_example_nonvacuous :
  exists x, eigenvector_centrality Z.eqb NumR ex_g3 true (Some 1%nat) (Some (1 # 3)%Q) = Ok x /\
            reachable Z.eqb Z.ltb ex_sp3 ex_g3 /\ WF Z.eqb Z.ltb ex_g3 /\ multi (sp ex_g3) = false /\
            (forall e, In e (get_all_edges ex_g3) -> wnn e = true) /\
            length (nodes_vec ex_g3) = 3%nat /\ length (get_all_edges ex_g3) = 3%nat.
Proof. exact ex_g3_nonvacuous. Qed.

Theorem C18_weighted_example_Wtot : Wtot Z.eqb Z.ltb ex_g3 true = 14%R.
Proof. exact ex_g3_Wtot. Qed.

Theorem C18_weighted_example_matrix :
  map (fun u => map (fun v => aent Z.eqb Z.ltb NumR ex_g3 true u v) [0%Z; 1%Z; 2%Z]) [0%Z; 1%Z; 2%Z]
  = [[0; 1; 0]; [1; 0; 4]; [0; 4; 4]]%R.
Proof. exact ex_g3_matrix. Qed.
