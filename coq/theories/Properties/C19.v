(* Property C19 — the GraphML reader never panics: any input yields Ok(valid graph) or Err.
   Only pinned statements; proofs live in Proofs/GraphMLOk.v.  [evs] ranges over
   EVERY sequence of results quick-xml's read_event_into can produce (start /
   empty / end / text / comment / other / eof / error, attribute items ok or erroneous),
   [parse] over every behaviour of str::parse::<f64>.
   Round 2: the refinement constructor model -> spec layer (Spec/AGraph.v spec_new_from), evaluated
   per case before (observation 8), is PROVED for every input and every name type
   (C19_constructor_refines_spec), hence the reader as a whole is characterised against the spec
   layer (C19_reader_refines_spec), and an Ok result satisfies the full coherence invariant
   (C19_ok_valid); observation 8 is kept as a tie between model and code. *)
From Coq Require Import List NArith ZArith Bool.
From GV Require Import Base.Outcome Base.AMap Model.GState Model.Creation Model.XmlEscape Model.GraphML.
From GV Require Import Spec.AGraph Spec.History Spec.GraphMLDef Proofs.WFDefs Proofs.Refine Proofs.EscapeOk Proofs.GraphMLOk Proofs.CreationNoPanic Proofs.ReaderTotal Proofs.GraphMLStateOk.
Import ListNotations.

(* the event loop (everything read_graphml_string does before calling the
   constructor) terminates and reaches none of its unwrap sites *)
Theorem C19_total_reader : forall (parse : bytes -> option weight) (evs : list event),
  exists r, read_elements parse evs = r /\ is_panic r = false /\ is_fuel r = false.
Proof. exact read_elements_total. Qed.

(* its only error is ReadError *)
Theorem C19_reader_error_kind : forall (parse : bytes -> option weight) (evs : list event) (k : errkind),
  read_elements parse evs = Err k -> k = ReadError.
Proof. exact read_elements_error_kind. Qed.

(* the result is ReadError exactly when the document is refused (a parser error anywhere, a malformed
   element, a weight that is no number) and otherwise the constructor (C01 semantics) applied to exactly
   the node elements of the document in order, the edge elements in order with their weight data, and
   the declared directedness; every event of the document is looked at (Spec/GraphMLDef.v doc_elems) *)
Theorem C19_ok_content : forall (parse : bytes -> option weight) (evs : list event) (s : specs),
  read_events parse evs s =
  match doc_content parse evs with
  | Some (d, ns, es) => new_from_nodes_and_edges bytes_eqb bytes_ltb ns es (with_directed d s)
  | None => Err ReadError
  end.
Proof. exact read_events_content. Qed.

(* read_graphml_string as a whole — event loop and Graph::new_from_nodes_and_edges — on EVERY event
   sequence, every parse oracle and every GraphSpecs: a value or an error, never a panic, never out of fuel
   (termination is structural: one event per step) *)
Theorem C19_total : forall (parse : bytes -> option weight) (evs : list event) (s : specs),
  exists r, read_events parse evs s = r /\ is_panic r = false /\ is_fuel r = false.
Proof. exact read_events_total. Qed.

(* the errors it can return *)
Theorem C19_error_kinds : forall (parse : bytes -> option weight) (evs : list event) (s : specs) (k : errkind),
  read_events parse evs s = Err k ->
  k = ReadError \/ k = SelfLoopsFound \/ k = NodeNotFound \/ k = DuplicateEdge.
Proof. exact read_events_error_kinds. Qed.

(* Ok g: the document was accepted with elements els, g is the constructor's result on exactly the node
   and edge elements of els, and g has the directedness the document declares *)
Theorem C19_ok_directed : forall (parse : bytes -> option weight) (evs : list event) (s : specs) (g : ggraph),
  read_events parse evs s = Ok g ->
  exists els,
    doc_elems parse evs s_weight LNone false = Some els /\
    new_from_nodes_and_edges bytes_eqb bytes_ltb (el_nodes els) (el_edges els)
      (with_directed (el_directed true els) s) = Ok g /\
    sp g = with_directed (el_directed true els) s /\
    directed (sp g) = el_directed true els.
Proof. exact read_events_ok. Qed.

(* the constructor itself, for any name type with decidable equality: no input makes it panic *)
Theorem C19_constructor_no_panic :
  forall (T A : Type) (teqb tltb : T -> T -> bool),
  (forall x y, teqb x y = true <-> x = y) ->
  forall (ns : list (node T A)) (es : list (edge T A)) (s : specs),
  is_panic (new_from_nodes_and_edges teqb tltb ns es s) = false /\
  is_fuel (new_from_nodes_and_edges teqb tltb ns es s) = false.
Proof. exact (@new_from_no_panic). Qed.

(* Ok g: the private indexes of g are coherent — every name index is in range, the adjacency vectors
   have one row per node, every stored pair has its adjacency entries (the part of graph validity that
   the later algorithms' index reads rely on) *)
Theorem C19_ok_indexes : forall (parse : bytes -> option weight) (evs : list event) (s : specs) (g : ggraph),
  read_events parse evs s = Ok g -> NP bytes_eqb g.
Proof. exact read_events_ok_indexes. Qed.

(* ---------------------------------------------------------------------------------------------
   Round 2: the constructor against the spec layer.  [Rep g a]: g satisfies the coherence invariant
   WF, has a's specs, a's node list, and stores a permutation of a's edge list.
   --------------------------------------------------------------------------------------------- *)

(* the policy ladder of the spec layer does not depend on the order of the abstract edge list *)
Theorem C19_spec_add_edge_permutation_invariant :
  forall (T A : Type) (teqb tltb : T -> T -> bool) (a b : agraph T A) (e : edge T A),
  aequiv a b ->
  snd (spec_add_edge teqb tltb a e) = snd (spec_add_edge teqb tltb b e) /\
  aequiv (fst (spec_add_edge teqb tltb a e)) (fst (spec_add_edge teqb tltb b e)).
Proof. exact (@spec_add_edge_equiv). Qed.

(* Graph::new_from_nodes_and_edges refines spec_new_from, on EVERY input, for any name type: the
   same error, or a valid state representing the abstract result; never a panic *)
Theorem C19_constructor_refines_spec :
  forall (T A : Type) (teqb tltb : T -> T -> bool),
  (forall x y, teqb x y = true <-> x = y) ->
  (forall x y, tltb x y = true -> tltb y x = false) ->
  (forall x y, tltb x y = false -> tltb y x = false -> x = y) ->
  forall (ns : list (node T A)) (es : list (edge T A)) (s : specs),
  match spec_new_from teqb tltb ns es s, new_from_nodes_and_edges teqb tltb ns es s with
  | Ok a, Ok g => Rep teqb tltb g a
  | Err k, Err k' => k = k'
  | _, _ => False
  end.
Proof. exact (@new_from_refines). Qed.

(* the reader as a whole against the spec layer *)
Theorem C19_reader_refines_spec : forall (parse : bytes -> option weight) (evs : list event) (s : specs),
  match doc_content parse evs with
  | Some (d, ns, es) =>
    match spec_new_from bytes_eqb bytes_ltb ns es (with_directed d s), read_events parse evs s with
    | Ok a, Ok g => Rep bytes_eqb bytes_ltb g a
    | Err k, Err k' => k = k'
    | _, _ => False
    end
  | None => read_events parse evs s = Err ReadError
  end.
Proof. exact read_events_refines_spec. Qed.

(* Ok g: g is a valid graph — a state reachable through the public mutation API, satisfying the full
   coherence invariant of all twelve fields (C01-C03), not only the index part NP of C19_ok_indexes *)
Theorem C19_ok_valid : forall (parse : bytes -> option weight) (evs : list event) (s : specs) (g : ggraph),
  read_events parse evs s = Ok g ->
  reachable bytes_eqb bytes_ltb (sp g) g /\ WF bytes_eqb bytes_ltb g.
Proof. exact read_events_ok_valid. Qed.
