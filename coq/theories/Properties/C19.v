(* Property C19 — the GraphML reader never panics: any input yields Ok(valid graph) or Err.
   Only pinned statements; proofs live in Proofs/GraphMLOk.v.  [evs] ranges over
   EVERY sequence of results quick-xml's read_event_into can produce (start /
   empty / end / text / other / eof / error, attribute items ok or erroneous),
   [parse] over every behaviour of str::parse::<f64>. *)
From Coq Require Import List NArith ZArith Bool.
From GV Require Import Base.Outcome Base.AMap Model.GState Model.Creation Model.XmlEscape Model.GraphML.
From GV Require Import Spec.GraphMLDef Proofs.EscapeOk Proofs.GraphMLOk.
Import ListNotations.

(* the event loop (everything read_graphml_string does before calling the
   constructor) terminates and reaches none of its unwrap sites *)
Theorem C19_total_reader : forall (parse : bytes -> option weight) (evs : list event),
  exists r, read_elements parse evs = r /\ is_panic r = false /\ is_fuel r = false.
Proof. exact read_elements_total. Qed.

(* its only error is ReadError *)
Theorem C19_reader_error_kind : forall (parse : bytes -> option weight) (evs : list event) (k : errkind),
  read_elements parse evs = Err k -> k = ReadError.
Proof. exact read_elements_error_kind. Qed.

(* the result is ReadError exactly when the document is refused and otherwise the
   constructor (C01 semantics) applied to exactly the node elements in order, the
   edge elements in order with their weight data, and the declared directedness *)
Theorem C19_ok_content : forall (parse : bytes -> option weight) (evs : list event) (s : specs),
  read_events parse evs s =
  match doc_content parse evs with
  | Some (d, ns, es) => new_from_nodes_and_edges bytes_eqb bytes_ltb ns es (with_directed d s)
  | None => Err ReadError
  end.
Proof. exact read_events_content. Qed.
