(* Property C20 — Valid calls on degenerate graphs return values or errors, never panic.
   Only pinned statements.  This file covers the graph-structure API (mutations and
   queries, whose models mark every unwrap / index / lookup of the Rust code as a Panic
   site); the algorithm families carry their own no-panic / fuel-suffices theorems in
   C04-C06, C10-C13, C18, C19.  The sweep over ALL public functions x 8 graph kinds x
   degenerate shapes is the correspondence/oracle part of the check (harness mode `api`). *)
From Coq Require Import List Bool.
From GV Require Import Base.Outcome Base.AMap Model.GState Model.Creation Model.Query Spec.AGraph Spec.History.
From GV Require Import Model.Derived.
From GV Require Import Proofs.WFDefs Proofs.HistoryOk Proofs.QueryOk Proofs.DegreeOk Proofs.NoPanic Proofs.DerivedContent.
Import ListNotations.

Section C20.
  Context {T A : Type}.
  Variable teqb : T -> T -> bool.
  Variable tltb : T -> T -> bool.
  Hypothesis teqb_spec : forall x y, teqb x y = true <-> x = y.
  Hypothesis tltb_asym : forall x y, tltb x y = true -> tltb y x = false.
  Hypothesis tltb_total : forall x y, tltb x y = false -> tltb y x = false -> x = y.
  Notation gstate := (gstate T A).
  Notation WF := (@WF T A teqb tltb).

  Theorem C20_add_edge_never_panics : forall (g : gstate) e,
    WF g -> is_panic (snd (add_edge teqb tltb g e)) = false /\ is_fuel (snd (add_edge teqb tltb g e)) = false.
  Proof. exact (add_edge_no_panic teqb tltb teqb_spec tltb_asym tltb_total). Qed.

  Theorem C20_add_node_never_panics : forall (g : gstate) n, WF g -> exists g', add_node teqb g n = Ok g'.
  Proof. exact (add_node_no_panic teqb tltb teqb_spec). Qed.

  Theorem C20_get_edge_never_panics : forall (g : gstate) u v, WF g -> is_panic (get_edge teqb g u v) = false.
  Proof. exact (get_edge_no_panic teqb tltb teqb_spec tltb_asym tltb_total). Qed.

  Theorem C20_get_edges_never_panics : forall (g : gstate) u v, WF g -> is_panic (get_edges teqb g u v) = false.
  Proof. exact (get_edges_no_panic teqb tltb teqb_spec tltb_asym tltb_total). Qed.

  (* existing names: the per-node queries return Ok (C02_out_edges / C02_in_edges /
     C02_edges_for_node, C09_degree ...); absent names use the error channel *)
  Theorem C20_edges_for_node_absent : forall (g : gstate) x,
    WF g -> ~ In x (names g) -> get_edges_for_node teqb tltb g x = Err NodeNotFound.
  Proof. exact (get_edges_for_node_absent teqb tltb teqb_spec). Qed.

  Theorem C20_degree_absent : forall (g : gstate) x,
    WF g -> ~ In x (names g) -> get_node_degree teqb tltb g x = Ok None.
  Proof. exact (get_node_degree_absent teqb tltb teqb_spec). Qed.

  Theorem C20_in_edges_absent : forall (g : gstate) x,
    WF g -> ~ In x (names g) ->
    get_in_edges_for_node teqb g x = Err (if directed (sp g) then NodeNotFound else WrongMethod).
  Proof. exact (get_in_edges_for_node_absent teqb tltb teqb_spec). Qed.

  Theorem C20_out_edges_absent : forall (g : gstate) x,
    WF g -> ~ In x (names g) ->
    get_out_edges_for_node teqb g x = Err (if directed (sp g) then NodeNotFound else WrongMethod).
  Proof. exact (get_out_edges_for_node_absent teqb tltb teqb_spec). Qed.

  Theorem C20_directed_only_queries_refuse : forall (g : gstate) x,
    directed (sp g) = false ->
    get_in_edges_for_node teqb g x = Err WrongMethod /\ get_out_edges_for_node teqb g x = Err WrongMethod /\
    get_predecessor_nodes teqb g x = Err WrongMethod /\ get_successor_nodes teqb g x = Err WrongMethod.
  Proof. exact (in_out_edges_wrong_kind teqb). Qed.

  (* functions without an error channel: get_subgraph and set_all_edge_weights unwrap the
     constructor's Result; under WF that unwrap is never reached with an Err *)
  Theorem C20_get_subgraph_never_panics : forall (g : gstate) xs,
    WF g -> exists h, get_subgraph teqb tltb g xs = Ok h.
  Proof.
    intros g xs W. destruct (get_subgraph_content teqb tltb teqb_spec tltb_total g xs W) as (h & H & _).
    exists h. exact H.
  Qed.

  Theorem C20_set_all_edge_weights_never_panics : forall (g : gstate) w,
    WF g -> exists h, set_all_edge_weights teqb tltb g w = Ok h.
  Proof.
    intros g w W. destruct (set_all_edge_weights_content teqb tltb teqb_spec tltb_total g w W) as (h & H & _).
    exists h. exact H.
  Qed.

  (* existing names: per-node queries and degrees return values *)
  Theorem C20_degree_existing : forall (g : gstate) x,
    WF g -> In x (names g) -> exists k, get_node_degree teqb tltb g x = Ok (Some k).
  Proof.
    intros g x W Hx. eexists. apply (get_node_degree_spec teqb tltb teqb_spec tltb_total g x W Hx).
  Qed.

  Theorem C20_neighbor_nodes_existing : forall (g : gstate) x,
    WF g -> In x (names g) -> exists l, get_neighbor_nodes teqb g x = Ok l.
  Proof.
    intros g x W Hx. destruct (get_neighbor_nodes_spec teqb tltb g x W Hx) as (l & H & _). exists l. exact H.
  Qed.
End C20.
