(* Property C20 — Valid calls on degenerate graphs return values or errors, never panic.
   Only pinned statements.  First part: the graph-structure API (mutations and queries, whose
   models mark every unwrap / index / lookup of the Rust code as a Panic site) and the shortest-path
   entry points.  Second part (section C20_rollup and below): THE ROLL-UP - one C20_total_<function>
   per other modelled public algorithm entry point (centrality, clustering, components, community,
   generators, GraphML), derived from the family theorems of C05, C06, C09-C13, C16, C18, C14/C19 in
   Proofs/TotalAll.v and Proofs/LouvainTotal.v, with one evaluated non-vacuity example per family.
   The inventory of ALL public functions is DESIGN.md section 0.10.11 (tools/c20_inventory.py).  The
   sweep over ALL public functions x 8 graph kinds x degenerate shapes is the correspondence/oracle
   part of the check (harness mode `api`). *)
From Coq Require Import List Bool.
From GV Require Import Base.Outcome Base.AMap Model.GState Model.Creation Model.Query Spec.AGraph Spec.History.
From GV Require Import Model.Derived.
From GV Require Import Proofs.WFDefs Proofs.HistoryOk Proofs.QueryOk Proofs.DegreeOk Proofs.NoPanic Proofs.DerivedContent Proofs.QueryTotal.
From Coq Require Import ZArith QArith String.
From GV Require Import Model.Dijkstra Spec.EdgeStoreGraph Proofs.DijkstraTotalOk Proofs.DijkstraModelOk Proofs.DijkstraErrKind Proofs.DijkstraWF Proofs.DijkstraWFExamples.
Import ListNotations.

Section C20.
  Context {T A : Type}.
  Variable teqb : T -> T -> bool.
  Variable tltb : T -> T -> bool.
  Hypothesis teqb_spec : forall x y, teqb x y = true <-> x = y.
  Hypothesis tltb_asym : forall x y, tltb x y = true -> tltb y x = false.
  Hypothesis tltb_total : forall x y, tltb x y = false -> tltb y x = false -> x = y.
  Notation gstate := (gstate T A).
  Notation WF := (@WF T A teqb tltb).

  Theorem C20_add_edge_never_panics : forall (g : gstate) e,
    WF g -> is_panic (snd (add_edge teqb tltb g e)) = false /\ is_fuel (snd (add_edge teqb tltb g e)) = false.
  Proof. exact (add_edge_no_panic teqb tltb teqb_spec tltb_asym tltb_total). Qed.

  Theorem C20_add_node_never_panics : forall (g : gstate) n, WF g -> exists g', add_node teqb g n = Ok g'.
  Proof. exact (add_node_no_panic teqb tltb teqb_spec). Qed.

  Theorem C20_get_edge_never_panics : forall (g : gstate) u v, WF g -> is_panic (get_edge teqb g u v) = false.
  Proof. exact (get_edge_no_panic teqb tltb teqb_spec tltb_asym tltb_total). Qed.

  Theorem C20_get_edges_never_panics : forall (g : gstate) u v, WF g -> is_panic (get_edges teqb g u v) = false.
  Proof. exact (get_edges_no_panic teqb tltb teqb_spec tltb_asym tltb_total). Qed.

  (* existing names: the per-node queries return Ok (C02_out_edges / C02_in_edges /
     C02_edges_for_node, C09_degree ...); absent names use the error channel *)
  Theorem C20_edges_for_node_absent : forall (g : gstate) x,
    WF g -> ~ In x (names g) -> get_edges_for_node teqb tltb g x = Err NodeNotFound.
  Proof. exact (get_edges_for_node_absent teqb tltb teqb_spec). Qed.

  Theorem C20_degree_absent : forall (g : gstate) x,
    WF g -> ~ In x (names g) -> get_node_degree teqb tltb g x = Ok None.
  Proof. exact (get_node_degree_absent teqb tltb teqb_spec). Qed.

  Theorem C20_in_edges_absent : forall (g : gstate) x,
    WF g -> ~ In x (names g) ->
    get_in_edges_for_node teqb g x = Err (if directed (sp g) then NodeNotFound else WrongMethod).
  Proof. exact (get_in_edges_for_node_absent teqb tltb teqb_spec). Qed.

  Theorem C20_out_edges_absent : forall (g : gstate) x,
    WF g -> ~ In x (names g) ->
    get_out_edges_for_node teqb g x = Err (if directed (sp g) then NodeNotFound else WrongMethod).
  Proof. exact (get_out_edges_for_node_absent teqb tltb teqb_spec). Qed.

  Theorem C20_directed_only_queries_refuse : forall (g : gstate) x,
    directed (sp g) = false ->
    get_in_edges_for_node teqb g x = Err WrongMethod /\ get_out_edges_for_node teqb g x = Err WrongMethod /\
    get_predecessor_nodes teqb g x = Err WrongMethod /\ get_successor_nodes teqb g x = Err WrongMethod.
  Proof. exact (in_out_edges_wrong_kind teqb). Qed.

  (* functions without an error channel: get_subgraph and set_all_edge_weights unwrap the
     constructor's Result; under WF that unwrap is never reached with an Err *)
  Theorem C20_get_subgraph_never_panics : forall (g : gstate) xs,
    WF g -> exists h, get_subgraph teqb tltb g xs = Ok h.
  Proof.
    intros g xs W. destruct (get_subgraph_content teqb tltb teqb_spec tltb_total g xs W) as (h & H & _).
    exists h. exact H.
  Qed.

  Theorem C20_set_all_edge_weights_never_panics : forall (g : gstate) w,
    WF g -> exists h, set_all_edge_weights teqb tltb g w = Ok h.
  Proof.
    intros g w W. destruct (set_all_edge_weights_content teqb tltb teqb_spec tltb_total g w W) as (h & H & _).
    exists h. exact H.
  Qed.

  (* existing names: per-node queries and degrees return values *)
  Theorem C20_degree_existing : forall (g : gstate) x,
    WF g -> In x (names g) -> exists k, get_node_degree teqb tltb g x = Ok (Some k).
  Proof.
    intros g x W Hx. eexists. apply (get_node_degree_spec teqb tltb teqb_spec tltb_total g x W Hx).
  Qed.

  Theorem C20_neighbor_nodes_existing : forall (g : gstate) x,
    WF g -> In x (names g) -> exists l, get_neighbor_nodes teqb g x = Ok l.
  Proof.
    intros g x W Hx. destruct (get_neighbor_nodes_spec teqb tltb g x W Hx) as (l & H & _). exists l. exact H.
  Qed.
  (* ---- the complete list: every modelled query of query.rs / degree.rs and the two
     Result-returning constructors of convert.rs, for EVERY argument (present or absent names,
     any kind of graph): the outcome is Ok or Err, never a Panic site, never out of fuel ---- *)
  Theorem C20_every_query_total : forall (g : gstate), WF g ->
    (forall x, total (get_node teqb g x) = true /\ total (has_node teqb g x) = true /\
               total (get_edges_for_node teqb tltb g x) = true /\
               total (get_in_edges_for_node teqb g x) = true /\ total (get_out_edges_for_node teqb g x) = true /\
               total (get_neighbor_nodes teqb g x) = true /\
               total (get_successor_nodes teqb g x) = true /\ total (get_predecessor_nodes teqb g x) = true /\
               total (get_successor_node_names teqb g x) = true /\ total (get_predecessor_node_names teqb g x) = true /\
               total (get_node_degree teqb tltb g x) = true /\
               total (get_node_in_degree teqb g x) = true /\ total (get_node_out_degree teqb g x) = true /\
               total (get_node_weighted_degree teqb tltb g x) = true /\
               total (get_node_weighted_in_degree teqb g x) = true /\
               total (get_node_weighted_out_degree teqb g x) = true) /\
    (forall u v, total (get_edge teqb g u v) = true /\ total (get_edges teqb g u v) = true) /\
    (forall xs, total (has_nodes teqb g xs) = true /\ total (get_edges_for_nodes teqb g xs) = true /\
                total (get_in_edges_for_nodes teqb g xs) = true /\ total (get_out_edges_for_nodes teqb g xs) = true) /\
    total (reverse teqb tltb g) = true /\ total (to_single_edges teqb tltb g) = true.
  Proof. exact (queries_total teqb tltb teqb_spec tltb_asym tltb_total). Qed.

  Theorem C20_total_means_value_or_error : forall X (r : outcome X),
    total r = true <-> (exists x, r = Ok x) \/ (exists k, r = Err k).
  Proof. exact @total_cases. Qed.

  (* the *_for_all_nodes maps unwrap one per-node call per node (degree.rs): every one of those
     calls is made on an existing name and returns Some, so the maps are total, with one entry per
     node in node order; the directed-only ones answer WrongMethod on an undirected graph *)
  Theorem C20_degree_maps_total : forall (g : gstate), WF g ->
    (exists l, get_degree_for_all_nodes teqb tltb g = Ok l /\ map fst l = names g) /\
    (exists l, get_weighted_degree_for_all_nodes teqb tltb g = Ok l /\ map fst l = names g) /\
    (if directed (sp g) then exists l, get_in_degree_for_all_nodes teqb g = Ok l /\ map fst l = names g
     else get_in_degree_for_all_nodes teqb g = Err WrongMethod) /\
    (if directed (sp g) then exists l, get_out_degree_for_all_nodes teqb g = Ok l /\ map fst l = names g
     else get_out_degree_for_all_nodes teqb g = Err WrongMethod) /\
    (if directed (sp g) then exists l, get_weighted_in_degree_for_all_nodes teqb g = Ok l /\ map fst l = names g
     else get_weighted_in_degree_for_all_nodes teqb g = Err WrongMethod) /\
    (if directed (sp g) then exists l, get_weighted_out_degree_for_all_nodes teqb g = Ok l /\ map fst l = names g
     else get_weighted_out_degree_for_all_nodes teqb g = Err WrongMethod).
  Proof.
    intros g W. repeat split.
    - exact (get_degree_for_all_nodes_total teqb tltb teqb_spec tltb_total g W).
    - exact (get_weighted_degree_for_all_nodes_total teqb tltb teqb_spec tltb_total g W).
    - exact (get_in_degree_for_all_nodes_total teqb tltb teqb_spec g W).
    - exact (get_out_degree_for_all_nodes_total teqb tltb teqb_spec g W).
    - exact (get_weighted_in_degree_for_all_nodes_total teqb tltb teqb_spec g W).
    - exact (get_weighted_out_degree_for_all_nodes_total teqb tltb teqb_spec g W).
  Qed.

  (* no error channel: get_successors_or_neighbors unwraps; total on existing names *)
  Theorem C20_successors_or_neighbors_existing : forall (g : gstate) x,
    WF g -> In x (names g) -> exists l, get_successors_or_neighbors teqb g x = Ok l.
  Proof. exact (get_successors_or_neighbors_total teqb tltb). Qed.

  (* the sparse adjacency matrix of a single-edge graph never indexes an empty edge group *)
  Theorem C20_matrix_total : forall (g : gstate),
    WF g -> multi (sp g) = false -> total (matrix_triplets g) = true.
  Proof. exact (matrix_total teqb tltb tltb_asym tltb_total). Qed.

  (* hence for every graph the API can build: any history of mutations from new(specs) *)
  Theorem C20_every_query_total_after_any_history : forall s (g : gstate) (x u v : T) xs,
    reachable teqb tltb s g ->
    total (get_node teqb g x) = true /\ total (get_edge teqb g u v) = true /\ total (get_edges teqb g u v) = true /\
    total (get_edges_for_node teqb tltb g x) = true /\ total (get_neighbor_nodes teqb g x) = true /\
    total (get_node_degree teqb tltb g x) = true /\ total (get_edges_for_nodes teqb g xs) = true /\
    total (reverse teqb tltb g) = true /\ total (to_single_edges teqb tltb g) = true.
  Proof.
    intros s g x u v xs R.
    pose proof (WF_reachable teqb tltb teqb_spec tltb_asym tltb_total s g R) as W.
    destruct (queries_total teqb tltb teqb_spec tltb_asym tltb_total g W) as (H1 & H2 & H3 & H4 & H5).
    destruct (H1 x) as (a & _ & b & _ & _ & c & _ & _ & _ & _ & d & _).
    destruct (H2 u v) as (e & f). destruct (H3 xs) as (_ & h & _).
    repeat split; assumption.
  Qed.

  (* ---- the shortest-path entry points (dijkstra.rs) on every WF graph ----
     [fine o] = o is Ok or Err: no Panic, no OutOfFuel.  [small_adj]: fewer than 2^31-1
     adjacency entries (the i32 counter of dijkstra.rs overflows — panics in a debug
     build — beyond that); true for every graph of at most 46340 nodes. *)

  (* index level, ANY weights (negative ones may give Err ContradictoryPaths), any
     options, any cutoff *)
  Theorem C20_dijkstra_never_panics : forall (g : gstate) weighted src target cutoff fo wp,
    WF g -> small_adj g -> (src < number_of_nodes g)%nat ->
    fine (dijkstra g weighted src target cutoff fo wp).
  Proof. exact (wf_dijkstra_fine teqb tltb). Qed.

  Theorem C20_dijkstra_basic_never_panics : forall (g : gstate) weighted src,
    WF g -> small_adj g -> (src < number_of_nodes g)%nat -> fine (dijkstra_basic g weighted src).
  Proof. exact (wf_dijkstra_basic_fine teqb tltb). Qed.

  (* single_source: ANY weights, ANY source / target names (absent: Err NodeNotFound),
     ANY cutoff *)
  Theorem C20_single_source_never_panics : forall (g : gstate) weighted source target cutoff fo wp,
    WF g -> small_adj g -> fine (single_source teqb g weighted source target cutoff fo wp).
  Proof. exact (wf_single_source_fine teqb tltb). Qed.

  (* multi_source / all_pairs: ANY weights (negative ones included), ANY source / target names,
     ANY options, ANY cutoff.  They collect the per-source `Result`s into `Result<Vec<_>, Error>` and
     propagate the error with `?` (repair of F22; before it they `.unwrap()`ed the per-source Result at
     dijkstra.rs:376 / :172, so a ContradictoryPaths was a panic and these two statements carried
     "non-negative weights, cutoff >= 0" and the suffix _partial).  What remains a hypothesis is
     [small_adj] alone — the i32 counter, as for single_source. *)
  Theorem C20_multi_source_never_panics : forall threads (g : gstate) weighted sources target cutoff fo wp,
    WF g -> small_adj g ->
    fine (multi_source teqb threads g weighted sources target cutoff fo wp).
  Proof. exact (wf_multi_source_fine teqb tltb teqb_spec). Qed.

  Theorem C20_all_pairs_never_panics : forall threads (g : gstate) weighted target cutoff fo wp,
    WF g -> small_adj g ->
    fine (all_pairs teqb threads g weighted target cutoff fo wp).
  Proof. exact (wf_all_pairs_fine teqb tltb). Qed.

  (* ... and the error channel is used with the documented kinds only (every graph state):
     NodeNotFound for an absent name, EdgeWeightNotSpecified for weighted = true on a store with an
     unweighted edge, ContradictoryPaths when a per-source search meets a negative weight *)
  Theorem C20_multi_source_error_kinds : forall threads (g : gstate) weighted sources target cutoff fo wp k,
    multi_source teqb threads g weighted sources target cutoff fo wp = Err k ->
    k = NodeNotFound \/ k = ContradictoryPaths.
  Proof. exact (multi_source_err teqb). Qed.

  Theorem C20_all_pairs_error_kinds : forall threads (g : gstate) weighted target cutoff fo wp k,
    all_pairs teqb threads g weighted target cutoff fo wp = Err k ->
    k = EdgeWeightNotSpecified \/ k = NodeNotFound \/ k = ContradictoryPaths.
  Proof. exact (all_pairs_err teqb). Qed.

  Theorem C20_single_source_error_kinds : forall (g : gstate) weighted source target cutoff fo wp k,
    single_source teqb g weighted source target cutoff fo wp = Err k ->
    k = NodeNotFound \/ k = ContradictoryPaths.
  Proof. exact (single_source_err teqb). Qed.

  (* get_all_shortest_paths_involving has no error channel (it returns a Vec).  It does NOT unwrap
     all_pairs: dijkstra.rs:610-612 is `match all_pairs(..) { Err(_) => vec![], Ok(pairs) => .. }`, so
     once all_pairs returns its Err instead of panicking, this function returns the empty vector:
     also FULL for any weights and any name (an absent name just matches no path). *)
  Theorem C20_involving_never_panics : forall threads (g : gstate) (x : T) weighted,
    WF g -> small_adj g ->
    exists l, get_all_shortest_paths_involving teqb threads g x weighted = Ok l.
  Proof. exact (wf_involving_fine teqb tltb). Qed.

  Theorem C20_involving_of_error : forall threads (g : gstate) (x : T) weighted k,
    all_pairs teqb threads g weighted None None false true = Err k ->
    get_all_shortest_paths_involving teqb threads g x weighted = Ok [].
  Proof. exact (involving_of_err teqb). Qed.
End C20.

(* A reachable (hence WF), small graph with a negative weight — F22's graph: directed 1->2 (1),
   1->3 (2), 3->2 (-5), weighted = true: single_source, multi_source and all_pairs all return
   Err ContradictoryPaths (before the repair the last two panicked at dijkstra.rs:376 / :172),
   get_all_shortest_paths_involving returns the empty vector, hop-count mode answers.  So the
   theorems above are not vacuous on weights that are not "valid". *)
Example C20_negative_weights_err :
  match ex_neg with
  | Ok g =>
    WF Z.eqb Z.ltb g /\ small_adj g /\ ~ weights_nonneg g /\
    single_source Z.eqb g true 1%Z None None false true = Err ContradictoryPaths /\
    multi_source Z.eqb 1 g true [1%Z] None None false true = Err ContradictoryPaths /\
    multi_source Z.eqb 1 g true [2%Z; 1%Z; 3%Z] None None false true = Err ContradictoryPaths /\
    all_pairs Z.eqb 1 g true None None false true = Err ContradictoryPaths /\
    get_all_shortest_paths_involving Z.eqb 1 g 3%Z true = Ok [] /\
    (exists mm, all_pairs Z.eqb 1 g false None None false true = Ok mm /\ List.length mm = 3%nat)
  | _ => False
  end.
Proof. exact negative_weights_err. Qed.

(* ======================================================================================
   THE ROLL-UP: one statement per modelled public algorithm entry point that is not a
   graph-structure query or a shortest-path function (those are above).  For every coherent
   state (WF: every state reachable by any history of mutations, every graph a constructor,
   generator or the GraphML reader returns), EVERY argument value: the outcome is `Ok _` or
   `Err k` with k the documented kind - WrongMethod on an unsupported graph kind, NodeNotFound
   on an absent name - never a Panic site, never OutOfFuel (the models of these functions that
   take fuel pass a closed-form amount themselves; where the caller passes it - Louvain, the
   gap stream of fast_gnp_random_graph - the hypothesis is explicit).  Derived from the family
   theorems of C05, C06, C09-C13, C16, C18, C14/C19 in Proofs/TotalAll.v.  A statement whose
   hypothesis C20's quantifier does not grant is named [_partial] and says which inputs are
   missing and what the model does there (evaluated in the _example theorems).  The inventory
   of ALL public functions is DESIGN.md, section 0.10.11. *)
From GV Require Import Model.Components Model.Scc Model.Cluster Model.ClusterW Model.Square Model.Partition
     Model.Eigen Model.Cent Model.Brandes Model.Closeness Model.Louvain Spec.PartitionDef
     Proofs.LouvainModelOk Proofs.TotalAll Proofs.LouvainTotal.

Section C20_rollup.
  Context {T A : Type}.
  Variable teqb : T -> T -> bool.
  Variable tltb : T -> T -> bool.
  Hypothesis teqb_spec : forall x y, teqb x y = true <-> x = y.
  Hypothesis tltb_asym : forall x y, tltb x y = true -> tltb y x = false.
  Hypothesis tltb_total : forall x y, tltb x y = false -> tltb y x = false -> x = y.
  Notation gstate := (gstate T A).
  Notation WF := (@WF T A teqb tltb).

  (* ---- components (connectivity.rs, strong_connectivity.rs, partitioning) and breadth_first_search ---- *)
  Theorem C20_total_connected_components : forall (g : gstate), WF g ->
    if directed (sp g) then connected_components teqb g = Err WrongMethod
    else exists cs, connected_components teqb g = Ok cs.
  Proof. exact (total_connected_components teqb tltb teqb_spec tltb_total). Qed.

  Theorem C20_total_number_of_connected_components : forall (g : gstate), WF g ->
    if directed (sp g) then number_of_connected_components teqb g = Err WrongMethod
    else exists k, number_of_connected_components teqb g = Ok k.
  Proof. exact (total_number_of_connected_components teqb tltb teqb_spec tltb_total). Qed.

  Theorem C20_total_node_connected_component : forall (g : gstate) x, WF g ->
    if directed (sp g) then node_connected_component teqb g x = Err WrongMethod
    else (In x (get_all_node_names g) -> exists s, node_connected_component teqb g x = Ok s) /\
         (~ In x (get_all_node_names g) -> node_connected_component teqb g x = Err NodeNotFound).
  Proof. exact (total_node_connected_component teqb tltb teqb_spec tltb_total). Qed.

  Theorem C20_total_weakly_connected_components : forall (g : gstate), WF g ->
    if directed (sp g) then exists cs, weakly_connected_components teqb g = Ok cs
    else weakly_connected_components teqb g = Err WrongMethod.
  Proof. exact (total_weakly_connected_components teqb tltb teqb_spec tltb_total). Qed.

  (* [ord] = the iteration order of each successor HashSet, any order that permutes the set *)
  Theorem C20_total_strongly_connected_components : forall (ord : list T -> list T) (g : gstate),
    (forall l x, In x (ord l) <-> In x l) -> WF g ->
    if directed (sp g) then exists cs, strongly_connected_components teqb ord g = Ok cs
    else strongly_connected_components teqb ord g = Err WrongMethod.
  Proof. exact (total_strongly_connected_components teqb tltb teqb_spec tltb_total). Qed.

  (* no error channel; C20 quantifies over k >= 1 *)
  Theorem C20_total_bfs_equal_size_partitions : forall (g : gstate) (k : nat), WF g -> (1 <= k)%nat ->
    exists ps, bfs_equal_size_partitions g k = Ok ps.
  Proof. exact (total_bfs_equal_size_partitions teqb tltb). Qed.

  (* no error channel: required on names that exist *)
  Theorem C20_total_breadth_first_search : forall (g : gstate) x, WF g -> In x (get_all_node_names g) ->
    exists l, breadth_first_search teqb g x = Ok l.
  Proof. exact (total_breadth_first_search teqb tltb teqb_spec tltb_total). Qed.

  (* ---- degree_centrality: every graph, n = 0 and n = 1 included ---- *)
  Theorem C20_total_degree_centrality : forall (g : gstate), WF g ->
    exists l, degree_centrality teqb tltb g = Ok l /\ map fst l = get_all_node_names g.
  Proof. exact (total_degree_centrality teqb tltb teqb_spec tltb_total). Qed.

  (* ---- get_sparse_adjacency_matrix: both kinds (C20_matrix_total above is the single-edge half) ---- *)
  Theorem C20_total_get_sparse_adjacency_matrix : forall (g : gstate), WF g ->
    if multi (sp g) then matrix_triplets g = Err WrongMethod
    else exists tr, matrix_triplets g = Ok tr.
  Proof. exact (total_sparse_adjacency_matrix teqb tltb tltb_asym tltb_total). Qed.

  (* ---- cluster/mod.rs, weighted = false.  [nn] is the Option<&[T]> argument: None, or ANY list of
     names - empty, with repetitions, with names that are not nodes ---- *)
  Theorem C20_total_triangles : forall (g : gstate) nn, WF g ->
    (directed (sp g) = true \/ multi (sp g) = true -> triangles teqb g nn = Err WrongMethod) /\
    (directed (sp g) = false -> multi (sp g) = false -> some_absent g nn -> triangles teqb g nn = Err NodeNotFound) /\
    (directed (sp g) = false -> multi (sp g) = false -> all_present g nn -> exists m, triangles teqb g nn = Ok m).
  Proof. exact (total_triangles teqb tltb teqb_spec tltb_total). Qed.

  Theorem C20_total_generalized_degree : forall (g : gstate) nn, WF g ->
    (directed (sp g) = true \/ multi (sp g) = true -> generalized_degree teqb g nn = Err WrongMethod) /\
    (directed (sp g) = false -> multi (sp g) = false -> some_absent g nn ->
       generalized_degree teqb g nn = Err NodeNotFound) /\
    (directed (sp g) = false -> multi (sp g) = false -> all_present g nn ->
       exists m, generalized_degree teqb g nn = Ok m).
  Proof. exact (total_generalized_degree teqb tltb teqb_spec tltb_total). Qed.

  Theorem C20_total_transitivity : forall (g : gstate), WF g ->
    if directed (sp g) || multi (sp g) then transitivity teqb g = Err WrongMethod
    else exists q, transitivity teqb g = Ok q.
  Proof. exact (total_transitivity teqb tltb teqb_spec tltb_total). Qed.

  Theorem C20_total_clustering : forall (g : gstate) nn, WF g ->
    (multi (sp g) = true -> clustering teqb g nn = Err WrongMethod) /\
    (multi (sp g) = false -> some_absent g nn -> clustering teqb g nn = Err NodeNotFound) /\
    (multi (sp g) = false -> all_present g nn -> exists m, clustering teqb g nn = Ok m).
  Proof. exact (total_clustering teqb tltb teqb_spec tltb_total). Qed.

  Theorem C20_total_average_clustering : forall (g : gstate) nn cz, WF g ->
    (multi (sp g) = true -> average_clustering teqb g nn cz = Err WrongMethod) /\
    (multi (sp g) = false -> some_absent g nn -> average_clustering teqb g nn cz = Err NodeNotFound) /\
    (multi (sp g) = false -> all_present g nn -> exists a, average_clustering teqb g nn cz = Ok a).
  Proof. exact (total_average_clustering teqb tltb teqb_spec tltb_total). Qed.

  (* the two cases are exhaustive *)
  Theorem C20_present_or_absent : forall (g : gstate) nn, all_present g nn \/ some_absent g nn.
  Proof. exact (present_or_absent teqb teqb_spec). Qed.

  (* weighted = true.  PARTIAL: only the guards.  Not covered: the numeric body on a single-edge
     graph whose edges all carry a weight, with present names.  The model computes it exactly only
     where f64::cbrt is exact (perfect cubes) and where the maximum weight is not 0; elsewhere it
     reports a model-domain Panic site (C20_total_cluster_example: weights 2, 1, 1).  Sweep only. *)
  Theorem C20_total_clustering_weighted_partial : forall (g : gstate) nn cz, WF g ->
    (multi (sp g) = true ->
       clustering_weighted teqb g nn = Err WrongMethod /\
       average_clustering_weighted teqb g nn cz = Err WrongMethod) /\
    (multi (sp g) = false -> some_absent g nn ->
       clustering_weighted teqb g nn = Err NodeNotFound /\
       average_clustering_weighted teqb g nn cz = Err NodeNotFound) /\
    (multi (sp g) = false -> all_present g nn -> edges_have_weight g = false ->
       clustering_weighted teqb g nn = Err EdgeWeightNotSpecified /\
       average_clustering_weighted teqb g nn cz = Err EdgeWeightNotSpecified).
  Proof. exact (total_clustering_weighted_partial teqb tltb teqb_spec). Qed.

  (* square_clustering has no error channel: on names of the graph it returns, on EVERY kind of
     graph (directed, multi-edge and self-loops included) *)
  Theorem C20_total_square_clustering : forall (g : gstate) nn, WF g -> all_present g nn ->
    exists m, square_clustering teqb g nn = Ok m.
  Proof. intros g nn W H. exact (square_clustering_total_any teqb tltb g W nn H). Qed.

  (* ---- partitions.rs ---- *)
  (* is_partition returns bool: ANY family of name lists (foreign names, repetitions, empty sets) *)
  Theorem C20_total_is_partition : forall (g : gstate) comms, WF g ->
    is_partition teqb g comms = Ok (is_partition_model teqb (get_all_node_names g) comms).
  Proof. exact (total_is_partition teqb tltb teqb_spec). Qed.

  (* modularity, ANY family, ANY weights, any resolution: NotAPartition exactly when is_partition is
     false; on a partition Ok - or the model-domain site (total weight 0 with a non-zero community
     term: the implementation then computes with inf; the exact model reports it).  No other Panic
     site, no fuel. *)
  Theorem C20_modularity_outcomes : forall (g : gstate) comms weighted gamma, WF g ->
    (is_partition_model teqb (get_all_node_names g) comms = false ->
       modularity teqb tltb g comms weighted gamma = Err NotAPartition) /\
    (is_partition_model teqb (get_all_node_names g) comms = true ->
       (exists q, modularity teqb tltb g comms weighted gamma = Ok q) \/
       modularity teqb tltb g comms weighted gamma = Panic modularity_domain_site).
  Proof. exact (modularity_outcomes teqb tltb teqb_spec tltb_total). Qed.

  (* PARTIAL in one respect: weighted = true on a graph with a NEGATIVE stored weight is not covered
     (see above and C20_total_partition_example: weights 1 and -1 on two disjoint edges).  With
     weighted = false, or no negative weight (edges without weight allowed): full. *)
  Theorem C20_total_modularity_partial : forall (g : gstate) comms weighted gamma, WF g ->
    (weighted = true -> no_negative_weight g) ->
    if is_partition_model teqb (get_all_node_names g) comms
    then exists q, modularity teqb tltb g comms weighted gamma = Ok q
    else modularity teqb tltb g comms weighted gamma = Err NotAPartition.
  Proof. exact (total_modularity teqb tltb teqb_spec tltb_total). Qed.

  (* ---- eigenvector_centrality: every WF graph, weighted flag, max_iter, tolerance; ANY number
     structure F (binary64 as executed, the reals, ...).  The loop bound is max_iter itself. ---- *)
  Theorem C20_total_eigenvector_centrality : forall (F : Num) (g : gstate) weighted max_iter tol, WF g ->
    if multi (sp g) then eigenvector_centrality teqb F g weighted max_iter tol = Err WrongMethod
    else (exists x, eigenvector_centrality teqb F g weighted max_iter tol = Ok x) \/
         eigenvector_centrality teqb F g weighted max_iter tol = Err PowerIterationFailedConvergence.
  Proof. intros F. exact (total_eigenvector_centrality teqb tltb teqb_spec tltb_asym tltb_total F). Qed.

  (* ---- betweenness_centrality / closeness_centrality: every kind of graph, both tie choices [lw]
     of the BinaryHeap, hop-count mode with NO hypothesis, weighted mode for ANY real weights (0 and
     negative included - beyond the positive weights of the C05 / C06 value theorems).
     PARTIAL: weighted = true on a graph with an edge WITHOUT weight is not covered: the models
     have no NaN arithmetic and report [site_nan] (C20_total_centrality_example).  Sweep only. ---- *)
  Theorem C20_total_betweenness_centrality_partial : forall (g : gstate) lw weighted normalized, WF g ->
    (weighted = true -> all_real (get_all_edges g)) ->
    exists m, betweenness_centrality lw g weighted normalized = Ok m.
  Proof. exact (total_betweenness_centrality teqb tltb teqb_spec tltb_total). Qed.

  Theorem C20_total_closeness_centrality_partial : forall (g : gstate) lw weighted wf_improved, WF g ->
    (weighted = true -> all_real (get_all_edges g)) ->
    exists m, closeness_centrality teqb tltb lw g weighted wf_improved = Ok m.
  Proof. exact (total_closeness_centrality teqb tltb teqb_spec tltb_asym tltb_total). Qed.

  (* ---- louvain_partitions / louvain_communities.  Fuel (arguments of the model): level fuel > N,
     sweep fuel >= N^N.  [perms] is the model's oracle for the seeded shuffle: a row of k indexes < k
     for every node count k <= N (shuffle_ok).
     (a) C20_louvain_negative_weights_rejected (repair of F23, /repo 9619d10): weighted = true and a
     stored edge with a real negative weight - InvalidArgument from both entry points, for EVERY graph
     state, fuel, shuffle table, resolution and threshold (it is the first statement of the function).
     (b) C20_total_louvain_partial: on every coherent graph either (a) applies, or the weights are
     non-negative and both functions RETURN a value - no Panic site (the unwraps on internal lookups
     of louvain.rs, the constructor Results, modularity's Result), no fuel exhaustion, no Err (not
     even NoPartitions) - a chain of nested partitions whose last level louvain_communities returns.
     Since the guard is modelled, non-negativity of the weights is no longer a hypothesis.
     PARTIAL: the hypotheses C20 does not grant are now (i) weighted = true: every edge HAS a weight
     (the exact model has no NaN arithmetic: a NaN weight passes the guard, as in the code, and then
     reaches the model-domain site [nan_site]); (ii) resolution >= 0 (a negative one returns in the
     evaluated example).  C20_total_louvain_nonnegative_weights is the statement of the previous
     round (hypothesis weights_ok), kept: it is the second case of (b).
     (c) C20_louvain_invalid_argument_iff: under the hypotheses of (b), InvalidArgument is returned
     for the graphs with a negative weight under weighted = true and ONLY for them.
     Evaluated: C20_total_louvain_example, C20_louvain_negative_weights_example.
     Proofs/LouvainModelOk.v, Proofs/LouvainTotal.v. ---- *)
  Theorem C20_louvain_negative_weights_rejected : forall lf sf (g : gstate) weighted res thr perms,
    weighted = true -> (exists e z, In e (get_all_edges g) /\ ew e = Some z /\ (z < 0)%Z) ->
    louvain_partitions teqb tltb lf sf g weighted res thr perms = Err InvalidArgument /\
    louvain_communities teqb tltb lf sf g weighted res thr perms = Err InvalidArgument.
  Proof.
    intros lf sf g weighted res thr perms Hw Hn.
    exact (proj2 (louvain_negative_weights_rejected teqb tltb lf sf g weighted res thr perms Hw Hn)).
  Qed.

  Theorem C20_total_louvain_partial : forall lf sf (g : gstate) weighted res thr perms,
    WF g -> (weighted = true -> all_real (get_all_edges g)) -> (0 <= res)%Q ->
    (List.length (nodes_vec g) < lf)%nat -> (List.length (nodes_vec g) ^ List.length (nodes_vec g) <= sf)%nat ->
    shuffle_ok perms (List.length (nodes_vec g)) ->
    (weighted = true /\ has_negative_edge g /\
     louvain_partitions teqb tltb lf sf g weighted res thr perms = Err InvalidArgument /\
     louvain_communities teqb tltb lf sf g weighted res thr perms = Err InvalidArgument) \/
    (weights_ok g weighted /\
     exists ls, louvain_partitions teqb tltb lf sf g weighted res thr perms = Ok ls /\
                levels_ok (map nname (nodes_vec g)) ls /\
                louvain_communities teqb tltb lf sf g weighted res thr perms = Ok (last ls [])).
  Proof. exact (louvain_total_guarded teqb tltb teqb_spec tltb_asym tltb_total). Qed.

  Theorem C20_total_louvain_nonnegative_weights : forall lf sf (g : gstate) weighted res thr perms,
    WF g -> weights_ok g weighted -> (0 <= res)%Q ->
    (List.length (nodes_vec g) < lf)%nat -> (List.length (nodes_vec g) ^ List.length (nodes_vec g) <= sf)%nat ->
    shuffle_ok perms (List.length (nodes_vec g)) ->
    exists ls, louvain_partitions teqb tltb lf sf g weighted res thr perms = Ok ls /\
               levels_ok (map nname (nodes_vec g)) ls /\
               louvain_communities teqb tltb lf sf g weighted res thr perms = Ok (last ls []).
  Proof. exact (louvain_total teqb tltb teqb_spec tltb_asym tltb_total). Qed.

  Theorem C20_louvain_invalid_argument_iff : forall lf sf (g : gstate) weighted res thr perms,
    WF g -> (weighted = true -> all_real (get_all_edges g)) -> (0 <= res)%Q ->
    (List.length (nodes_vec g) < lf)%nat -> (List.length (nodes_vec g) ^ List.length (nodes_vec g) <= sf)%nat ->
    shuffle_ok perms (List.length (nodes_vec g)) ->
    (louvain_partitions teqb tltb lf sf g weighted res thr perms = Err InvalidArgument <->
     weighted = true /\ has_negative_edge g) /\
    (louvain_communities teqb tltb lf sf g weighted res thr perms = Err InvalidArgument <->
     weighted = true /\ has_negative_edge g).
  Proof. exact (louvain_invalid_argument_iff teqb tltb teqb_spec tltb_asym tltb_total). Qed.
End C20_rollup.

(* ---- generators (their arguments are numbers, not graphs) ---- *)
From GV Require Import Model.Classic Model.Gnp Spec.GnpDef Proofs.GnpOk Proofs.GensOk Gen.KarateData.

(* complete_graph(n, directed): EVERY i32 n (n <= 0 gives the empty graph), and the result is WF *)
Theorem C20_total_complete_graph : forall n dir,
  exists g, complete_graph n dir = Ok g /\ @WF Z unit Z.eqb Z.ltb g.
Proof. exact total_complete_graph. Qed.

(* karate_club_graph(): the unwrap at social.rs:68 is not reached with an Err *)
Theorem C20_total_karate_club_graph :
  exists g, karate_club_graph karate_rows karate_node_bound = Ok g /\ @WF Z unit Z.eqb Z.ltb g.
Proof. exact total_karate_club_graph. Qed.

(* fast_gnp_random_graph(n, p, directed, seed): EVERY i32 n (negative: the empty graph), EVERY f64 p
   (NaN, infinities: InvalidArgument).  [gaps] = the skips drawn from the seed, each >= 0 (a quotient of
   two non-positive logarithms); the model's only fuel is the length of that stream, and
   gnp_slots(max 0 n) + 1 entries always suffice: never a Panic site (every checked i64 operation stays
   in range), no other error. *)
Theorem C20_total_fast_gnp_random_graph : forall n p dir gaps,
  (- 2147483648 <= n <= i32_max)%Z -> Forall (fun k => (0 <= k)%Z) gaps ->
  (~ p_valid p -> fast_gnp_random_graph n p dir gaps = Err InvalidArgument) /\
  (p_valid p ->
     (exists g, fast_gnp_random_graph n p dir gaps = Ok g /\ @WF Z unit Z.eqb Z.ltb g) \/
     fast_gnp_random_graph n p dir gaps = OutOfFuel) /\
  (p_valid p -> (gnp_slots (Z.max 0 n) dir < Z.of_nat (List.length gaps))%Z ->
     exists g, fast_gnp_random_graph n p dir gaps = Ok g /\ @WF Z unit Z.eqb Z.ltb g).
Proof. exact total_fast_gnp_random_graph. Qed.

(* ---- GraphML ---- *)
From GV Require Import Model.XmlEscape Model.GraphML.

(* read_graphml_string: EVERY event sequence quick-xml can produce, every behaviour of
   str::parse::<f64>, every GraphSpecs: a WF graph or one of four error kinds *)
Theorem C20_total_read_graphml_string : forall (parse : bytes -> option weight) (evs : list event) (s : specs),
  (exists g, read_events parse evs s = Ok g /\ WF bytes_eqb bytes_ltb g) \/
  (exists k, read_events parse evs s = Err k /\
             (k = ReadError \/ k = SelfLoopsFound \/ k = NodeNotFound \/ k = DuplicateEdge)).
Proof. exact total_read_graphml_string. Qed.

(* write_graphml_string: the model [write_events] is a function into event lists (no failure site:
   the code asserts on writes into a Vec); on ANY graph state its output is readable without panic *)
Theorem C20_total_write_graphml_string : forall (fmt : Z -> bytes) (parse : bytes -> option weight)
    (g : gstate bytes unit),
  exists evs, write_events fmt g = evs /\
    is_panic (read_events parse evs (sp g)) = false /\ is_fuel (read_events parse evs (sp g)) = false.
Proof. exact total_write_graphml_string. Qed.

(* ---- non-vacuity: one evaluated example per family, on graphs built through the public constructor
   (nodes 5 3 7 1 9; 9 isolated, 1 of degree one, a self-loop on 7, weights 2, 0, -1, 1, 3; directed /
   undirected / multi-edge variants; a graph with an edge without weight; ...), and the evaluated
   witnesses of what the _partial statements leave out ---- *)
From GV Require Import Proofs.TotalAllExamples.

Theorem C20_total_components_example :
  WF Z.eqb Z.ltb t_gU /\ WF Z.eqb Z.ltb t_gD /\
  connected_components Z.eqb t_gU = Ok [[5; 3; 7; 1]; [9]]%Z /\
  number_of_connected_components Z.eqb t_gU = Ok 2%nat /\
  node_connected_component Z.eqb t_gU 1%Z = Ok [1; 7; 5; 3]%Z /\
  node_connected_component Z.eqb t_gU 42%Z = Err NodeNotFound /\
  connected_components Z.eqb t_gD = Err WrongMethod /\
  node_connected_component Z.eqb t_gD 1%Z = Err WrongMethod /\
  weakly_connected_components Z.eqb t_gD = Ok [[5; 3; 7; 1]; [9]]%Z /\
  strongly_connected_components Z.eqb (fun l => l) t_gD = Ok [[1]; [5; 3; 7]; [9]]%Z /\
  weakly_connected_components Z.eqb t_gU = Err WrongMethod /\
  strongly_connected_components Z.eqb (fun l => l) t_gU = Err WrongMethod /\
  bfs_equal_size_partitions t_gU 2 = Ok [[5; 3; 7]; [1; 9]]%Z /\
  breadth_first_search Z.eqb t_gD 3%Z = Ok [3; 7; 5; 1]%Z /\
  breadth_first_search Z.eqb t_gU 9%Z = Ok [9]%Z.
Proof. exact total_components_example. Qed.

Theorem C20_total_cluster_example :
  WF Z.eqb Z.ltb t_gM /\
  (exists l, degree_centrality Z.eqb Z.ltb t_gU = Ok l /\ map fst l = [5; 3; 7; 1; 9]%Z) /\
  triangles Z.eqb t_gU None = Ok [(5%Z, 1%nat); (3%Z, 1%nat); (7%Z, 1%nat); (1%Z, 0%nat); (9%Z, 0%nat)] /\
  triangles Z.eqb t_gU (Some [42%Z]) = Err NodeNotFound /\
  triangles Z.eqb t_gD None = Err WrongMethod /\
  generalized_degree Z.eqb t_gM None = Err WrongMethod /\
  transitivity Z.eqb t_gU = Ok (3 # 5)%Q /\
  transitivity Z.eqb t_gD = Err WrongMethod /\
  clustering Z.eqb t_gD (Some [7; 9]%Z) = Ok [(7%Z, (1 # 6)%Q); (9%Z, 0%Q)] /\
  clustering Z.eqb t_gD (Some [7; 42]%Z) = Err NodeNotFound /\
  clustering Z.eqb t_gM None = Err WrongMethod /\
  average_clustering Z.eqb t_gU None false = Ok (Some (7 # 9)%Q) /\
  (exists m, square_clustering Z.eqb t_gU None = Ok m /\ List.length m = 5%nat) /\
  square_clustering Z.eqb t_gD (Some [7%Z]) = Ok [(7%Z, 0%Q)] /\
  (exists m, square_clustering Z.eqb t_gM None = Ok m /\ List.length m = 5%nat).
Proof. exact total_cluster_example. Qed.

Theorem C20_total_clustering_weighted_example :
  WF Z.eqb Z.ltb t_gN /\ WF Z.eqb Z.ltb t_gT /\
  clustering_weighted Z.eqb t_gM None = Err WrongMethod /\
  clustering_weighted Z.eqb t_gU (Some [42%Z]) = Err NodeNotFound /\
  clustering_weighted Z.eqb t_gN None = Err EdgeWeightNotSpecified /\
  average_clustering_weighted Z.eqb t_gN None true = Err EdgeWeightNotSpecified /\
  (exists m, clustering_weighted Z.eqb t_gU None = Ok m /\ List.length m = 5%nat) /\
  clustering_weighted Z.eqb t_gT None = Panic "cbrt: not a perfect cube".
Proof. exact total_clustering_weighted_example. Qed.

Theorem C20_total_partition_example :
  is_partition Z.eqb t_gU [[5; 3]; [7; 1; 9]]%Z = Ok true /\
  is_partition Z.eqb t_gU [[5; 3]; [7; 1; 42]]%Z = Ok false /\
  is_partition Z.eqb t_gU [[5; 3]; [3; 7; 1; 9]; []]%Z = Ok false /\
  modularity Z.eqb Z.ltb t_gU [[5; 3]; [7; 1; 9]]%Z false 1 = Ok (Some (2 # 25)%Q) /\
  modularity Z.eqb Z.ltb t_gU [[5; 3]; [7; 1]]%Z false 1 = Err NotAPartition /\
  modularity Z.eqb Z.ltb t_gU [[5; 3]; [7; 1; 9]]%Z true 1 = Ok (Some (31 # 50)%Q) /\
  no_negative_weight t_gN /\ modularity Z.eqb Z.ltb t_gN [[5; 3]; [7; 1; 9]]%Z true 1 = Ok None /\
  WF Z.eqb Z.ltb t_gZ /\ ~ no_negative_weight t_gZ /\
  modularity Z.eqb Z.ltb t_gZ [[1; 2]; [3; 4]]%Z true 1 = Panic modularity_domain_site /\
  modularity Z.eqb Z.ltb t_gZ [[1; 2]; [3; 4]]%Z false 1 = Ok (Some (1 # 2)%Q) /\
  modularity Z.eqb Z.ltb t_gZ [[1; 2]; [3; 3]]%Z true 1 = Err NotAPartition.
Proof. exact total_partition_example. Qed.

Theorem C20_total_eigenvector_example :
  (exists x, eigenvector_centrality Z.eqb NumQ t_gT true (Some 3%nat) (Some (1 # 2)%Q) = Ok x /\ List.length x = 3%nat) /\
  eigenvector_centrality Z.eqb NumQ t_gT true (Some 1%nat) (Some (1 # 1000000)%Q) = Err PowerIterationFailedConvergence /\
  (exists x, eigenvector_centrality Z.eqb NumQ t_gN true (Some 5%nat) (Some (1 # 1)%Q) = Ok x /\ List.length x = 5%nat) /\
  eigenvector_centrality Z.eqb NumQ t_gM true None None = Err WrongMethod.
Proof. exact total_eigenvector_example. Qed.

Theorem C20_total_centrality_example :
  all_real (get_all_edges t_gU) /\ all_real (get_all_edges t_gD) /\ ~ all_real (get_all_edges t_gN) /\
  betweenness_centrality false t_gU true true = Ok [(5%Z, 0%Q); (3%Z, 0%Q); (7%Z, (3 # 4)%Q); (1%Z, 0%Q); (9%Z, 0%Q)] /\
  betweenness_centrality true t_gD true false = Ok [(5%Z, 1%Q); (3%Z, 2%Q); (7%Z, 3%Q); (1%Z, 0%Q); (9%Z, 0%Q)] /\
  betweenness_centrality false t_gN false true = Ok [(5%Z, 0%Q); (3%Z, (1 # 6)%Q); (7%Z, 0%Q); (1%Z, 0%Q); (9%Z, 0%Q)] /\
  betweenness_centrality false t_gN true true = Panic site_nan /\
  closeness_centrality Z.eqb Z.ltb false t_gU true true = Ok [(5%Z, 0%Q); (3%Z, 0%Q); (7%Z, 0%Q); (1%Z, (9 # 8)%Q); (9%Z, 0%Q)] /\
  closeness_centrality Z.eqb Z.ltb true t_gD true false = Ok [(5%Z, 0%Q); (3%Z, (2 # 3)%Q); (7%Z, 1%Q); (1%Z, (3 # 5)%Q); (9%Z, 0%Q)] /\
  closeness_centrality Z.eqb Z.ltb false t_gN false true = Ok [(5%Z, (1 # 3)%Q); (3%Z, (1 # 2)%Q); (7%Z, (1 # 3)%Q); (1%Z, 0%Q); (9%Z, 0%Q)] /\
  closeness_centrality Z.eqb Z.ltb false t_gN true true = Panic site_nan.
Proof. exact total_centrality_example. Qed.

Theorem C20_total_louvain_example :
  WF Z.eqb Z.ltb t_gT /\ weights_ok t_gT true /\ weights_ok t_gT false /\ (0 <= 1)%Q /\
  (List.length (nodes_vec t_gT) < 4)%nat /\ (List.length (nodes_vec t_gT) ^ List.length (nodes_vec t_gT) <= 27)%nat /\
  shuffle_ok t_perms3 (List.length (nodes_vec t_gT)) /\
  louvain_partitions Z.eqb Z.ltb 4 27 t_gT true 1 (1 # 10000000)%Q t_perms3 = Ok [[[2; 1; 3]]]%Z /\
  louvain_communities Z.eqb Z.ltb 4 27 t_gT false 1 (1 # 10000000)%Q t_perms3 = Ok [[1; 3; 2]]%Z /\
  (* directed, and multi-edge (collapsed by to_single_edges first), five nodes, fuel 6 and 5^5 *)
  louvain_communities Z.eqb Z.ltb 6 3125 t_gD false 1 (1 # 10000000)%Q t_perms5 = Ok [[1; 7]; [3; 5]; [9]]%Z /\
  louvain_communities Z.eqb Z.ltb 6 3125 t_gM false 1 (1 # 10000000)%Q t_perms5 = Ok [[1; 7]; [3; 5]; [9]]%Z /\
  (* what the hypotheses exclude, evaluated: an ill-formed shuffle table (the model's own oracle) ... *)
  louvain_partitions Z.eqb Z.ltb 4 27 t_gT true 1 (1 # 10000000)%Q [[0%nat]] =
    Panic "model: shuffle table has no row for this node count" /\
  (* ... weighted = true with an edge without weight: a model-domain site (no NaN arithmetic in the
     exact model) ... *)
  ~ weights_ok t_gN true /\
  louvain_partitions Z.eqb Z.ltb 6 3125 t_gN true 1 (1 # 10000000)%Q t_perms5 = Panic nan_site /\
  (* ... a negative weight under weighted = true (all weights real: the hypothesis of
     [louvain_total_guarded]) is answered by the guard of F23, whether the total is 0 (t_gZ: 1, -1)
     or not (t_gU); before the repair the model reported a domain site resp. returned levels ... *)
  ~ weights_ok t_gU true /\ all_real (get_all_edges t_gU) /\ has_negative_edge t_gU /\ has_negative_edge t_gZ /\
  louvain_partitions Z.eqb Z.ltb 6 3125 t_gZ true 1 (1 # 10000000)%Q t_perms5 = Err InvalidArgument /\
  louvain_partitions Z.eqb Z.ltb 6 3125 t_gU true 1 (1 # 10000000)%Q t_perms5 = Err InvalidArgument /\
  louvain_communities Z.eqb Z.ltb 6 3125 t_gU true 1 (1 # 10000000)%Q t_perms5 = Err InvalidArgument /\
  (* ... and not under weighted = false; a negative resolution just returns *)
  louvain_partitions Z.eqb Z.ltb 6 3125 t_gU false (-1) (1 # 10000000)%Q t_perms5 = Ok [[[3; 7; 5; 1]; [9]]]%Z.
Proof. exact total_louvain_example. Qed.

(* F23's input, the undirected star 2-3 (2), 2-5 (2), 2-11 (-1), 2-7 (-2): InvalidArgument under
   weighted = true (non-vacuity of C20_louvain_negative_weights_rejected and of the first case of
   C20_total_louvain_partial), a partition under weighted = false *)
Theorem C20_louvain_negative_weights_example :
  WF Z.eqb Z.ltb t_gS /\ all_real (get_all_edges t_gS) /\ has_negative_edge t_gS /\
  louvain_partitions Z.eqb Z.ltb 6 3125 t_gS true 1 (1 # 10000000)%Q t_perms5 = Err InvalidArgument /\
  louvain_communities Z.eqb Z.ltb 6 3125 t_gS true 1 (1 # 10000000)%Q t_perms5 = Err InvalidArgument /\
  (* whatever the fuel and the shuffle table: nothing is computed before the guard *)
  louvain_communities Z.eqb Z.ltb 0 0 t_gS true 1 (1 # 10000000)%Q [] = Err InvalidArgument /\
  louvain_partitions Z.eqb Z.ltb 6 3125 t_gS false 1 (1 # 10000000)%Q t_perms5 = Ok [[[2; 7; 5; 11; 3]]]%Z /\
  louvain_communities Z.eqb Z.ltb 6 3125 t_gS false 1 (1 # 10000000)%Q t_perms5 = Ok [[2; 7; 5; 11; 3]]%Z.
Proof. exact louvain_negative_weights_example. Qed.

(* generators and GraphML: arguments outside the "valid" range, evaluated *)
Theorem C20_total_generators_example :
  (exists g, complete_graph (-3) true = Ok g /\ get_all_nodes g = []) /\
  (exists g, complete_graph 1 false = Ok g /\ List.length (get_all_nodes g) = 1%nat /\ get_all_edges g = []) /\
  fast_gnp_random_graph 4 FNaN true [0%Z] = Err InvalidArgument /\
  fast_gnp_random_graph 4 (FInf false) false [] = Err InvalidArgument /\
  (exists g, fast_gnp_random_graph (-7) (FFin (1 # 2)) false [] = Ok g /\ get_all_nodes g = []) /\
  fast_gnp_random_graph 4 (FFin (1 # 2)) false [1%Z] = OutOfFuel /\
  (exists g, fast_gnp_random_graph 4 (FFin (1 # 2)) false [1; 0; 2; 0; 0; 7; 0]%Z = Ok g /\
             List.length (get_all_edges g) = 3%nat).
Proof. exact total_generators_example. Qed.
