(* Property C20 — Valid calls on degenerate graphs return values or errors, never panic.
   Only pinned statements.  This file covers the graph-structure API (mutations and
   queries, whose models mark every unwrap / index / lookup of the Rust code as a Panic
   site); the algorithm families carry their own no-panic / fuel-suffices theorems in
   C04-C06, C10-C13, C18, C19.  The sweep over ALL public functions x 8 graph kinds x
   degenerate shapes is the correspondence/oracle part of the check (harness mode `api`). *)
From Coq Require Import List Bool.
From GV Require Import Base.Outcome Base.AMap Model.GState Model.Creation Model.Query Spec.AGraph Spec.History.
From GV Require Import Model.Derived.
From GV Require Import Proofs.WFDefs Proofs.HistoryOk Proofs.QueryOk Proofs.DegreeOk Proofs.NoPanic Proofs.DerivedContent Proofs.QueryTotal.
From Coq Require Import ZArith QArith String.
From GV Require Import Model.Dijkstra Spec.EdgeStoreGraph Proofs.DijkstraTotalOk Proofs.DijkstraModelOk Proofs.DijkstraErrKind Proofs.DijkstraWF Proofs.DijkstraWFExamples.
Import ListNotations.

Section C20.
  Context {T A : Type}.
  Variable teqb : T -> T -> bool.
  Variable tltb : T -> T -> bool.
  Hypothesis teqb_spec : forall x y, teqb x y = true <-> x = y.
  Hypothesis tltb_asym : forall x y, tltb x y = true -> tltb y x = false.
  Hypothesis tltb_total : forall x y, tltb x y = false -> tltb y x = false -> x = y.
  Notation gstate := (gstate T A).
  Notation WF := (@WF T A teqb tltb).

  Theorem C20_add_edge_never_panics : forall (g : gstate) e,
    WF g -> is_panic (snd (add_edge teqb tltb g e)) = false /\ is_fuel (snd (add_edge teqb tltb g e)) = false.
  Proof. exact (add_edge_no_panic teqb tltb teqb_spec tltb_asym tltb_total). Qed.

  Theorem C20_add_node_never_panics : forall (g : gstate) n, WF g -> exists g', add_node teqb g n = Ok g'.
  Proof. exact (add_node_no_panic teqb tltb teqb_spec). Qed.

  Theorem C20_get_edge_never_panics : forall (g : gstate) u v, WF g -> is_panic (get_edge teqb g u v) = false.
  Proof. exact (get_edge_no_panic teqb tltb teqb_spec tltb_asym tltb_total). Qed.

  Theorem C20_get_edges_never_panics : forall (g : gstate) u v, WF g -> is_panic (get_edges teqb g u v) = false.
  Proof. exact (get_edges_no_panic teqb tltb teqb_spec tltb_asym tltb_total). Qed.

  (* existing names: the per-node queries return Ok (C02_out_edges / C02_in_edges /
     C02_edges_for_node, C09_degree ...); absent names use the error channel *)
  Theorem C20_edges_for_node_absent : forall (g : gstate) x,
    WF g -> ~ In x (names g) -> get_edges_for_node teqb tltb g x = Err NodeNotFound.
  Proof. exact (get_edges_for_node_absent teqb tltb teqb_spec). Qed.

  Theorem C20_degree_absent : forall (g : gstate) x,
    WF g -> ~ In x (names g) -> get_node_degree teqb tltb g x = Ok None.
  Proof. exact (get_node_degree_absent teqb tltb teqb_spec). Qed.

  Theorem C20_in_edges_absent : forall (g : gstate) x,
    WF g -> ~ In x (names g) ->
    get_in_edges_for_node teqb g x = Err (if directed (sp g) then NodeNotFound else WrongMethod).
  Proof. exact (get_in_edges_for_node_absent teqb tltb teqb_spec). Qed.

  Theorem C20_out_edges_absent : forall (g : gstate) x,
    WF g -> ~ In x (names g) ->
    get_out_edges_for_node teqb g x = Err (if directed (sp g) then NodeNotFound else WrongMethod).
  Proof. exact (get_out_edges_for_node_absent teqb tltb teqb_spec). Qed.

  Theorem C20_directed_only_queries_refuse : forall (g : gstate) x,
    directed (sp g) = false ->
    get_in_edges_for_node teqb g x = Err WrongMethod /\ get_out_edges_for_node teqb g x = Err WrongMethod /\
    get_predecessor_nodes teqb g x = Err WrongMethod /\ get_successor_nodes teqb g x = Err WrongMethod.
  Proof. exact (in_out_edges_wrong_kind teqb). Qed.

  (* functions without an error channel: get_subgraph and set_all_edge_weights unwrap the
     constructor's Result; under WF that unwrap is never reached with an Err *)
  Theorem C20_get_subgraph_never_panics : forall (g : gstate) xs,
    WF g -> exists h, get_subgraph teqb tltb g xs = Ok h.
  Proof.
    intros g xs W. destruct (get_subgraph_content teqb tltb teqb_spec tltb_total g xs W) as (h & H & _).
    exists h. exact H.
  Qed.

  Theorem C20_set_all_edge_weights_never_panics : forall (g : gstate) w,
    WF g -> exists h, set_all_edge_weights teqb tltb g w = Ok h.
  Proof.
    intros g w W. destruct (set_all_edge_weights_content teqb tltb teqb_spec tltb_total g w W) as (h & H & _).
    exists h. exact H.
  Qed.

  (* existing names: per-node queries and degrees return values *)
  Theorem C20_degree_existing : forall (g : gstate) x,
    WF g -> In x (names g) -> exists k, get_node_degree teqb tltb g x = Ok (Some k).
  Proof.
    intros g x W Hx. eexists. apply (get_node_degree_spec teqb tltb teqb_spec tltb_total g x W Hx).
  Qed.

  Theorem C20_neighbor_nodes_existing : forall (g : gstate) x,
    WF g -> In x (names g) -> exists l, get_neighbor_nodes teqb g x = Ok l.
  Proof.
    intros g x W Hx. destruct (get_neighbor_nodes_spec teqb tltb g x W Hx) as (l & H & _). exists l. exact H.
  Qed.
  (* ---- the complete list: every modelled query of query.rs / degree.rs and the two
     Result-returning constructors of convert.rs, for EVERY argument (present or absent names,
     any kind of graph): the outcome is Ok or Err, never a Panic site, never out of fuel ---- *)
  Theorem C20_every_query_total : forall (g : gstate), WF g ->
    (forall x, total (get_node teqb g x) = true /\ total (has_node teqb g x) = true /\
               total (get_edges_for_node teqb tltb g x) = true /\
               total (get_in_edges_for_node teqb g x) = true /\ total (get_out_edges_for_node teqb g x) = true /\
               total (get_neighbor_nodes teqb g x) = true /\
               total (get_successor_nodes teqb g x) = true /\ total (get_predecessor_nodes teqb g x) = true /\
               total (get_successor_node_names teqb g x) = true /\ total (get_predecessor_node_names teqb g x) = true /\
               total (get_node_degree teqb tltb g x) = true /\
               total (get_node_in_degree teqb g x) = true /\ total (get_node_out_degree teqb g x) = true /\
               total (get_node_weighted_degree teqb tltb g x) = true /\
               total (get_node_weighted_in_degree teqb g x) = true /\
               total (get_node_weighted_out_degree teqb g x) = true) /\
    (forall u v, total (get_edge teqb g u v) = true /\ total (get_edges teqb g u v) = true) /\
    (forall xs, total (has_nodes teqb g xs) = true /\ total (get_edges_for_nodes teqb g xs) = true /\
                total (get_in_edges_for_nodes teqb g xs) = true /\ total (get_out_edges_for_nodes teqb g xs) = true) /\
    total (reverse teqb tltb g) = true /\ total (to_single_edges teqb tltb g) = true.
  Proof. exact (queries_total teqb tltb teqb_spec tltb_asym tltb_total). Qed.

  Theorem C20_total_means_value_or_error : forall X (r : outcome X),
    total r = true <-> (exists x, r = Ok x) \/ (exists k, r = Err k).
  Proof. exact @total_cases. Qed.

  (* the *_for_all_nodes maps unwrap one per-node call per node (degree.rs): every one of those
     calls is made on an existing name and returns Some, so the maps are total, with one entry per
     node in node order; the directed-only ones answer WrongMethod on an undirected graph *)
  Theorem C20_degree_maps_total : forall (g : gstate), WF g ->
    (exists l, get_degree_for_all_nodes teqb tltb g = Ok l /\ map fst l = names g) /\
    (exists l, get_weighted_degree_for_all_nodes teqb tltb g = Ok l /\ map fst l = names g) /\
    (if directed (sp g) then exists l, get_in_degree_for_all_nodes teqb g = Ok l /\ map fst l = names g
     else get_in_degree_for_all_nodes teqb g = Err WrongMethod) /\
    (if directed (sp g) then exists l, get_out_degree_for_all_nodes teqb g = Ok l /\ map fst l = names g
     else get_out_degree_for_all_nodes teqb g = Err WrongMethod) /\
    (if directed (sp g) then exists l, get_weighted_in_degree_for_all_nodes teqb g = Ok l /\ map fst l = names g
     else get_weighted_in_degree_for_all_nodes teqb g = Err WrongMethod) /\
    (if directed (sp g) then exists l, get_weighted_out_degree_for_all_nodes teqb g = Ok l /\ map fst l = names g
     else get_weighted_out_degree_for_all_nodes teqb g = Err WrongMethod).
  Proof.
    intros g W. repeat split.
    - exact (get_degree_for_all_nodes_total teqb tltb teqb_spec tltb_total g W).
    - exact (get_weighted_degree_for_all_nodes_total teqb tltb teqb_spec tltb_total g W).
    - exact (get_in_degree_for_all_nodes_total teqb tltb teqb_spec g W).
    - exact (get_out_degree_for_all_nodes_total teqb tltb teqb_spec g W).
    - exact (get_weighted_in_degree_for_all_nodes_total teqb tltb teqb_spec g W).
    - exact (get_weighted_out_degree_for_all_nodes_total teqb tltb teqb_spec g W).
  Qed.

  (* no error channel: get_successors_or_neighbors unwraps; total on existing names *)
  Theorem C20_successors_or_neighbors_existing : forall (g : gstate) x,
    WF g -> In x (names g) -> exists l, get_successors_or_neighbors teqb g x = Ok l.
  Proof. exact (get_successors_or_neighbors_total teqb tltb). Qed.

  (* the sparse adjacency matrix of a single-edge graph never indexes an empty edge group *)
  Theorem C20_matrix_total : forall (g : gstate),
    WF g -> multi (sp g) = false -> total (matrix_triplets g) = true.
  Proof. exact (matrix_total teqb tltb tltb_asym tltb_total). Qed.

  (* hence for every graph the API can build: any history of mutations from new(specs) *)
  Theorem C20_every_query_total_after_any_history : forall s (g : gstate) (x u v : T) xs,
    reachable teqb tltb s g ->
    total (get_node teqb g x) = true /\ total (get_edge teqb g u v) = true /\ total (get_edges teqb g u v) = true /\
    total (get_edges_for_node teqb tltb g x) = true /\ total (get_neighbor_nodes teqb g x) = true /\
    total (get_node_degree teqb tltb g x) = true /\ total (get_edges_for_nodes teqb g xs) = true /\
    total (reverse teqb tltb g) = true /\ total (to_single_edges teqb tltb g) = true.
  Proof.
    intros s g x u v xs R.
    pose proof (WF_reachable teqb tltb teqb_spec tltb_asym tltb_total s g R) as W.
    destruct (queries_total teqb tltb teqb_spec tltb_asym tltb_total g W) as (H1 & H2 & H3 & H4 & H5).
    destruct (H1 x) as (a & _ & b & _ & _ & c & _ & _ & _ & _ & d & _).
    destruct (H2 u v) as (e & f). destruct (H3 xs) as (_ & h & _).
    repeat split; assumption.
  Qed.

  (* ---- the shortest-path entry points (dijkstra.rs) on every WF graph ----
     [fine o] = o is Ok or Err: no Panic, no OutOfFuel.  [small_adj]: fewer than 2^31-1
     adjacency entries (the i32 counter of dijkstra.rs overflows — panics in a debug
     build — beyond that); true for every graph of at most 46340 nodes. *)

  (* index level, ANY weights (negative ones may give Err ContradictoryPaths), any
     options, any cutoff *)
  Theorem C20_dijkstra_never_panics : forall (g : gstate) weighted src target cutoff fo wp,
    WF g -> small_adj g -> (src < number_of_nodes g)%nat ->
    fine (dijkstra g weighted src target cutoff fo wp).
  Proof. exact (wf_dijkstra_fine teqb tltb). Qed.

  Theorem C20_dijkstra_basic_never_panics : forall (g : gstate) weighted src,
    WF g -> small_adj g -> (src < number_of_nodes g)%nat -> fine (dijkstra_basic g weighted src).
  Proof. exact (wf_dijkstra_basic_fine teqb tltb). Qed.

  (* single_source: ANY weights, ANY source / target names (absent: Err NodeNotFound),
     ANY cutoff *)
  Theorem C20_single_source_never_panics : forall (g : gstate) weighted source target cutoff fo wp,
    WF g -> small_adj g -> fine (single_source teqb g weighted source target cutoff fo wp).
  Proof. exact (wf_single_source_fine teqb tltb). Qed.

  (* multi_source / all_pairs: ANY weights (negative ones included), ANY source / target names,
     ANY options, ANY cutoff.  They collect the per-source `Result`s into `Result<Vec<_>, Error>` and
     propagate the error with `?` (repair of F22; before it they `.unwrap()`ed the per-source Result at
     dijkstra.rs:376 / :172, so a ContradictoryPaths was a panic and these two statements carried
     "non-negative weights, cutoff >= 0" and the suffix _partial).  What remains a hypothesis is
     [small_adj] alone — the i32 counter, as for single_source. *)
  Theorem C20_multi_source_never_panics : forall threads (g : gstate) weighted sources target cutoff fo wp,
    WF g -> small_adj g ->
    fine (multi_source teqb threads g weighted sources target cutoff fo wp).
  Proof. exact (wf_multi_source_fine teqb tltb teqb_spec). Qed.

  Theorem C20_all_pairs_never_panics : forall threads (g : gstate) weighted target cutoff fo wp,
    WF g -> small_adj g ->
    fine (all_pairs teqb threads g weighted target cutoff fo wp).
  Proof. exact (wf_all_pairs_fine teqb tltb). Qed.

  (* ... and the error channel is used with the documented kinds only (every graph state):
     NodeNotFound for an absent name, EdgeWeightNotSpecified for weighted = true on a store with an
     unweighted edge, ContradictoryPaths when a per-source search meets a negative weight *)
  Theorem C20_multi_source_error_kinds : forall threads (g : gstate) weighted sources target cutoff fo wp k,
    multi_source teqb threads g weighted sources target cutoff fo wp = Err k ->
    k = NodeNotFound \/ k = ContradictoryPaths.
  Proof. exact (multi_source_err teqb). Qed.

  Theorem C20_all_pairs_error_kinds : forall threads (g : gstate) weighted target cutoff fo wp k,
    all_pairs teqb threads g weighted target cutoff fo wp = Err k ->
    k = EdgeWeightNotSpecified \/ k = NodeNotFound \/ k = ContradictoryPaths.
  Proof. exact (all_pairs_err teqb). Qed.

  Theorem C20_single_source_error_kinds : forall (g : gstate) weighted source target cutoff fo wp k,
    single_source teqb g weighted source target cutoff fo wp = Err k ->
    k = NodeNotFound \/ k = ContradictoryPaths.
  Proof. exact (single_source_err teqb). Qed.

  (* get_all_shortest_paths_involving has no error channel (it returns a Vec).  It does NOT unwrap
     all_pairs: dijkstra.rs:610-612 is `match all_pairs(..) { Err(_) => vec![], Ok(pairs) => .. }`, so
     once all_pairs returns its Err instead of panicking, this function returns the empty vector:
     also FULL for any weights and any name (an absent name just matches no path). *)
  Theorem C20_involving_never_panics : forall threads (g : gstate) (x : T) weighted,
    WF g -> small_adj g ->
    exists l, get_all_shortest_paths_involving teqb threads g x weighted = Ok l.
  Proof. exact (wf_involving_fine teqb tltb). Qed.

  Theorem C20_involving_of_error : forall threads (g : gstate) (x : T) weighted k,
    all_pairs teqb threads g weighted None None false true = Err k ->
    get_all_shortest_paths_involving teqb threads g x weighted = Ok [].
  Proof. exact (involving_of_err teqb). Qed.
End C20.

(* A reachable (hence WF), small graph with a negative weight — F22's graph: directed 1->2 (1),
   1->3 (2), 3->2 (-5), weighted = true: single_source, multi_source and all_pairs all return
   Err ContradictoryPaths (before the repair the last two panicked at dijkstra.rs:376 / :172),
   get_all_shortest_paths_involving returns the empty vector, hop-count mode answers.  So the
   theorems above are not vacuous on weights that are not "valid". *)
Example C20_negative_weights_err :
  match ex_neg with
  | Ok g =>
    WF Z.eqb Z.ltb g /\ small_adj g /\ ~ weights_nonneg g /\
    single_source Z.eqb g true 1%Z None None false true = Err ContradictoryPaths /\
    multi_source Z.eqb 1 g true [1%Z] None None false true = Err ContradictoryPaths /\
    multi_source Z.eqb 1 g true [2%Z; 1%Z; 3%Z] None None false true = Err ContradictoryPaths /\
    all_pairs Z.eqb 1 g true None None false true = Err ContradictoryPaths /\
    get_all_shortest_paths_involving Z.eqb 1 g 3%Z true = Ok [] /\
    (exists mm, all_pairs Z.eqb 1 g false None None false true = Ok mm /\ List.length mm = 3%nat)
  | _ => False
  end.
Proof. exact negative_weights_err. Qed.
