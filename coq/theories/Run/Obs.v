(* Canonical observation encoding shared with the Rust harness (harness/src/obs.rs):
   an observation is (kind, rows of integers, rationals).  A case's observations
   are flattened to a [list (list Z)]: header row [kind; #rows; #rationals], the
   rows, then (when #rationals > 0) one row num1 den1 num2 den2 ... *)
From Coq Require Import List ZArith QArith Uint63.
From GV Require Import Base.Outcome Model.GState.
Import ListNotations.
Open Scope Z_scope.

Definition obs := (Z * list (list Z) * list Q)%type.

Definition enc_q (q : Q) : list Z := let r := Qred q in [Qnum r; Zpos (Qden r)].

Definition enc_obs (o : obs) : list (list Z) :=
  let '(k, rows, fs) := o in
  [k; Z.of_nat (length rows); Z.of_nat (length fs)] :: rows ++
  match fs with [] => [] | _ => [flat_map enc_q fs] end.

Definition enc_all (l : list obs) : list (list Z) := flat_map enc_obs l.

Definition enc_w (w : weight) : list Z :=
  match w with None => [0; 0] | Some z => [1; z] end.
Definition enc_oa (a : option Z) : list Z :=
  match a with None => [0; 0] | Some z => [1; z] end.

Definition code_obs {X} (r : outcome X) : obs := (1, [[outcome_code r]], []).
Definition zn (n : nat) : Z := Z.of_nat n.

(* ---- digest: printing long integer lists is the slow part of an in-Coq
   evaluation, so the correspondence compares a polynomial hash of the
   canonicalised integer content (rows of kinds >= 1000 sorted, as the Python
   driver does for the implementation's output) and prints only the rationals.
   A hash mismatch is then re-run with the full printer for diagnosis. *)
Fixpoint row_leb (a b : list Z) : bool :=
  match a, b with
  | [], _ => true
  | _ :: _, [] => false
  | x :: a', y :: b' => if Z.ltb x y then true else if Z.ltb y x then false else row_leb a' b'
  end.
Fixpoint ins_row {X} (x : list Z * X) (l : list (list Z * X)) : list (list Z * X) :=
  match l with
  | [] => [x]
  | y :: t => if row_leb (fst x) (fst y) then x :: l else y :: ins_row x t
  end.
Definition sort_rows {X} (l : list (list Z * X)) : list (list Z * X) := fold_right ins_row [] l.

Definition canon_obs (o : obs) : obs :=
  let '(k, rows, fs) := o in
  if Z.ltb k 1000 then o else
  if Nat.eqb (length rows) (length fs) && negb (Nat.eqb (length fs) 0) then
    let s := sort_rows (combine rows fs) in (k, map fst s, map snd s)
  else (k, map fst (sort_rows (map (fun r => (r, tt)) rows)), fs).

(* primitive 63-bit integers (wrap-around arithmetic) are used for the digest
   only; no theorem mentions them *)
Definition mix (h : int) (x : Z) : int := (h * 1000003 + Uint63.of_Z x + 12345)%uint63.
Definition hash_row (h : int) (r : list Z) : int := fold_left mix r (mix h (Z.of_nat (length r) + 7777)).
Definition hash_obs (h : int) (o : obs) : int :=
  let '(k, rows, fs) := canon_obs o in
  fold_left hash_row rows (mix (mix (mix h k) (Z.of_nat (length rows))) (Z.of_nat (length fs))).

Definition digest_all (l : list obs) : list (list Z) :=
  [Uint63.to_Z (fold_left hash_obs l 1%uint63)] ::
  flat_map (fun o => let '(_, _, fs) := canon_obs o in
                     match fs with [] => [] | _ => [flat_map enc_q fs] end) l.
