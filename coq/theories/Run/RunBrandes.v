(* Correspondence run for C05 (betweenness_centrality): the observations
   harness/src/cent.rs prints for mode `bc`. *)
From Coq Require Import String List Bool ZArith NArith Arith QArith.
From GV Require Import Base.Outcome Base.AMap Model.GState Model.Creation Model.Query.
From GV Require Import Model.Cent Model.Brandes Spec.BetweennessDef Run.Obs.
From GV Require Export Run.RunGraph.
Import ListNotations.
Open Scope Z_scope.

Record bcase := mkbc { b_g : gcase; b_weighted : bool; b_normalized : bool; b_withdef : bool }.

Fixpoint q_all_eqb (a b : list Q) : bool :=
  match a, b with
  | [], [] => true
  | x :: a', y :: b' => Qeq_bool x y && q_all_eqb a' b'
  | _, _ => false
  end.

(* kind 52: on this graph the model's vector equals the definition [bc_def]
   (exact rationals) evaluated on the adjacency the algorithm reads *)
Definition def_flag (g : zstate) (weighted normalized : bool) : bool :=
  match conv_adj weighted (successors_vec g) with
  | None => false
  | Some a =>
    match bc_core false weighted a with
    | None => false
    | Some bet =>
      q_all_eqb (rescale bet (length (get_all_nodes g)) normalized (directed (sp g)))
                (bc_def_tab a normalized (directed (sp g)))
    end
  end.

Definition obs_of (c : bcase) : list obs :=
  let r := build (b_g c) in
  code_obs r ::
  match r with
  | Ok g =>
    let res := betweenness_centrality false g (b_weighted c) (b_normalized c) in
    code_obs res ::
    match res with
    | Ok m =>
      [ map_obs 1050 m;
        (* kind 51: the heap's tie choice (first / last minimal entry) is unobservable *)
        flag 51 (match betweenness_centrality true g (b_weighted c) (b_normalized c) with
                 | Ok m2 => kq_eqb (sort_kq m) (sort_kq m2)
                 | _ => false
                 end) ] ++
      [ (* kind 53: the adjacency read by the algorithm lists each neighbour once per row, all
           indexes are in range and, in weighted mode, every cost is strictly positive — the
           hypotheses of C05_model_hop_count / C05_model_weighted of Properties/C05.v *)
        flag 53 (match conv_adj (b_weighted c) (successors_vec g) with
                 | Some a => rows_nodup a && adj_ok (length a) a && (negb (b_weighted c) || rows_pos a)
                 | None => false
                 end) ] ++
      (if b_withdef c then [flag 52 (def_flag g (b_weighted c) (b_normalized c))] else [])
    | _ => []
    end
  | _ => []
  end.

Definition run (c : bcase) : list (list Z) := enc_all (obs_of c).
Definition run_digest (c : bcase) : list (list Z) := digest_all (obs_of c).
