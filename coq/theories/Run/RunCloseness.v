(* Correspondence run for C06 (closeness_centrality): the observations
   harness/src/cent.rs prints for call `cc`. *)
From Coq Require Import String List Bool ZArith NArith Arith QArith.
From GV Require Import Base.Outcome Base.AMap Model.GState Model.Creation Model.Query Model.Derived.
From GV Require Import Model.Cent Model.Brandes Model.Closeness Spec.ClosenessDef Run.Obs.
From GV Require Export Run.RunGraph.
Import ListNotations.
Open Scope Z_scope.

Record ccase := mkcc { c_g : gcase; c_weighted : bool; c_wf : bool }.

(* the graph the search runs on: `reverse()` of a directed graph, the graph itself otherwise *)
Definition the_graph (g : zstate) : outcome zstate :=
  if directed (sp g) then reverse Z.eqb Z.ltb g else Ok g.

(* kind 62: for every source, the model's distance list passes the verified checker
   [check_dist] (Proofs/ClosenessOk.check_dist_sound: it then holds the true shortest distances) *)
Definition dist_flag (tg : zstate) (weighted : bool) : bool :=
  match conv_adj weighted (successors_vec tg), zconv_adj weighted (successors_vec tg) with
  | Some a, Some za =>
    forallb (fun src =>
               match sssp false weighted a src with
               | Some sp => match dvec_of (length za) sp with
                            | Some d => check_dist za src d
                            | None => false
                            end
               | None => false
               end) (seq 0 (length a))
  | _, _ => false
  end.

(* kind 63: the adjacency searched is the transpose of the graph's adjacency
   (directed: via reverse(); undirected: the adjacency is symmetric), so the
   distances found are incoming distances.  Since round 2 this is a THEOREM for every reachable
   state (C06_reverse_transposes, C06_undirected_adjacency_symmetric, C06_closeness_reachable in
   Properties/C06.v); the flag is kept as a per-case tie between model and code *)
Definition transpose_flag (g tg : zstate) (weighted : bool) : bool :=
  match zconv_adj weighted (successors_vec g), zconv_adj weighted (successors_vec tg) with
  | Some a0, Some b => check_transpose a0 b
  | _, _ => false
  end.

Definition obs_of (c : ccase) : list obs :=
  let r := build (c_g c) in
  code_obs r ::
  match r with
  | Ok g =>
    let res := closeness_centrality Z.eqb Z.ltb false g (c_weighted c) (c_wf c) in
    code_obs res ::
    match res with
    | Ok m =>
      [ map_obs 1060 m;
        flag 61 (match closeness_centrality Z.eqb Z.ltb true g (c_weighted c) (c_wf c) with
                 | Ok m2 => kq_eqb (sort_kq m) (sort_kq m2)
                 | _ => false
                 end);
        flag 62 (match the_graph g with Ok tg => dist_flag tg (c_weighted c) | _ => false end);
        flag 63 (match the_graph g with Ok tg => transpose_flag g tg (c_weighted c) | _ => false end) ]
    | _ => []
    end
  | _ => []
  end.

Definition run (c : ccase) : list (list Z) := enc_all (obs_of c).
Definition run_digest (c : ccase) : list (list Z) := digest_all (obs_of c).
