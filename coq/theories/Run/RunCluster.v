(* C11 Run module: prints exactly the observations of harness/src/cluster.rs for one
   graph and a list of requested node subsets, and evaluates on every case
   (observation kind 49) "the model's values = the brute-force definitions of
   Spec/ClusterDef.v computed from the EDGE LIST" and the subset consistency of
   the model. *)
From Coq Require Import String List Bool ZArith NArith Arith QArith.
From GV Require Import Base.Outcome Base.AMap Model.GState Model.Creation Model.Query
     Model.Components Model.Cluster Model.ClusterW Model.Square Spec.ReachDef Spec.ClusterDef Spec.ClusterSpec.
From GV Require Export Run.RunGraphC.
Import ListNotations.
Close Scope Q_scope.
Open Scope Z_scope.

Record clcase := mkcl {
  cl_sp : specs; cl_nodes : list znode; cl_edges : list zedge;
  cl_weighted : bool; cl_subs : list (list Z)
}.

Definition mapq_obs (kc km : Z) (r : outcome (list (Z * Q))) : list obs :=
  (kc, [[outcome_code r]], []) ::
  match r with
  | Ok m => [(km, map (fun kv => [fst kv]) m, map snd m)]
  | _ => []
  end.

Definition avg_obs (kind : Z) (r : outcome (option Q)) : obs :=
  match r with
  | Ok None => (kind, [[0; 1]], [])
  | Ok (Some v) => (kind, [[0; 0]], [v])
  | _ => (kind, [[outcome_code r; 0]], [])
  end.

Definition calls_w (g : zstate) (nn : option (list Z)) : list obs :=
  mapq_obs 42 1043 (clustering_weighted zeqb g nn) ++
  [avg_obs 44 (average_clustering_weighted zeqb g nn true);
   avg_obs 45 (average_clustering_weighted zeqb g nn false)].

Definition calls (g : zstate) (nn : option (list Z)) : list obs :=
  let tr := triangles zeqb g nn in
  let gd := generalized_degree zeqb g nn in
  [(30, [[outcome_code tr]], [])] ++
  match tr with Ok m => [(1031, map (fun kv => [fst kv; zn (snd kv)]) m, [])] | _ => [] end ++
  mapq_obs 32 1033 (clustering zeqb g nn) ++
  [avg_obs 34 (average_clustering zeqb g nn true); avg_obs 35 (average_clustering zeqb g nn false)] ++
  [(38, [[outcome_code gd]], [])] ++
  match gd with
  | Ok m => [(1039, flat_map (fun kv => [fst kv; -1; 0] ::
                                map (fun tc => [fst kv; zn (fst tc); zn (snd tc)]) (snd kv)) m, [])]
  | _ => []
  end ++
  (* on a directed graph the value depends on the successor iteration order and is not
     fixed by the property: only the key set is printed *)
  (if directed (sp g) then
     match square_clustering zeqb g nn with
     | Ok m => [(40, [[0]], []); (1041, map (fun kv => [fst kv]) m, [])]
     | r => [(40, [[outcome_code r]], [])]
     end
   else mapq_obs 40 1041 (square_clustering zeqb g nn)).

(* ---------------- per-case validation against the definitions ---------------- *)
Definition has_edge (g : zstate) (u v : Z) : bool :=
  existsb (fun e => Z.eqb (eu e) u && Z.eqb (ev e) v) (get_all_edges g).
(* adjacency of the definitions, read off the edge list *)
Definition def_adjb (g : zstate) (u v : Z) : bool :=
  if directed (sp g) then has_edge g u v else has_edge g u v || has_edge g v u.
Definition sym_adjb (g : zstate) (u v : Z) : bool := has_edge g u v || has_edge g v u.

Definition q_eqb (a b : Q) : bool := Qeq_bool a b.
Definition oq_eqb (a b : option Q) : bool :=
  match a, b with Some x, Some y => Qeq_bool x y | None, None => true | _, _ => false end.

Definition lookup_z {V} (k : Z) (m : list (Z * V)) : option V := lookup Z.eqb k m.

(* every node has an entry and the entry is the definition's value *)
Definition map_is {V} (names : list Z) (m : list (Z * V)) (ok : Z -> V -> bool) : bool :=
  Nat.eqb (length m) (length names) &&
  forallb (fun v => match lookup_z v m with Some x => ok v x | None => false end) names.

Definition unit_interval (q : Q) : bool := Qle_bool 0 q && Qle_bool q 1.

(* hypothesis of C11_triangles_eq_def / C11_clustering_eq_def, and: the adjacency those
   theorems speak about is the one of the edge list *)
Definition chk_nbr (g : zstate) : bool :=
  if directed (sp g) then true else
  let names := get_all_node_names g in
  nbr_ok_b zeqb g &&
  forallb (fun u => forallb (fun v => Bool.eqb (nadj zeqb g u v) (sym_adjb g u v)) names) names.

Definition chk_defs (g : zstate) : bool :=
  let names := get_all_node_names g in
  let ab := def_adjb g in
  let sb := sym_adjb g in
  chk_nbr g &&
  (* undirected-only functions *)
  match triangles zeqb g None with
  | Ok m => map_is names m (fun v t => Nat.eqb t (tri zeqb names sb v))
  | Err _ => true | _ => false
  end &&
  match generalized_degree zeqb g None with
  | Ok m => map_is names m (fun v h =>
              forallb (fun kc => negb (Nat.eqb (snd kc) 0) &&
                                 Nat.eqb (snd kc) (gen_degree zeqb names sb v (fst kc))) h &&
              Nat.eqb (fold_left (fun a kc => a + snd kc)%nat h 0%nat) (deg zeqb names sb v))
  | Err _ => true | _ => false
  end &&
  match transitivity zeqb g with
  | Ok t => q_eqb t (transitivity_def zeqb names sb) && unit_interval t
  | Err _ => true | _ => false
  end &&
  match clustering zeqb g None with
  | Ok m =>
    map_is names m (fun v c =>
      q_eqb c (if directed (sp g) then cc_directed zeqb names ab v else cc zeqb names sb v) &&
      unit_interval c) &&
    oq_eqb (match average_clustering zeqb g None true with Ok a => a | _ => Some (-1)%Q end)
           (mean true (map snd m)) &&
    oq_eqb (match average_clustering zeqb g None false with Ok a => a | _ => Some (-1)%Q end)
           (mean false (map snd m))
  | Err _ => true | _ => false
  end &&
  match square_clustering zeqb g None with
  | Ok m =>
    (* Lind's coefficient is defined for undirected single-edge graphs *)
    if directed (sp g) || multi (sp g) then true
    else map_is names m (fun v c => q_eqb c (square_def zeqb names sb v) && unit_interval c)
  | _ => false
  end.

(* restricting to a non-empty subset of existing nodes returns the full
   computation's values for exactly those nodes *)
Definition restrict_ok {V} (eqv : V -> V -> bool) (s : list Z) (full sub : outcome (list (Z * V))) : bool :=
  match full, sub with
  | Ok mf, Ok ms =>
    forallb (fun v => match lookup_z v mf, lookup_z v ms with
                      | Some a, Some b => eqv a b | _, _ => false end) s &&
    forallb (fun kv => memb zeqb (fst kv) s) ms &&
    nodupb zeqb (map fst ms)
  | Err a, Err b => errkind_eqb a b
  | _, _ => false
  end.

Fixpoint gd_eqb (a b : list (nat * nat)) : bool :=
  match a, b with
  | [], [] => true
  | (x, y) :: a', (x', y') :: b' => Nat.eqb x x' && Nat.eqb y y' && gd_eqb a' b'
  | _, _ => false
  end.

Definition chk_subset (g : zstate) (s : list Z) : bool :=
  match s with
  | [] => true
  | _ =>
    if negb (forallb (fun v => memb zeqb v (get_all_node_names g)) s) then true else
    restrict_ok Nat.eqb s (triangles zeqb g None) (triangles zeqb g (Some s)) &&
    restrict_ok q_eqb s (clustering zeqb g None) (clustering zeqb g (Some s)) &&
    restrict_ok gd_eqb s (generalized_degree zeqb g None) (generalized_degree zeqb g (Some s)) &&
    restrict_ok q_eqb s (square_clustering zeqb g None) (square_clustering zeqb g (Some s))
  end.

Definition obs_of (c : clcase) : list obs :=
  let r := build (cl_sp c) (cl_nodes c) (cl_edges c) in
  (1, [[outcome_code r]], []) ::
  match r with
  | Ok g =>
    let tv := transitivity zeqb g in
    [(2, [get_all_node_names g], []);
     match tv with Ok v => (36, [[0]], [v]) | _ => (36, [[outcome_code tv]], []) end;
     (29, [[-1]], [])] ++
    calls g None ++ (if cl_weighted c then calls_w g None else []) ++
    flat_map (fun is_ => (29, [[fst is_]], []) :: calls g (Some (snd is_)) ++
                         (if cl_weighted c then calls_w g (Some (snd is_)) else []))
             (combine (seqZ 0 (length (cl_subs c))) (cl_subs c)) ++
    [(49, [[if chk_defs g && forallb (chk_subset g) (cl_subs c) then 1 else 0]], [])]
  | _ => []
  end.

Definition run (c : clcase) : list (list Z) := enc_all (obs_of c).
Definition run_digest (c : clcase) : list (list Z) := digest_all (obs_of c).
