(* Executable instance (integer names) of the community models and the printers
   producing the same observation lines as harness/src/comm.rs.  Used by the
   correspondence checks of C12 (is_partition, modularity), C13 (Louvain) and
   C17 (the seeded Louvain runs of the reproducibility check). *)
From Coq Require Import String List Bool ZArith NArith Arith QArith.
From GV Require Import Base.Outcome Base.AMap Model.GState Model.Creation Model.Query Model.Derived
     Model.Partition Model.Louvain Spec.AGraph Spec.PartitionDef Proofs.PartitionStateOk Proofs.AggregationOk Proofs.MoveGainOk Run.Obs.
Import ListNotations.
Open Scope Z_scope.

Notation znode := (node Z Z).
Notation zedge := (edge Z Z).
Notation zstate := (gstate Z Z).

Definition CN (name : Z) (a : option Z) : znode := mknode name a.
Definition CE (u v : Z) (w : weight) (a : option Z) : zedge := mkedge u v w a.
Definition P_ (l : list (list Z)) : list (list nat) := map (map Z.to_nat) l.

Inductive call :=
| CMod (weighted : bool) (gamma : Q) (comms : list (list Z))
| CLouv (weighted : bool) (gamma : Q) (thr : Q) (seeded : bool) (perms : list (list nat)).

Record ccase := mkcc { c_sp : specs; c_nodes : list znode; c_edges : list zedge; c_calls : list call }.

Definition edge_row (e : zedge) : list Z := [eu e; ev e] ++ enc_w (ew e) ++ enc_oa (eattr e).
Definition node_row (n : znode) : list Z := nname n :: enc_oa (nattr n).

Definition sort_z (l : list Z) : list Z := sort_by Z.ltb l.
Definition level_rows (l : list (list Z)) : list (list Z) := map sort_z l.

Definition LEVEL_FUEL : nat := 40.
Definition SWEEP_FUEL : nat := 300.

(* ---- C12 ---- *)
Definition names_of (g : zstate) : list Z := PartitionStateOk.names_of g.

Definition abs_flag (g : zstate) (weighted : bool) (gamma : Q) (comms : list (list Z))
           (ip : outcome bool) (md : outcome oq) : bool :=
  let nodes := names_of g in
  (* per-case tie between model and code, kept after round 2: these links are now THEOREMS for every
     reachable state (C12_WF_nodes_coherent, C12_is_partition_reachable, C12_modularity_state_abs,
     C12_modularity_reachable in Properties/C12.v); a 0 here would mean the model left its invariant.
     The node indexes are coherent with the node list (hypothesis of C12_is_partition_state) *)
  nodes_coherentb Z.eqb g && nodupb Z.eqb nodes &&
  (* the list-level partition test the theorems are about agrees with the state-level model *)
  (match ip with
   | Ok b => Bool.eqb b (is_partition_model Z.eqb nodes comms)
   | _ => false
   end) &&
  (* ... and so do modularity_abs and Newman's closed formula *)
  (match md with
   | Ok (Some q) =>
     match wedges_of weighted (get_all_edges g) with
     | Some es =>
       Qeq_bool q (modularity_abs Z.eqb (directed (sp g)) nodes es gamma comms) &&
       Qeq_bool q (newman Z.eqb (directed (sp g)) es gamma comms)
     | None => false
     end
   | Ok None => true
   | Err NotAPartition => negb (is_partition_model Z.eqb nodes comms)
   | _ => false
   end).

Definition run_mod (g : zstate) (weighted : bool) (gamma : Q) (comms : list (list Z)) : list obs :=
  let ip := is_partition Z.eqb g comms in
  let md := modularity Z.eqb Z.ltb g comms weighted gamma in
  (match ip with Ok b => (200, [[if b then 1 else 0]], []) | _ => (1, [[100]], []) end) ::
  code_obs md ::
  (match md with
   | Ok (Some q) => [(201, [[1]], [q])]
   | Ok None => [(201, [[0]], [])]
   | _ => []
   end) ++
  [(210, [[if abs_flag g weighted gamma comms ip md then 1 else 0]], [])].

(* ---- C13 / C17 ---- *)
Definition level_mod_obs (g : zstate) (weighted : bool) (gamma : Q) (levels : list (list (list Z))) : obs :=
  let rs := map (fun l => modularity Z.eqb Z.ltb g l weighted gamma) levels in
  (72,
   map (fun r => match r with
                 | Ok (Some _) => [1]
                 | Ok None => [0]
                 | r' => [2; outcome_code r']
                 end) rs,
   flat_map (fun r => match r with Ok (Some q) => [q] | _ => [] end) rs).

Definition monotone_flag (g : zstate) (weighted : bool) (gamma : Q) (levels : list (list (list Z))) : bool :=
  if multi (sp g) then true else
  match wedges_of weighted (get_all_edges g) with
  | Some [] => true
  | Some es => monotone_check Z.eqb (directed (sp g)) (names_of g) es gamma levels
  | None => true
  end.

(* per-case link between the state-level generate_graph and the list-level [aggregate] that
   C13_aggregation_preserves_Q is about: after the first local-moving phase, the edges of the
   generated community graph are, as a multiset, the aggregation of the working graph's edges.
   Round 2: this is now a theorem (C13_generate_graph_aggregates); the flag is kept because it
   still ties the evaluated model to the code on every case. *)
Fixpoint part_index (x : nat) (parts : list (list nat)) (i : nat) : nat :=
  match parts with
  | [] => i
  | p :: t => if mem Nat.eqb x p then i else part_index x t (S i)
  end.

Definition wedge_in (e : nat * nat * Q) (l : list (nat * nat * Q)) : bool :=
  existsb (fun f => Nat.eqb (wu e) (wu f) && Nat.eqb (wv e) (wv f) && Qeq_bool (ww e) (ww f)) l.

Definition same_wedges (a b : list (nat * nat * Q)) : bool :=
  Nat.eqb (length a) (length b) && forallb (fun e => wedge_in e b) a && forallb (fun e => wedge_in e a) b.

Definition agg_link_flag (g : zstate) (weighted : bool) (gamma : Q) (perms : list (list nat)) : bool :=
  match convert_graph Z.eqb Z.ltb g weighted (node_map_of Z.ltb g) with
  | Ok gu =>
    match size_q gu weighted with
    | Ok m =>
      match compute_one_level SWEEP_FUEL gu m (map_node_names_to_hashsets gu) gamma perms with
      | Ok (_, inner, _, _) =>
        match generate_graph gu inner, wedges_of true (get_all_edges gu) with
        | Ok g2, Some es =>
          match wedges_of true (get_all_edges g2) with
          | Some es2 =>
            same_wedges es2 (aggregate (directed (sp gu)) (map (relabel (fun x => part_index x inner 0)) es))
          | None => false
          end
        | _, _ => false
        end
      | _ => false
      end
    | _ => true
    end
  | _ => false
  end.

(* per-case evaluation of the bookkeeping invariants L1-L3 of DESIGN Appendix B at the end of
   the first local-moving phase (round 2: proved for every level, fuel and order as C13_bookkeeping
   and C13_neighbor_weights_between; the flag is kept as a tie between model and code), in the
   form the move-gain theorems use them:
   L1 node2com u = c  <->  u in inner_partition[c];  L2 _partition[c] = inner_partition[c] (the
   nodes' attribute sets are singletons at this level);  L3 Stot[c] = K_c (directed: Stot_in[c] =
   Kin_c, Stot_out[c] = Kout_c) computed directly on the working graph's edge multiset; and the
   neighbour-community weights of every node equal [between] (the quantity of C13_move_gain_newman) *)
Definition same_set (a b : list nat) : bool :=
  forallb (fun x => mem Nat.eqb x b) a && forallb (fun x => mem Nat.eqb x a) b.

Fixpoint zip_all {X Y} (f : X -> Y -> bool) (a : list X) (b : list Y) : bool :=
  match a, b with
  | [], [] => true
  | x :: a', y :: b' => f x y && zip_all f a' b'
  | _, _ => false
  end.

Definition bookkeeping_flag (g : zstate) (weighted : bool) (gamma : Q) (perms : list (list nat)) : bool :=
  match convert_graph Z.eqb Z.ltb g weighted (node_map_of Z.ltb g) with
  | Ok gu =>
    match size_q gu weighted, wedges_of true (get_all_edges gu) with
    | Ok m, Some es =>
      match compute_one_level_state SWEEP_FUEL gu m (map_node_names_to_hashsets gu) gamma perms with
      | Ok s =>
        let inner := ls_inner s in
        (* L1 *)
        forallb (fun uc => match nth_error inner (snd uc) with
                           | Some p => mem Nat.eqb (fst uc) p
                           | None => false
                           end) (ls_node2com s) &&
        forallb (fun ip => forallb (fun u => match lookup Nat.eqb u (ls_node2com s) with
                                             | Some c => Nat.eqb c (snd ip)
                                             | None => false
                                             end) (fst ip))
                (enumerate_from 0 inner) &&
        (* L2 *)
        zip_all same_set (ls_partition s) inner &&
        (* L3 *)
        (if directed (sp gu)
         then zip_all (fun st c => Qeq_bool st (Kin_of Nat.eqb es c)) (stot_in (ls_deg s)) inner &&
              zip_all (fun st c => Qeq_bool st (Kout_of Nat.eqb es c)) (stot_out (ls_deg s)) inner
         else zip_all (fun st c => Qeq_bool st (K_of Nat.eqb es c)) (stot (ls_deg s)) inner) &&
        (* the per-community weights of every node are the weights [between] it and the community *)
        forallb (fun u =>
                   match (do w0 <- get_neighbor_weights gu u (successors gu) (ls_node2com s);
                          if directed (sp gu)
                          then add_predecessor_weights gu u (predecessors gu) (ls_node2com s) w0
                          else Ok w0) with
                   | Ok w2c =>
                     forallb (fun cw => match nth_error inner (fst cw) with
                                        | Some p => Qeq_bool (snd cw) (between Nat.eqb es u (set_remove u p))
                                        | None => false
                                        end) w2c &&
                     forallb (fun ip => match lookup Nat.eqb (snd ip) w2c with
                                        | Some _ => true
                                        | None => Qeq_bool 0 (between Nat.eqb es u (set_remove u (fst ip)))
                                        end) (enumerate_from 0 inner)
                   | _ => false
                   end) (map nname (get_all_nodes gu))
      | _ => false
      end
    | _, _ => true
    end
  | _ => false
  end.

Definition run_louv (g : zstate) (weighted : bool) (gamma thr : Q) (seeded : bool) (perms : list (list nat))
  : list obs :=
  let r := louvain_partitions_t Z.eqb Z.ltb LEVEL_FUEL SWEEP_FUEL g weighted gamma thr perms in
  let rc := louvain_communities Z.eqb Z.ltb LEVEL_FUEL SWEEP_FUEL g weighted gamma thr perms in
  (if seeded then [(70, map (map Z.of_nat) perms, [])] else []) ++
  code_obs r ::
  (match r with
   | Ok (levels, tie) =>
     (71, [[zn (length levels)]], []) ::
     map (fun l => (1300, level_rows l, [])) levels ++
     [level_mod_obs g weighted gamma levels;
      (74, [[if check_levels Z.eqb (names_of g) levels then 1 else 0]], []);
      (75, [[if monotone_flag g weighted gamma levels then 1 else 0]], []);
      (76, [[if agg_link_flag g weighted gamma perms then 1 else 0]], []);
      (77, [[if bookkeeping_flag g weighted gamma perms then 1 else 0]], [])]
   | _ => []
   end) ++
  code_obs rc ::
  (match rc with Ok l => [(1301, level_rows l, [])] | _ => [] end) ++
  [(73, [[match r with Ok (_, true) => 1 | _ => 0 end]], [])].

Definition run_call (g : zstate) (c : call) : list obs :=
  match c with
  | CMod w gm cs => run_mod g w gm cs
  | CLouv w gm thr sd ps => run_louv g w gm thr sd ps
  end.

Definition obs_of (c : ccase) : list obs :=
  let r := new_from_nodes_and_edges Z.eqb Z.ltb (c_nodes c) (c_edges c) (c_sp c) in
  code_obs r ::
  match r with
  | Ok g =>
    (2, map node_row (get_all_nodes g), []) ::
    (1003, map edge_row (get_all_edges g), []) ::
    flat_map (run_call g) (c_calls c)
  | _ => []
  end.

Definition run (c : ccase) : list (list Z) := enc_all (obs_of c).
Definition run_digest (c : ccase) : list (list Z) := digest_all (obs_of c).
