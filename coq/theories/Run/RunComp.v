(* C10 Run module: prints exactly the observations of harness/src/comp.rs for one
   graph, and evaluates the verified checker of Spec/ReachDef.v (and the other
   per-case checks) on the MODEL's output (observation kind 25). *)
From Coq Require Import String List Bool ZArith NArith Arith QArith.
From GV Require Import Base.Outcome Base.AMap Model.GState Model.Creation Model.Query
     Model.Components Model.Scc Spec.ReachDef Spec.CompSpec Proofs.PartitionsTotalOk.
From GV Require Export Run.RunGraphC.
Import ListNotations.
Close Scope Q_scope.
Open Scope Z_scope.

Record ccase := mkcc { cc_sp : specs; cc_nodes : list znode; cc_edges : list zedge; cc_absent : Z;
                        cc_readd : list Z }.

(* nodes re-added AFTER the edges (add_node on an existing name: the documented way to update attributes) *)
Definition readd (g : zstate) (xs : list Z) : outcome zstate :=
  fold_left (fun r x => match r with Ok g' => add_node zeqb g' (mknode x (Some 7%Z)) | e => e end) xs (Ok g).

Definition comps_obs (kc ks : Z) (r : outcome (list (list Z))) : list obs :=
  (kc, [[outcome_code r]], []) ::
  match r with
  | Ok cs => [(ks, map sort_z cs, [])]
  | _ => []
  end.

Definition bfs_obs (g : zstate) (x : Z) : obs :=
  match breadth_first_search zeqb g x with
  | Ok l => (18, [[x; 0; match l with [] => -1 | h :: _ => h end] ++ sort_z l], [])
  | r => (18, [[x; outcome_code r]], [])
  end.

Definition part_obs (g : zstate) (k : nat) : list obs :=
  match bfs_equal_size_partitions g k with
  | Ok parts => [(20, [[zn k; 0]], []); (21, parts, [])]
  | r => [(20, [[zn k; outcome_code r]], [])]
  end.

(* ---- per-case checks on the model's own output (kind 25) ---- *)
Definition chk_comps (g : zstate) (k : rel_kind) (r : outcome (list (list Z))) : bool :=
  match r with
  | Ok cs => check_components_g zeqb g k cs
  | Err _ => true
  | _ => false
  end.

Definition same_set (a b : list Z) : bool := list_eqb (sort_z a) (sort_z b).

(* breadth_first_search(x): head x, no duplicate, elements = the closure of x
   (over the edge list; ignoring direction when the graph is undirected) *)
Definition chk_bfs (g : zstate) (x : Z) : bool :=
  match breadth_first_search zeqb g x with
  | Ok l =>
    let names := get_all_node_names g in
    let nb := if directed (sp g) then adj_e names (g_adj zeqb g) zeqb else adj_s names (g_adj zeqb g) zeqb in
    let cl := closure names zeqb nb x in
    match l with h :: _ => Z.eqb h x | [] => false end &&
    nodupb zeqb l && closed zeqb nb cl && same_set l cl
  | _ => false
  end.

Definition chk_node_comp (g : zstate) (ccs : outcome (list (list Z))) (x : Z) : bool :=
  match node_connected_component zeqb g x, ccs with
  | Ok s, Ok cs => existsb (fun c => memb zeqb x c && same_set c s) cs
  | Err _, Err _ => true
  | _, _ => false
  end.

(* bfs_equal_size_partitions(k): k parts, every node in exactly one, size <= n/k+1 *)
Definition chk_parts (g : zstate) (k : nat) : bool :=
  match bfs_equal_size_partitions g k with
  | Ok parts =>
    let names := get_all_node_names g in
    Nat.eqb (length parts) k &&
    nodupb zeqb (concat parts) &&
    Nat.eqb (length (concat parts)) (length names) &&
    forallb (fun x => memb zeqb x names) (concat parts) &&
    forallb (fun p => Nat.leb (length p) (S (length names / k))) parts
  | _ => false
  end.

Definition chk_all (g : zstate) : bool :=
  let names := get_all_node_names g in
  let cc := connected_components zeqb g in
  let wc := weakly_connected_components zeqb g in
  let sc := strongly_connected_components zeqb (fun l => l) g in
  let sc' := strongly_connected_components zeqb (@rev Z) g in
  chk_comps g RConn cc && chk_comps g RConn wc && chk_comps g RStrong sc &&
  (* hypotheses of C10_connected_checked / C10_weak_checked *)
  (if directed (sp g) then wstep_ok_b zeqb g else step_ok_b zeqb g) &&
  step_total_b zeqb g && vec_ok_b g &&
  (* the SCC result does not depend on the neighbour iteration order *)
  match sc, sc' with
  | Ok a, Ok b => lists_eqb (canon_sets a) (canon_sets b)
  | Err _, Err _ => true
  | _, _ => false
  end &&
  match number_of_connected_components zeqb g, cc with
  | Ok n, Ok cs => Nat.eqb n (length cs)
  | Err _, Err _ => true
  | _, _ => false
  end &&
  forallb (chk_node_comp g cc) names &&
  forallb (chk_bfs g) names &&
  forallb (chk_parts g) (seq 1 (length names + 2)).

Definition obs_of (c : ccase) : list obs :=
  let r := match build (cc_sp c) (cc_nodes c) (cc_edges c) with Ok g0 => readd g0 (cc_readd c) | e => e end in
  (1, [[outcome_code r]], []) ::
  match r with
  | Ok g =>
    let names := get_all_node_names g in
    let cc := connected_components zeqb g in
    let nc := number_of_connected_components zeqb g in
    [(2, [names], [])] ++
    comps_obs 10 1011 cc ++
    [(12, [[outcome_code nc; match nc with Ok n => zn n | _ => -1 end]], [])] ++
    map (fun x => let r := node_connected_component zeqb g x in
                  (13, [[x; outcome_code r] ++ match r with Ok s => sort_z s | _ => [] end], []))
        (names ++ [cc_absent c]) ++
    comps_obs 14 1015 (weakly_connected_components zeqb g) ++
    comps_obs 16 1017 (strongly_connected_components zeqb (fun l => l) g) ++
    map (bfs_obs g) names ++
    flat_map (part_obs g) (seq 1 (length names + 2)) ++
    [(25, [[if chk_all g then 1 else 0]], [])]
  | _ => []
  end.

Definition run (c : ccase) : list (list Z) := enc_all (obs_of c).
Definition run_digest (c : ccase) : list (list Z) := digest_all (obs_of c).
