(* Executable instance of the Dijkstra model on Graph<i64,i64> and the printers
   producing the same observations as harness/src/sp.rs (C04, C08). *)
From Coq Require Import String List Bool ZArith NArith Arith QArith.
From GV Require Import Base.Outcome Base.AMap Model.GState Model.Creation Model.Query Model.Dijkstra.
From GV Require Import Spec.ShortestPathDef Spec.ShortestPathCheck Spec.DijkstraWF Run.Obs.
Import ListNotations.
Open Scope Z_scope.

Notation znode := (node Z Z).
Notation zedge := (edge Z Z).
Notation zstate := (gstate Z Z).

Definition N_ (name : Z) (a : option Z) : znode := mknode name a.
Definition E_ (u v : Z) (w : weight) (a : option Z) : zedge := mkedge u v w a.

Inductive spfn := FSingle | FMulti | FAllPairs | FInvolving.

(* level: what the property fixes about the paths of this call and is therefore
   compared with the implementation: 2 = the path sets, 1 = the number of
   paths, 0 = nodes and distances only *)
Record spcall := mkcall {
  c_fn : spfn; c_weighted : bool; c_level : Z; c_sources : list Z;
  c_target : option Z; c_cutoff : option Q; c_fo : bool; c_wp : bool }.

Record spcase := mkspcase {
  s_sp : specs; s_nodes : list znode; s_edges : list zedge; s_calls : list spcall }.

Definition teqb := Z.eqb.
Definition tltb := Z.ltb.
Definition THREADS : nat := 2.

Definition edge_row (e : zedge) : list Z := [eu e; ev e] ++ enc_w (ew e) ++ enc_oa (eattr e).
Definition node_row (n : znode) : list Z := nname n :: enc_oa (nattr n).

Definition srt (l : list (list Z)) : list (list Z) := map fst (sort_rows (map (fun r => (r, tt)) l)).

Definition info_row (level : Z) (key : list Z) (i : spinfo Z) : list Z :=
  if Z.eqb level 0 then key else
  key ++ [zn (length (sp_paths i))] ++
  (if Z.eqb level 1 then [] else flat_map (fun p => zn (length p) :: p) (srt (sp_paths i))).

Definition dq (i : spinfo Z) : Q := inject_Z (sp_distance i).

(* with a target only the target's entry is fixed by the property (which other
   nodes happen to be finalised before the target depends on the heap's tie
   order), so only that entry is compared with the implementation *)
Definition keep_target (target : option Z) (m : list (Z * spinfo Z)) : list (Z * spinfo Z) :=
  match target with
  | None => m
  | Some t => filter (fun kv => Z.eqb (fst kv) t) m
  end.

Definition single_obs (level : Z) (target : option Z) (m : list (Z * spinfo Z)) : obs :=
  let m := keep_target target m in
  (1040, map (fun kv => info_row level [fst kv] (snd kv)) m, map (fun kv => dq (snd kv)) m).

Definition pairs_obs (level : Z) (target : option Z) (m : list (Z * list (Z * spinfo Z))) : obs :=
  let flat := flat_map (fun sm => map (fun kv => ([fst sm; fst kv], snd kv)) (keep_target target (snd sm))) m in
  (1041, map (fun ki => info_row level (fst ki) (snd ki)) flat, map (fun ki => dq (snd ki)) flat).

Definition ends_key (i : spinfo Z) : list Z :=
  match sp_paths i with
  | [] => [-1; -1]
  | p :: _ => match p, rev p with a :: _, b :: _ => [a; b] | _, _ => [-1; -1] end
  end.
Definition involving_obs (level : Z) (l : list (spinfo Z)) : obs :=
  (1042, map (fun i => info_row level (ends_key i) i) l, map dq l).

(* ---- the verified checkers evaluated on the model's own (index level) answers *)
Definition to_answer (l : list (nat * spinfo nat)) : answer :=
  map (fun ki => (fst ki, (sp_distance (snd ki), sp_paths (snd ki)))) l.

Fixpoint find_info (k : nat) (l : list (nat * spinfo nat)) : option Z :=
  match l with
  | [] => None
  | (k', i) :: t => if Nat.eqb k k' then Some (sp_distance i) else find_info k t
  end.
Definition dvec_of (n : nat) (l : list (nat * spinfo nat)) : dvec :=
  map (fun k => find_info k l) (seq 0 n).

Definition index_of (g : zstate) (x : Z) : option nat := lookup teqb x (nodes_map g).

(* one source: distances of the unrestricted distance-only search certify
   themselves ([check_dist]); the answer of the call with its options is then
   checked against them ([check_result]) *)
Definition check_one (g : zstate) (weighted : bool) (si : nat) (target : option Z)
           (ti : option nat) (cutoff : option Q) (fo wp : bool) : bool :=
  let wg := wgraph_of weighted (successors_vec g) in
  match dijkstra_basic g weighted si,
        run_from_index g weighted si target ti cutoff fo wp with
  | Ok base, Ok r =>
    let d := dvec_of (number_of_nodes g) base in
    check_dist wg si d && check_result wg d si ti cutoff fo wp (to_answer r)
  | _, _ => false
  end.

Definition check_sources (g : zstate) (c : spcall) (sources : list Z) : bool :=
  let ti := match c_target c with Some t => index_of g t | None => None end in
  forallb (fun s => match index_of g s with
                    | Some si => check_one g (c_weighted c) si (c_target c) ti (c_cutoff c) (c_fo c) (c_wp c)
                    | None => false
                    end) sources.

(* get_all_shortest_paths_involving against the verified enumeration: the pair
   (s, t) is expected iff some enumerated shortest path has x strictly inside *)
Definition inside_b (x : nat) (p : list nat) : bool :=
  if Nat.leb (length p) 2 then false else memn x (removelast (tl p)).
Definition expected_involving (g : zstate) (weighted : bool) (xi : nat) : option (list (list Z)) :=
  let n := number_of_nodes g in
  let wg := wgraph_of weighted (successors_vec g) in
  let per := map (fun si =>
    match dijkstra_basic g weighted si with
    | Ok base =>
      let d := dvec_of n base in
      if check_dist wg si d then
        Some (flat_map (fun t => match dget d t with
                                 | Some x => if existsb (inside_b xi) (asp (S (Z.to_nat x)) wg d si t)
                                             then [[zn si; zn t; x]] else []
                                 | None => []
                                 end) (seq 0 n))
      else None
    | _ => None
    end) (seq 0 n) in
  if forallb (fun o => match o with Some _ => true | None => false end) per
  then Some (flat_map (fun o => match o with Some l => l | None => [] end) per) else None.

Fixpoint rows_eqb (x y : list (list Z)) : bool :=
  match x, y with
  | [], [] => true
  | r :: x', q :: y' => row_leb r q && row_leb q r && rows_eqb x' y'
  | _, _ => false
  end.

Definition check_involving (g : zstate) (weighted : bool) (x : Z) (l : list (spinfo Z)) : bool :=
  match index_of g x with
  | None => match l with [] => true | _ => false end
  | Some xi =>
    match expected_involving g weighted xi with
    | None => false
    | Some ex =>
      let got := map (fun i => match ends_key i with
                               | [a; b] => match index_of g a, index_of g b with
                                           | Some ai, Some bi => [zn ai; zn bi; sp_distance i]
                                           | _, _ => [-1]
                                           end
                               | _ => [-1]
                               end) l in
      rows_eqb (srt got) (srt ex)
    end
  end.

Definition flag_obs (b : bool) : obs := (45, [[if b then 1 else 0]], []).

Definition run_call (g : zstate) (c : spcall) : list obs :=
  match c_fn c with
  | FSingle =>
    match c_sources c with
    | s :: _ =>
      let r := single_source teqb g (c_weighted c) s (c_target c) (c_cutoff c) (c_fo c) (c_wp c) in
      code_obs r ::
      match r with
      | Ok m => [single_obs (c_level c) (c_target c) m; flag_obs (check_sources g c [s])]
      | _ => []
      end
    | [] => []
    end
  | FMulti =>
    let r := multi_source teqb THREADS g (c_weighted c) (c_sources c) (c_target c) (c_cutoff c) (c_fo c) (c_wp c) in
    code_obs r ::
    match r with
    | Ok m => [pairs_obs (c_level c) (c_target c) m; flag_obs (check_sources g c (c_sources c))]
    | _ => []
    end
  | FAllPairs =>
    let r := all_pairs teqb THREADS g (c_weighted c) (c_target c) (c_cutoff c) (c_fo c) (c_wp c) in
    code_obs r ::
    match r with
    | Ok m => [pairs_obs (c_level c) (c_target c) m; flag_obs (check_sources g c (get_all_node_names g))]
    | _ => []
    end
  | FInvolving =>
    match c_sources c with
    | x :: _ =>
      let r := get_all_shortest_paths_involving teqb THREADS g x (c_weighted c) in
      code_obs r ::
      match r with
      | Ok l => [involving_obs (c_level c) l; flag_obs (check_involving g (c_weighted c) x l)]
      | _ => []
      end
    | [] => []
    end
  end.

Definition ops_of (c : spcase) : list obs :=
  let r := new_from_nodes_and_edges teqb tltb (s_nodes c) (s_edges c) (s_sp c) in
  code_obs r ::
  match r with
  | Ok g =>
    (2, map node_row (get_all_nodes g), []) ::
    (1003, map edge_row (get_all_edges g), []) ::
    (* the hypotheses of the theorems of Properties/C04.v hold for this graph
       (weighted reading, hop-count reading), and the name indexes are coherent *)
    (46, [[if search_hypotheses_b g true then 1 else 0;
           if search_hypotheses_b g false then 1 else 0;
           if names_wf_b teqb g then 1 else 0]], []) ::
    flat_map (run_call g) (s_calls c)
  | _ => []
  end.

Definition run (c : spcase) : list (list Z) := enc_all (ops_of c).
Definition run_digest (c : spcase) : list (list Z) := digest_all (ops_of c).
