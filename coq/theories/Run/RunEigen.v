(* Correspondence run for C18 (eigenvector_centrality).  The model of
   Model/Eigen.v is executed at the instance of Coq's primitive binary64
   floats (IEEE rounding itself is in the trusted base; no theorem mentions
   this instance).  Observations: build outcome, call outcome, the vector as
   exact binary64 values (rows [name; mantissa; exponent]), and (model side only, kind 72) the threshold n*tol followed
   by the L1 changes the loop compared with it — the driver uses them to skip
   the outcome comparison when a decisive comparison is within 1e-9 relative
   of the threshold. *)
From Coq Require Import String List Bool ZArith NArith Arith QArith Floats Uint63.
From GV Require Import Base.Outcome Base.AMap Model.GState Model.Creation Model.Query Model.Eigen Run.Obs.
From GV Require Export Run.RunGraph.
Import ListNotations.
Open Scope Z_scope.

Definition fofZ (z : Z) : float :=
  match z with
  | Z0 => 0%float
  | Zpos _ => PrimFloat.of_uint63 (Uint63.of_Z z)
  | Zneg p => PrimFloat.opp (PrimFloat.of_uint63 (Uint63.of_Z (Zpos p)))
  end.

Definition NumF : Num :=
  mkNum float 0%float 1%float PrimFloat.add PrimFloat.sub PrimFloat.mul PrimFloat.div
        PrimFloat.abs PrimFloat.sqrt PrimFloat.ltb PrimFloat.eqb fofZ.

(* exact value of a finite binary64 as [mantissa; exponent] (value = mantissa * 2^exponent);
   rationals are not used here because normalising 2^-1074-scale fractions is slow *)
Definition f2me (f : float) : option (list Z) :=
  match Prim2SF f with
  | SpecFloat.S754_zero _ => Some [0; 0]
  | SpecFloat.S754_finite s m e => Some [if s then Zneg m else Zpos m; e]
  | _ => None
  end.

Fixpoint f2me_all (l : list float) : option (list (list Z)) :=
  match l with
  | [] => Some []
  | f :: t => match f2me f, f2me_all t with Some q, Some t' => Some (q :: t') | _, _ => None end
  end.

Record ecase := mkec { e_g : gcase; e_weighted : bool; e_max_iter : option nat; e_tol : option Q }.

Definition obs_of (c : ecase) : list obs :=
  let r := build (e_g c) in
  code_obs r ::
  match r with
  | Ok g =>
    let res := eigenvector_centrality Z.eqb NumF g (e_weighted c) (e_max_iter c) (e_tol c) in
    code_obs res ::
    (match res with
     | Ok m =>
       match f2me_all (map snd m) with
       | Some qs => [(1070, map (fun kv => fst kv :: snd kv) (combine (map fst m) qs), [])]
       | None => [(73, [[0]], [])]              (* a NaN / infinite entry *)
       end
     | _ => []
     end) ++
    (if multi (sp g) then [] else
     let mi := match e_max_iter c with Some k => k | None => 100%nat end in
     let tl := match e_tol c with Some q => nofQ NumF q | None => nofQ NumF (1 # 1000000) end in
     let thr := threshold NumF g tl in
     match f2me_all (thr :: trace Z.eqb NumF mi g (e_weighted c) thr (init_x Z.eqb NumF g)) with
     | Some qs => [(72, qs, [])]
     | None => [(73, [[1]], [])]
     end)
  | _ => []
  end.

Definition run (c : ecase) : list (list Z) := enc_all (obs_of c).
Definition run_digest (c : ecase) : list (list Z) := digest_all (obs_of c).
