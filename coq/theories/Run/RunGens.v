(* C16: case type and observation printers for the generators, producing the
   same observation lines as harness/src/gens.rs.

   [full = true]: the observations are read off the twelve-field graph state
   built by the transcribed creation code (Model/Creation.v), i.e. off
   [complete_graph] / [fast_gnp_random_graph] themselves.
   [full = false] (large cases, where building the association-list state
   inside Coq would be quadratic): the observations are the node range and the
   edge-tuple vector the generator hands to the creation code
   ([complete_pairs] / [gnp_pairs]); Proofs/GensOk.v proves that the graph built
   from them has exactly these nodes and edges. *)
From Coq Require Import String List Bool ZArith QArith Arith.
From GV Require Import Base.Outcome Base.AMap Model.GState Model.Creation Model.Query.
From GV Require Export Model.Classic Model.Gnp.
From GV Require Import Run.Obs Gen.KarateData.
Import ListNotations.
Open Scope Z_scope.

Inductive gcase :=
| GComplete (full : bool) (n : Z) (dir : bool)
| GGnp (full : bool) (n : Z) (p : f64v) (dir : bool) (gaps : list Z)
| GKarate.

(* orientation printed for an undirected edge: smaller name first / larger name first *)
Inductive orient := ODirected | OLoHi | OHiLo.
Definition pair_row (o : orient) (p : Z * Z) : list Z :=
  let '(a, b) := p in
  match o with
  | ODirected => [a; b]
  | OLoHi => [Z.min a b; Z.max a b]
  | OHiLo => [Z.max a b; Z.min a b]
  end.

Definition sorted_rows (rows : list (list Z)) : list (list Z) :=
  map fst (sort_rows (map (fun r => (r, tt)) rows)).

Definition graph_obs (o : orient) (g : ggraph) : list obs :=
  [ (2, map (fun x => [nname x]) (get_all_nodes g), []);
    (3, sorted_rows (map (fun e => pair_row o (eu e, ev e)) (get_all_edges g)), []) ].

Definition pairs_obs (o : orient) (n : Z) (ps : list (Z * Z)) : list obs :=
  [ (2, map (fun i => [i]) (zrange n), []);
    (3, map (pair_row o) ps, []) ].

Definition gnp_fast (n : Z) (p : f64v) (dir : bool) (gaps : list Z) : outcome (list (Z * Z)) :=
  if negb (f_gt0 p && f_lt1 p) then Err InvalidArgument else gnp_pairs n dir gaps.

Definition obs_of (c : gcase) : list obs :=
  match c with
  | GComplete full n dir =>
    let o := if dir then ODirected else OLoHi in
    if full then
      let r := complete_graph n dir in
      code_obs r :: match r with Ok g => graph_obs o g | _ => [] end
    else
      (* combinations / permutations are emitted in lexicographic order *)
      code_obs (Ok tt) :: pairs_obs o n (complete_pairs n dir)
  | GGnp full n p dir gaps =>
    let o := if dir then ODirected else OHiLo in
    if full then
      let r := fast_gnp_random_graph n p dir gaps in
      code_obs r :: (40, [gaps], []) :: match r with Ok g => graph_obs o g | _ => [] end
    else
      let r := gnp_fast n p dir gaps in
      code_obs r :: (40, [gaps], []) :: match r with Ok ps => pairs_obs o n ps | _ => [] end
  | GKarate =>
    let r := karate_club_graph karate_rows karate_node_bound in
    match r with
    | Ok g => (1, [[0; if directed (sp g) then 1 else 0; if multi (sp g) then 1 else 0]], [])
              :: graph_obs OLoHi g
    | _ => [code_obs r]
    end
  end.

Definition run (c : gcase) : list (list Z) := enc_all (obs_of c).
Definition run_digest (c : gcase) : list (list Z) := digest_all (obs_of c).
