(* Shared by the centrality correspondence runs (C05, C06, C18): a case is a
   GraphSpecs value, a node list and an edge list handed to
   `Graph::new_from_nodes_and_edges` (names are integers, no attributes). *)
From Coq Require Import String List Bool ZArith NArith Arith QArith.
From GV Require Import Base.Outcome Base.AMap Model.GState Model.Creation Model.Query Run.Obs.
Import ListNotations.
Open Scope Z_scope.

Notation znode := (node Z Z).
Notation zedge := (edge Z Z).
Notation zstate := (gstate Z Z).

Record gcase := mkgc { gc_sp : specs; gc_nodes : list Z; gc_edges : list (Z * Z * weight) }.

Definition build (c : gcase) : outcome zstate :=
  new_from_nodes_and_edges Z.eqb Z.ltb
    (map (fun x => mknode x None) (gc_nodes c))
    (map (fun e => mkedge (fst (fst e)) (snd (fst e)) (snd e) None) (gc_edges c))
    (gc_sp c).

Fixpoint ins_kq (x : Z * Q) (l : list (Z * Q)) : list (Z * Q) :=
  match l with
  | [] => [x]
  | y :: t => if Z.leb (fst x) (fst y) then x :: l else y :: ins_kq x t
  end.
Definition sort_kq (l : list (Z * Q)) : list (Z * Q) := fold_right ins_kq [] l.

(* a name -> value map as one observation (kind >= 1000: sorted by the driver) *)
Definition map_obs (kind : Z) (m : list (Z * Q)) : obs :=
  (kind, map (fun kv => [fst kv]) m, map snd m).

Fixpoint kq_eqb (a b : list (Z * Q)) : bool :=
  match a, b with
  | [], [] => true
  | x :: a', y :: b' => Z.eqb (fst x) (fst y) && Qeq_bool (snd x) (snd y) && kq_eqb a' b'
  | _, _ => false
  end.

Definition flag (kind : Z) (b : bool) : obs := (kind, [[if b then 1 else 0]], []).
