(* Shared by the graph-algorithm Run modules (C10, C11): integer instance of
   the state model, graph construction as the harness does it
   (Graph<i64,i64>::new_from_nodes_and_edges), small sorting helpers, and the
   adjacency read off the EDGE LIST (independent of the adjacency indexes the
   algorithms read) used by the executable definitions / checkers. *)
From Coq Require Import String List Bool ZArith NArith Arith QArith.
From GV Require Import Base.Outcome Base.AMap Model.GState Model.Creation Model.Query.
From GV Require Export Run.Obs.
Import ListNotations.
Close Scope Q_scope.
Open Scope Z_scope.

Notation znode := (node Z Z).
Notation zedge := (edge Z Z).
Notation zstate := (gstate Z Z).

Definition N_ (name : Z) (a : option Z) : znode := mknode name a.
Definition E_ (u v : Z) (w : weight) (a : option Z) : zedge := mkedge u v w a.

Definition zeqb := Z.eqb.
Definition zltb := Z.ltb.

Definition build (s : specs) (ns : list znode) (es : list zedge) : outcome zstate :=
  new_from_nodes_and_edges zeqb zltb ns es s.

Fixpoint ins_z (x : Z) (l : list Z) : list Z :=
  match l with
  | [] => [x]
  | y :: t => if Z.leb x y then x :: l else y :: ins_z x t
  end.
Definition sort_z (l : list Z) : list Z := fold_right ins_z [] l.

Fixpoint list_eqb (a b : list Z) : bool :=
  match a, b with
  | [], [] => true
  | x :: a', y :: b' => Z.eqb x y && list_eqb a' b'
  | _, _ => false
  end.

(* sets of sets in canonical form *)
Definition canon_sets (cs : list (list Z)) : list (list Z) :=
  map fst (sort_rows (map (fun c => (sort_z c, tt)) cs)).
Fixpoint lists_eqb (a b : list (list Z)) : bool :=
  match a, b with
  | [], [] => true
  | x :: a', y :: b' => list_eqb x y && lists_eqb a' b'
  | _, _ => false
  end.

(* adjacency read off the edge list *)
Definition edge_adj (g : zstate) (u : Z) : list Z :=
  map (fun e => ev e) (filter (fun e => Z.eqb (eu e) u) (get_all_edges g)).

Definition seqZ (a : Z) (n : nat) : list Z := map (fun i => a + Z.of_nat i) (seq 0 n).
