(* Executable cases of the GraphML checks (C14, C19) and the printers that
   produce the same observation lines as harness/src/graphml.rs.
     CCodec  — escape / unescape on one string
     CF64    — the f64 print/parse oracle sample (nothing to model: a count)
     CGraph  — build a graph, write it, read it back (C14)
     CDoc    — read one document given as quick-xml's events (C19)
   The weight print/parse oracles are tables delivered with the case (the
   harness obtained them from Rust's f64 Display / FromStr). *)
From Coq Require Import String List Bool ZArith NArith Arith QArith.
From GV Require Import Base.Outcome Base.AMap Model.GState Model.Creation Model.Query.
From GV Require Import Model.XmlEscape Model.GraphML Spec.AGraph Spec.GraphMLDef Run.Obs.
Import ListNotations.
Open Scope Z_scope.

Definition zb (s : bytes) : list Z := map Z.of_N s.
Definition lenb (s : bytes) : Z := Z.of_nat (length s).

(* parse oracle table: text -> None (not a number) | Some None (NaN) | Some (Some tok) *)
Definition ptable := list (bytes * option weight).
Definition parse_of (t : ptable) (raw : bytes) : option weight :=
  match lookup bytes_eqb raw t with Some r => r | None => None end.
(* print oracle table: token -> text *)
Definition ftable := list (Z * bytes).
Definition fmt_of (t : ftable) (z : Z) : bytes :=
  match lookup Z.eqb z t with Some r => r | None => [] end.

Definition attr_row (a : attr) : list Z :=
  match a with
  | AttrErr => [0]
  | AttrOk k v => [1; lenb k] ++ zb k ++ [lenb v] ++ zb v
  end.

Definition pw_row (p : option weight) : list Z :=
  match p with
  | None => [0; 0]
  | Some None => [1; 0]
  | Some (Some z) => [2; z]
  end.

Definition ev_row (pt : ptable) (e : event) : list Z :=
  match e with
  | EvStart n a => [1; lenb n] ++ zb n ++ [Z.of_nat (length a)] ++ flat_map attr_row a
  | EvEmpty n a => [2; lenb n] ++ zb n ++ [Z.of_nat (length a)] ++ flat_map attr_row a
  | EvEnd n => [3; lenb n] ++ zb n
  | EvText raw => [4; lenb raw] ++ zb raw ++ pw_row (parse_of pt raw)
  | EvOther => [5]
  | EvComment => [8]
  | EvEof => [6]
  | EvErr => [7]
  end.

Definition gedge_row (e : gedge) : list Z :=
  [lenb (eu e)] ++ zb (eu e) ++ [lenb (ev e)] ++ zb (ev e) ++ enc_w (ew e).

Definition b2z (b : bool) : Z := if b then 1 else 0.

(* nodes in order, directedness, edge multiset *)
Definition gview (k : Z) (g : ggraph) : list obs :=
  [ (k, map (fun n => zb (nname n)) (get_all_nodes g), []);
    (k + 1, [[b2z (directed (sp g))]], []);
    (1000 + k + 2, map gedge_row (get_all_edges g), []) ].

Fixpoint rows_eqb (a b : list (list Z)) : bool :=
  match a, b with
  | [], [] => true
  | x :: a', y :: b' => row_leb x y && row_leb y x && Nat.eqb (length x) (length y) && rows_eqb a' b'
  | _, _ => false
  end.
Definition sorted_rows (l : list (list Z)) : list (list Z) :=
  map fst (sort_rows (map (fun r => (r, tt)) l)).

Definition same_graph (g h : ggraph) : bool :=
  rows_eqb (map (fun n => zb (nname n)) (get_all_nodes g)) (map (fun n => zb (nname n)) (get_all_nodes h))
  && Bool.eqb (directed (sp g)) (directed (sp h))
  && rows_eqb (sorted_rows (map gedge_row (get_all_edges g))) (sorted_rows (map gedge_row (get_all_edges h))).

(* the constructor's result against the spec layer (Spec/AGraph.v).  Since round 2 this agreement is
   a THEOREM for every input (C19_constructor_refines_spec, C19_reader_refines_spec), as is the
   well-formedness evaluated by observation 31 (C14_reachable_is_wellformed); both flags are kept as
   per-case ties between model and code *)
Definition spec_agrees (ns : list gnode) (es : list gedge) (s : specs) (r : outcome ggraph) : bool :=
  match spec_new_from bytes_eqb bytes_ltb ns es s, r with
  | Ok a, Ok g =>
    rows_eqb (map (fun n => zb (nname n)) (a_nodes a)) (map (fun n => zb (nname n)) (get_all_nodes g))
    && rows_eqb (sorted_rows (map gedge_row (a_edges a))) (sorted_rows (map gedge_row (get_all_edges g)))
    && Bool.eqb (directed (a_sp a)) (directed (sp g))
  | Err k, Err k' => errkind_eqb k k'
  | _, _ => false
  end.

Inductive gcase :=
| CCodec (s : bytes)
| CF64 (n : Z)
| CGraph (s : specs) (ns : list bytes) (es : list (bytes * bytes * weight))
         (ft : ftable) (pt : ptable) (evs : list event)
| CDoc (s : specs) (pt : ptable) (evs : list event).

Definition is_edge_start (e : event) : bool :=
  match e with EvStart n _ => bytes_eqb n s_edge | _ => false end.

(* the reader on a document's events: outcome, graph when Ok, and the two
   per-case validations: the result is the constructor applied to the
   declarative content of the document (Spec/GraphMLDef.v), and the constructor
   agrees with the spec layer *)
Definition read_obs (pt : ptable) (evs : list event) (s : specs) : list obs :=
  let parse := parse_of pt in
  let r := read_events parse evs s in
  let content_ok :=
    match doc_content parse evs with
    | Some (d, ns, es) =>
      spec_agrees ns es (with_directed d s) r &&
      match r, new_from_nodes_and_edges bytes_eqb bytes_ltb ns es (with_directed d s) with
      | Ok g, Ok h => same_graph g h
      | Err k, Err k' => errkind_eqb k k'
      | _, _ => false
      end
    | None => match r with Err ReadError => true | _ => false end
    end in
  [(4, [[outcome_code r]], [])] ++
  match r with Ok g => gview 5 g | _ => [] end ++
  [(8, [[b2z content_ok]], [])].

Definition case_obs (c : gcase) : list obs :=
  match c with
  | CCodec s =>
    [ (10, [zb (escape s)], []);
      (11, match unescape s with Some r => [[0]; zb r] | None => [[1]] end, []);
      (12, [[match unescape (escape s) with Some r => b2z (bytes_eqb r s) | None => 0 end]], []) ]
  | CF64 n => [(60, [[n; 0]], [])]
  | CDoc s pt evs =>
    (70, map (ev_row pt) evs, []) :: read_obs pt evs s
  | CGraph s ns es ft pt evs =>
    let nodes := map (fun n => mknode n None) ns in
    let edges := map (fun x => match x with (u, v, w) => mkedge u v w None end) es in
    let r := new_from_nodes_and_edges bytes_eqb bytes_ltb nodes edges s in
    code_obs r ::
    match r with
    | Ok g =>
      let wev := write_events (fmt_of ft) g in
      let parse := parse_of pt in
      gview 40 g ++
      [ (20, map (ev_row pt)
               (header_events (directed (sp g)) ++ flat_map node_events (get_all_nodes g) ++ footer_events), []);
        (1021, map (fun e => flat_map (ev_row pt) (edge_events (fmt_of ft) e)) (get_all_edges g), []);
        (70, map (ev_row pt) evs, []) ] ++
      read_obs pt evs s ++
      [ (30, [[match read_events parse wev s with Ok h => b2z (same_graph g h) | _ => 0 end]], []);
        (31, [[b2z (wf_roundtrip_b (sp g) (get_all_nodes g) (get_all_edges g))]], []);
        (50, [[1; 1]], []) ]   (* the file variant: same bytes, same graph (checked by the harness) *)
    | _ => []
    end
  end.

(* case terms are written with Z literals *)
Definition B (l : list Z) : bytes := map Z.to_N l.

Definition run (c : gcase) : list (list Z) := enc_all (case_obs c).
Definition run_digest (c : gcase) : list (list Z) := digest_all (case_obs c).
