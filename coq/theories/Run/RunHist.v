(* Executable instance (names and attributes are integers) of the graph-state
   model, and the printers producing the same observation lines as
   harness/src/hist.rs.  Used by the correspondence check of C01, C02, C03,
   C09 and C15. *)
From Coq Require Import String List Bool ZArith NArith Arith QArith.
From GV Require Import Base.Outcome Base.AMap Model.GState Model.Creation Model.Query Model.Derived.
From GV Require Import Spec.AGraph Run.Obs.
Import ListNotations.
Open Scope Z_scope.

Notation znode := (node Z Z).
Notation zedge := (edge Z Z).
Notation zstate := (gstate Z Z).

Definition N_ (name : Z) (a : option Z) : znode := mknode name a.
Definition E_ (u v : Z) (w : weight) (a : option Z) : zedge := mkedge u v w a.

Inductive query :=
| QGetEdge (u v : Z) | QGetEdges (u v : Z)
| QEdgesForNode (x : Z) | QEdgesForNodes (xs : list Z)
| QInEdgesForNode (x : Z) | QInEdgesForNodes (xs : list Z)
| QOutEdgesForNode (x : Z) | QOutEdgesForNodes (xs : list Z)
| QNeighborNodes (x : Z) | QGetNode (x : Z)
| QPredNodes (x : Z) | QPredNames (x : Z) | QSuccNodes (x : Z) | QSuccNames (x : Z)
| QSuccOrNeigh (x : Z) | QHasNode (x : Z) | QHasNodes (xs : list Z)
| QCounts | QNodeByIndex (i : Z) | QBfs (x : Z) | QAllNames
| QDegree (x : Z) | QInDegree (x : Z) | QOutDegree (x : Z)
| QWDegree (x : Z) | QWInDegree (x : Z) | QWOutDegree (x : Z)
| QAllDegrees | QDensity | QDegreeCentrality | QMatrix
| QSubgraph (xs : list Z) | QReverse | QSetWeights (w : weight) | QToSingle.

Inductive mop :=
| MAddNode (n : znode)
| MAddNodes (ns : list znode)
| MAddEdge (e : zedge)
| MAddEdgeTuple (u v : Z)
| MAddEdges (es : list zedge)
| MAddEdgeTuples (ps : list (Z * Z))
| MNewFrom (ns : list znode) (es : list zedge)
| MSnap | MView
| MQ (q : query).

Record hcase := mkcase { h_sp : specs; h_snap_each : bool; h_ops : list mop }.

Definition edge_row (e : zedge) : list Z := [eu e; ev e] ++ enc_w (ew e) ++ enc_oa (eattr e).
Definition node_row (n : znode) : list Z := nname n :: enc_oa (nattr n).

Definition view (g : zstate) : list obs :=
  [ (2, map node_row (get_all_nodes g), []);
    (1003, map edge_row (get_all_edges g), []) ].

Fixpoint with_pos {X} (i : Z) (l : list X) : list (Z * X) :=
  match l with [] => [] | x :: t => (i, x) :: with_pos (i + 1) t end.

Definition name_map_rows (m : list (Z * list Z)) : list (list Z) :=
  flat_map (fun kv => [fst kv; -1; 0] :: map (fun v => [fst kv; v; 1]) (snd kv)) m.
Definition idx_map_rows (m : list (nat * list nat)) : list (list Z) :=
  flat_map (fun kv => [zn (fst kv); -1] :: map (fun v => [zn (fst kv); zn v]) (snd kv)) m.
Definition adj_vec_rows (m : list (list adj)) : list (list Z) :=
  flat_map (fun ir => [fst ir; -1; 0; 0] ::
                      map (fun jw => [fst ir; zn (fst jw)] ++ enc_w (snd jw)) (snd ir))
           (with_pos 0 m).

Definition snapshot_k (off : Z) (g : zstate) : list obs :=
  view g ++
  [ (1010, map (fun kv => [fst kv; zn (snd kv)]) (nodes_map g), []);
    (1011, map (fun kv => zn (fst kv) :: node_row (snd kv)) (nodes_map_rev g), []);
    (1012, flat_map (fun kv =>
                       match snd kv with
                       | [] => [[fst (fst kv); snd (fst kv); -1]]
                       | es => map (fun pe => [fst (fst kv); snd (fst kv); fst pe] ++ edge_row (snd pe))
                                   (with_pos 0 es)
                       end) (edges g), []);
    (1013, flat_map (fun uh =>
                       match snd uh with
                       | [] => [[zn (fst uh); -1; -1]]
                       | hm => flat_map (fun ve =>
                                 match snd ve with
                                 | [] => [[zn (fst uh); zn (fst ve); -1]]
                                 | es => map (fun pe => [zn (fst uh); zn (fst ve); fst pe] ++ edge_row (snd pe))
                                             (with_pos 0 es)
                                 end) hm
                       end) (edges_map g), []);
    (1014, name_map_rows (successors g), []);
    (1015, idx_map_rows (successors_map g), []);
    (16 + off, adj_vec_rows (successors_vec g), []);
    (1017, name_map_rows (predecessors g), []);
    (1018, idx_map_rows (predecessors_map g), []);
    (19 + off, adj_vec_rows (predecessors_vec g), []) ].
Definition snapshot := snapshot_k 1000.

Definition spec_obs (g : zstate) : obs :=
  let s := sp g in
  (3, [[ if directed s then 1 else 0; if multi s then 1 else 0; if selfloops s then 1 else 0;
         match dd s with DErr => 0 | DKeepFirst => 1 | DKeepLast => 2 end;
         match ms s with MCreate => 0 | MErr => 1 end;
         match slf s with SErr => 0 | SDrop => 1 end ]], []).

Definition edges_obs (kind : Z) (r : outcome (list zedge)) : list obs :=
  code_obs r :: match r with Ok es => [(kind, map edge_row es, [])] | _ => [] end.
Definition nodes_obs (kind : Z) (r : outcome (list znode)) : list obs :=
  code_obs r :: match r with Ok ns => [(kind, map node_row ns, [])] | _ => [] end.
Definition names_obs (kind : Z) (r : outcome (list Z)) : list obs :=
  code_obs r :: match r with Ok ns => [(kind, map (fun x => [x]) ns, [])] | _ => [] end.
Definition panic_or {X} (r : outcome X) (f : X -> list obs) : list obs :=
  match r with Ok x => f x | _ => [(1, [[100]], [])] end.
Definition opt_nat_obs (kind : Z) (r : outcome (option nat)) : list obs :=
  panic_or r (fun o => match o with None => [(kind, [[0; 0]], [])] | Some k => [(kind, [[1; zn k]], [])] end).
Definition opt_w_obs (kind : Z) (r : outcome (option weight)) : list obs :=
  panic_or r (fun o => match o with None => [(kind, [[0; 0; 0]], [])]
                                  | Some w => [(kind, [1 :: enc_w w], [])] end).
Definition derived_obs (r : outcome zstate) : list obs :=
  code_obs r :: match r with Ok h => spec_obs h :: snapshot_k 1000 h | _ => [] end.

Fixpoint ins_kq (x : Z * Q) (l : list (Z * Q)) : list (Z * Q) :=
  match l with
  | [] => [x]
  | y :: t => if Z.leb (fst x) (fst y) then x :: l else y :: ins_kq x t
  end.
Definition sort_kq (l : list (Z * Q)) : list (Z * Q) := fold_right ins_kq [] l.

Definition teqb := Z.eqb.
Definition tltb := Z.ltb.

Definition run_query (g : zstate) (q : query) : list obs :=
  match q with
  | QGetEdge u v =>
    let r := get_edge teqb g u v in
    code_obs r :: match r with Ok e => [(101, [edge_row e], [])] | _ => [] end
  | QGetEdges u v => edges_obs 102 (get_edges teqb g u v)
  | QEdgesForNode x => edges_obs 1103 (get_edges_for_node teqb tltb g x)
  | QEdgesForNodes xs => edges_obs 1104 (get_edges_for_nodes teqb g xs)
  | QInEdgesForNode x => edges_obs 1105 (get_in_edges_for_node teqb g x)
  | QInEdgesForNodes xs => edges_obs 1106 (get_in_edges_for_nodes teqb g xs)
  | QOutEdgesForNode x => edges_obs 1107 (get_out_edges_for_node teqb g x)
  | QOutEdgesForNodes xs => edges_obs 1108 (get_out_edges_for_nodes teqb g xs)
  | QNeighborNodes x => nodes_obs 109 (get_neighbor_nodes teqb g x)
  | QGetNode x =>
    panic_or (get_node teqb g x)
      (fun o => [(110, match o with None => [] | Some n => [node_row n] end, [])])
  | QPredNodes x => nodes_obs 1111 (get_predecessor_nodes teqb g x)
  | QPredNames x => names_obs 1112 (get_predecessor_node_names teqb g x)
  | QSuccNodes x => nodes_obs 1113 (get_successor_nodes teqb g x)
  | QSuccNames x => names_obs 1114 (get_successor_node_names teqb g x)
  | QSuccOrNeigh x =>
    panic_or (get_successors_or_neighbors teqb g x)
      (fun ns => [(1, [[0]], []); (1116, map node_row ns, [])])
  | QHasNode x => panic_or (has_node teqb g x) (fun b => [(117, [[if b then 1 else 0]], [])])
  | QHasNodes xs => panic_or (has_nodes teqb g xs) (fun b => [(118, [[if b then 1 else 0]], [])])
  | QCounts =>
    [(119, [[zn (number_of_nodes g); zn (number_of_edges g)] ++ [1; zn (size_unweighted g)]
            ++ enc_w (size_weighted g) ++ [if edges_have_weight g then 1 else 0]], [])]
  | QNodeByIndex i =>
    [(123, match get_node_by_index g (Z.to_nat i) with None => [] | Some n => [node_row n] end, [])]
  | QBfs x =>
    panic_or (breadth_first_search teqb g x)
      (fun l => [(1, [[0]], []);
                 (1124, map (fun pn => [snd pn; if Z.eqb (fst pn) 0 then 1 else 0]) (with_pos 0 l), [])])
  | QAllNames => [(126, map (fun x => [x]) (get_all_node_names g), [])]
  | QDegree x => opt_nat_obs 130 (get_node_degree teqb tltb g x)
  | QInDegree x => opt_nat_obs 131 (get_node_in_degree teqb g x)
  | QOutDegree x => opt_nat_obs 132 (get_node_out_degree teqb g x)
  | QWDegree x => opt_w_obs 133 (get_node_weighted_degree teqb tltb g x)
  | QWInDegree x => opt_w_obs 134 (get_node_weighted_in_degree teqb g x)
  | QWOutDegree x => opt_w_obs 135 (get_node_weighted_out_degree teqb g x)
  | QAllDegrees =>
    panic_or (get_degree_for_all_nodes teqb tltb g)
      (fun m => [(1136, map (fun kv => [fst kv; zn (snd kv)]) m, [])]) ++
    (let r := get_in_degree_for_all_nodes teqb g in
     code_obs r :: match r with Ok m => [(1137, map (fun kv => [fst kv; zn (snd kv)]) m, [])] | _ => [] end) ++
    (let r := get_out_degree_for_all_nodes teqb g in
     code_obs r :: match r with Ok m => [(1138, map (fun kv => [fst kv; zn (snd kv)]) m, [])] | _ => [] end) ++
    panic_or (get_weighted_degree_for_all_nodes teqb tltb g)
      (fun m => [(1139, map (fun kv => fst kv :: enc_w (snd kv)) m, [])]) ++
    (let r := get_weighted_in_degree_for_all_nodes teqb g in
     code_obs r :: match r with Ok m => [(1140, map (fun kv => fst kv :: enc_w (snd kv)) m, [])] | _ => [] end) ++
    (let r := get_weighted_out_degree_for_all_nodes teqb g in
     code_obs r :: match r with Ok m => [(1141, map (fun kv => fst kv :: enc_w (snd kv)) m, [])] | _ => [] end)
  | QDensity =>
    match get_density g with Some d => [(142, [], [d])] | None => [(142, [[-1]], [])] end
  | QDegreeCentrality =>
    panic_or (degree_centrality teqb tltb g)
      (fun m => let sm := sort_kq m in [(143, map (fun kv => [fst kv]) sm, map snd sm)])
  | QMatrix =>
    let r := matrix_triplets g in
    code_obs r ::
    match r with
    | Ok tr => [(1144, map (fun t => [zn (fst (fst t)); zn (snd (fst t))] ++ enc_w (snd t)) tr, []);
                (145, [[zn (number_of_nodes g); zn (number_of_nodes g)]], [])]
    | _ => []
    end
  | QSubgraph xs => derived_obs (get_subgraph teqb tltb g xs)
  | QReverse => derived_obs (reverse teqb tltb g)
  | QSetWeights w => derived_obs (set_all_edge_weights teqb tltb g w)
  | QToSingle => derived_obs (to_single_edges teqb tltb g)
  end.

(* one mutation: new state (None when the call panicked: the history stops) and its observation *)
Definition mutate (sp0 : specs) (g : zstate) (m : mop) : zstate * Z :=
  match m with
  | MAddNode n =>
    match add_node teqb g n with Ok g' => (g', 0) | r => (g, outcome_code r) end
  | MAddNodes ns =>
    match add_nodes teqb g ns with Ok g' => (g', 0) | r => (g, outcome_code r) end
  | MAddEdge e => let '(g', r) := add_edge teqb tltb g e in (g', outcome_code r)
  | MAddEdgeTuple u v => let '(g', r) := add_edge_tuple teqb tltb g u v in (g', outcome_code r)
  | MAddEdges es => let '(g', r) := add_edges teqb tltb g es in (g', outcome_code r)
  | MAddEdgeTuples ps => let '(g', r) := add_edge_tuples teqb tltb g ps in (g', outcome_code r)
  | MNewFrom ns es =>
    match new_from_nodes_and_edges teqb tltb ns es sp0 with
    | Ok g' => (g', 0)
    | r => (g, outcome_code r)
    end
  | _ => (g, 0)
  end.

(* the same mutation on the spec layer (Spec/AGraph.v) *)
Notation zagraph := (agraph Z Z).
Definition smutate (sp0 : specs) (a : zagraph) (m : mop) : zagraph * Z :=
  match m with
  | MAddNode n => (spec_add_node teqb a n, 0)
  | MAddNodes ns => (spec_add_nodes teqb a ns, 0)
  | MAddEdge e => let '(a', r) := spec_add_edge teqb tltb a e in (a', outcome_code r)
  | MAddEdgeTuple u v => let '(a', r) := spec_add_edge teqb tltb a (mkedge u v None None) in (a', outcome_code r)
  | MAddEdges es => let '(a', r) := spec_add_edges teqb tltb a es in (a', outcome_code r)
  | MAddEdgeTuples ps =>
    let '(a', r) := spec_add_edges teqb tltb a (map (fun p => mkedge (fst p) (snd p) None None) ps) in
    (a', outcome_code r)
  | MNewFrom ns es =>
    match spec_new_from teqb tltb ns es sp0 with
    | Ok a' => (a', 0)
    | r => (a, outcome_code r)
    end
  | _ => (a, 0)
  end.

Fixpoint rows_eqb (x y : list (list Z)) : bool :=
  match x, y with
  | [], [] => true
  | r :: x', q :: y' => row_leb r q && row_leb q r && rows_eqb x' y'
  | _, _ => false
  end.
Definition sorted_rows (l : list (list Z)) : list (list Z) :=
  map fst (sort_rows (map (fun r => (r, tt)) l)).

(* does the concrete state abstract to the spec state?  (node list equal,
   edge lists equal as multisets, same specs row) *)
Definition abs_agrees (g : zstate) (a : zagraph) : bool :=
  rows_eqb (map node_row (nodes_vec g)) (map node_row (a_nodes a)) &&
  rows_eqb (sorted_rows (map edge_row (get_all_edges g))) (sorted_rows (map edge_row (a_edges a))).

Fixpoint run_ops (sp0 : specs) (snap_each : bool) (g : zstate) (a : zagraph) (ops : list mop) : list obs :=
  match ops with
  | [] => []
  | MSnap :: t => snapshot g ++ run_ops sp0 snap_each g a t
  | MView :: t => view g ++ run_ops sp0 snap_each g a t
  | MQ q :: t => run_query g q ++ run_ops sp0 snap_each g a t
  | m :: t =>
    let '(g', c) := mutate sp0 g m in
    let '(a', c') := smutate sp0 a m in
    (1, [[c]], []) ::
    if Z.eqb c 100 then [] else
    (* kind 5: "the spec layer predicts this outcome and this graph" *)
    (5, [[if Z.eqb c c' && abs_agrees g' a' then 1 else 0]], []) ::
    (if snap_each then snapshot g' else []) ++ run_ops sp0 snap_each g' a' t
  end.

Definition ops_of (c : hcase) : list obs :=
  run_ops (h_sp c) (h_snap_each c) (new (h_sp c)) (a_new (h_sp c)) (h_ops c).
Definition run (c : hcase) : list (list Z) := enc_all (ops_of c).
Definition run_digest (c : hcase) : list (list Z) := digest_all (ops_of c).
