(* C07: correspondence of the schedule model with rayon itself.  The harness
   (harness/src/par.rs, `probe`) runs `<indexed source>.into_par_iter().map(f)
   .collect::<Vec<_>>()` with f x = 3x+1 inside a thread pool and RECORDS the
   order in which rayon really executed the work items; the model is run with
   that schedule and must produce the vector the implementation collected; the
   recorded schedule must be a permutation of the item indices (the hypothesis
   of run_par_schedule_independent).  A second pair of regions has FAILING items
   (observation 63): the panic rayon re-raises must be the one the model's
   region reports (the lowest failing index — rayon::join's rule).  A third group of
   regions has items that RETURN an error and is collected into `Result<Vec<_>, E>`
   (observations 64 / 65; the region of all_pairs / multi_source since the repair of
   F22): rayon reports which item's error it kept; the model must admit it — it is the
   error of an erring item, and [gather_result_par] under a schedule that runs that item
   first returns an error (under the index-order schedule, and for the serial collect,
   the error of the LOWEST erring index) — and when rayon returned Ok the model's region
   returns the same vector. *)
From Coq Require Import String Ascii List Bool ZArith Arith.
From GV Require Import Base.Outcome Model.GState Model.Par Model.ParFns Run.Obs.
Import ListNotations.
Open Scope Z_scope.

Inductive pcase := PProbe (xs : list Z) (sched_vec sched_range : list Z) (kept : list Z).

Definition probe_f (x : Z) : Z := 3 * x + 1.

Definition is_schedule (n : nat) (pi : list nat) : bool :=
  Nat.eqb (length pi) n && forallb (fun i => existsb (Nat.eqb i) pi) (seq 0 n).

Definition run_with (xs : list Z) (sched : list Z) : list Z :=
  match run_par (map Z.to_nat sched) probe_f xs with
  | Ok l => l
  | _ => [-1; -1; -1]
  end.

(* failing work items (Model/ParFns.v): item i panics, with a payload that names i, iff xs[i] is
   divisible by 7.  The model's region ([gather_par] under the REVERSED schedule, [gather_abort]-free,
   and [run_plan] on a two-leaf plan whose right half runs first) reports the lowest failing index;
   the harness reports the payload rayon really re-raised. *)
Definition fail_site (i : nat) : string := string_of_list_ascii (repeat "x"%char i).
Definition pprobe_f (ix : nat * Z) : outcome Z :=
  if Z.eqb (Z.rem (snd ix) 7) 0 then Panic (fail_site (fst ix)) else Ok (probe_f (snd ix)).
Definition failure_index (o : outcome (list Z)) : Z :=
  match o with
  | Ok _ => -1
  | Panic s => Z.of_nat (String.length s)
  | _ => -2
  end.
Definition panic_index_sched (xs : list Z) : Z :=
  let items := combine (seq 0 (length xs)) xs in
  failure_index (gather_par (rev (seq 0 (length xs))) pprobe_f items).
Definition panic_index_plan (xs : list Z) : Z :=
  let items := combine (seq 0 (length xs)) xs in
  failure_index (run_plan (PFork (Nat.div2 (length xs)) true PSeq (PFork (Nat.pred (length xs)) true PSeq PSeq))
                          pprobe_f items 0 (length items)).

(* items that return an error (Model/ParFns.v [gather_result_par]): item i returns Err iff xs[i] is
   divisible by 7.  [kept] is what the harness reports: the index whose error rayon's
   `collect::<Result<Vec<_>, _>>()` returned (-1: it returned Ok and the vector was map f xs). *)
Definition rprobe_f (ix : nat * Z) : outcome Z :=
  if Z.eqb (Z.rem (snd ix) 7) 0 then Err ContradictoryPaths else Ok (probe_f (snd ix)).
Definition zlist_eqb (a b : list Z) : bool :=
  Nat.eqb (length a) (length b) && forallb (fun p => Z.eqb (fst p) (snd p)) (combine a b).
Definition run_first (e n : nat) : list nat := e :: filter (fun i => negb (Nat.eqb i e)) (seq 0 n).
Definition lowest_erring (xs : list Z) : Z :=
  match find (fun ix => Z.eqb (Z.rem (snd ix) 7) 0) (combine (seq 0 (length xs)) xs) with
  | Some ix => Z.of_nat (fst ix)
  | None => -1
  end.
(* the parallel region admits the reported index *)
Definition result_probe_ok (xs : list Z) (e : Z) : bool :=
  let n := length xs in
  let items := combine (seq 0 n) xs in
  if Z.ltb e 0 then
    Z.eqb e (-1) &&
    match gather_result_par (rev (seq 0 n)) rprobe_f items with
    | Ok v => zlist_eqb v (map probe_f xs)
    | _ => false
    end
  else
    match nth_error xs (Z.to_nat e) with
    | Some x =>
      Z.eqb (Z.rem x 7) 0 &&
      match gather_result_par (run_first (Z.to_nat e) n) rprobe_f items with Err _ => true | _ => false end
    | None => false
    end.
(* the serial collect (and the region under the index-order schedule) keeps the lowest erring index *)
Definition serial_probe_ok (xs : list Z) (e : Z) : bool :=
  let n := length xs in
  let items := combine (seq 0 n) xs in
  Z.eqb e (lowest_erring xs) &&
  match gather_seq rprobe_f items, gather_result_par (seq 0 n) rprobe_f items with
  | Ok v, Ok v' => Z.eqb e (-1) && zlist_eqb v (map probe_f xs) && zlist_eqb v' v
  | Err _, Err _ => Z.leb 0 e
  | _, _ => false
  end.
Definition b2z (b : bool) : Z := if b then 1 else 0.

Definition obs_of (c : pcase) : list obs :=
  match c with
  | PProbe xs s1 s2 kept =>
    [ (60, [s1; s2], []);
      (61, [run_with xs s1; run_with xs s2], []);
      (62, [[if is_schedule (length xs) (map Z.to_nat s1) then 1 else 0;
             if is_schedule (length xs) (map Z.to_nat s2) then 1 else 0]], []);
      (63, [[panic_index_sched xs; panic_index_plan xs]], []);
      (65, [kept], []);
      (64, [[b2z (result_probe_ok xs (nth 0 kept (-9))); b2z (result_probe_ok xs (nth 1 kept (-9)));
             b2z (serial_probe_ok xs (nth 2 kept (-9)))]], []) ]
  end.

Definition run (c : pcase) : list (list Z) := enc_all (obs_of c).
Definition run_digest (c : pcase) : list (list Z) := digest_all (obs_of c).
