(* C07: correspondence of the schedule model with rayon itself.  The harness
   (harness/src/par.rs, `probe`) runs `<indexed source>.into_par_iter().map(f)
   .collect::<Vec<_>>()` with f x = 3x+1 inside a thread pool and RECORDS the
   order in which rayon really executed the work items; the model is run with
   that schedule and must produce the vector the implementation collected; the
   recorded schedule must be a permutation of the item indices (the hypothesis
   of run_par_schedule_independent). *)
From Coq Require Import String List Bool ZArith Arith.
From GV Require Import Base.Outcome Model.GState Model.Par Run.Obs.
Import ListNotations.
Open Scope Z_scope.

Inductive pcase := PProbe (xs : list Z) (sched_vec sched_range : list Z).

Definition probe_f (x : Z) : Z := 3 * x + 1.

Definition is_schedule (n : nat) (pi : list nat) : bool :=
  Nat.eqb (length pi) n && forallb (fun i => existsb (Nat.eqb i) pi) (seq 0 n).

Definition run_with (xs : list Z) (sched : list Z) : list Z :=
  match run_par (map Z.to_nat sched) probe_f xs with
  | Ok l => l
  | _ => [-1; -1; -1]
  end.

Definition obs_of (c : pcase) : list obs :=
  match c with
  | PProbe xs s1 s2 =>
    [ (60, [s1; s2], []);
      (61, [run_with xs s1; run_with xs s2], []);
      (62, [[if is_schedule (length xs) (map Z.to_nat s1) then 1 else 0;
             if is_schedule (length xs) (map Z.to_nat s2) then 1 else 0]], []) ]
  end.

Definition run (c : pcase) : list (list Z) := enc_all (obs_of c).
Definition run_digest (c : pcase) : list (list Z) := digest_all (obs_of c).
