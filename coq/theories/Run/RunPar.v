(* C07: correspondence of the schedule model with rayon itself.  The harness
   (harness/src/par.rs, `probe`) runs `<indexed source>.into_par_iter().map(f)
   .collect::<Vec<_>>()` with f x = 3x+1 inside a thread pool and RECORDS the
   order in which rayon really executed the work items; the model is run with
   that schedule and must produce the vector the implementation collected; the
   recorded schedule must be a permutation of the item indices (the hypothesis
   of run_par_schedule_independent).  A second pair of regions has FAILING items
   (observation 63): the panic rayon re-raises must be the one the model's
   region reports (the lowest failing index — rayon::join's rule). *)
From Coq Require Import String Ascii List Bool ZArith Arith.
From GV Require Import Base.Outcome Model.GState Model.Par Model.ParFns Run.Obs.
Import ListNotations.
Open Scope Z_scope.

Inductive pcase := PProbe (xs : list Z) (sched_vec sched_range : list Z).

Definition probe_f (x : Z) : Z := 3 * x + 1.

Definition is_schedule (n : nat) (pi : list nat) : bool :=
  Nat.eqb (length pi) n && forallb (fun i => existsb (Nat.eqb i) pi) (seq 0 n).

Definition run_with (xs : list Z) (sched : list Z) : list Z :=
  match run_par (map Z.to_nat sched) probe_f xs with
  | Ok l => l
  | _ => [-1; -1; -1]
  end.

(* failing work items (Model/ParFns.v): item i panics, with a payload that names i, iff xs[i] is
   divisible by 7.  The model's region ([gather_par] under the REVERSED schedule, [gather_abort]-free,
   and [run_plan] on a two-leaf plan whose right half runs first) reports the lowest failing index;
   the harness reports the payload rayon really re-raised. *)
Definition fail_site (i : nat) : string := string_of_list_ascii (repeat "x"%char i).
Definition pprobe_f (ix : nat * Z) : outcome Z :=
  if Z.eqb (Z.rem (snd ix) 7) 0 then Panic (fail_site (fst ix)) else Ok (probe_f (snd ix)).
Definition failure_index (o : outcome (list Z)) : Z :=
  match o with
  | Ok _ => -1
  | Panic s => Z.of_nat (String.length s)
  | _ => -2
  end.
Definition panic_index_sched (xs : list Z) : Z :=
  let items := combine (seq 0 (length xs)) xs in
  failure_index (gather_par (rev (seq 0 (length xs))) pprobe_f items).
Definition panic_index_plan (xs : list Z) : Z :=
  let items := combine (seq 0 (length xs)) xs in
  failure_index (run_plan (PFork (Nat.div2 (length xs)) true PSeq (PFork (Nat.pred (length xs)) true PSeq PSeq))
                          pprobe_f items 0 (length items)).

Definition obs_of (c : pcase) : list obs :=
  match c with
  | PProbe xs s1 s2 =>
    [ (60, [s1; s2], []);
      (61, [run_with xs s1; run_with xs s2], []);
      (62, [[if is_schedule (length xs) (map Z.to_nat s1) then 1 else 0;
             if is_schedule (length xs) (map Z.to_nat s2) then 1 else 0]], []);
      (63, [[panic_index_sched xs; panic_index_plan xs]], []) ]
  end.

Definition run (c : pcase) : list (list Z) := enc_all (obs_of c).
Definition run_digest (c : pcase) : list (list Z) := digest_all (obs_of c).
