(* Spec layer: the simplest mathematical object the properties talk about —
   a graph is its specs, its node list (insertion order) and its edge list
   (insertion order; read as a multiset).  [spec_add_node] / [spec_add_edge]
   are the policy ladder of property C01 written directly on that object. *)
From Coq Require Import List Bool ZArith.
From GV Require Import Base.Outcome Base.AMap Model.GState.
Import ListNotations.

Section AGraph.
  Context {T A : Type}.
  Variable teqb : T -> T -> bool.
  Variable tltb : T -> T -> bool.

  Notation node := (node T A).
  Notation edge := (edge T A).

  Record agraph := mka { a_sp : specs; a_nodes : list node; a_edges : list edge }.

  Definition a_new (s : specs) : agraph := mka s [] [].

  Definition a_has (a : agraph) (x : T) : bool :=
    existsb (fun n => teqb (nname n) x) (a_nodes a).

  Definition a_reversed (e : edge) : edge := mkedge (ev e) (eu e) (ew e) (eattr e).
  (* storage orientation: an undirected edge is kept with the smaller name first *)
  Definition canon (s : specs) (e : edge) : edge :=
    if negb (directed s) && tltb (ev e) (eu e) then a_reversed e else e.
  Definition same_pair (a b : edge) : bool := teqb (eu a) (eu b) && teqb (ev a) (ev b).

  (* re-adding an existing name replaces the node in place; a new name is appended *)
  Definition spec_add_node (a : agraph) (n : node) : agraph :=
    if a_has a (nname n) then
      mka (a_sp a) (map (fun m => if teqb (nname m) (nname n) then n else m) (a_nodes a)) (a_edges a)
    else mka (a_sp a) (a_nodes a ++ [n]) (a_edges a).

  Definition spec_add_nodes (a : agraph) (ns : list node) : agraph := fold_left spec_add_node ns a.

  Definition ensure_node (a : agraph) (x : T) : agraph :=
    if a_has a x then a else spec_add_node a (mknode x None).

  Definition spec_add_edge (a : agraph) (e : edge) : agraph * outcome unit :=
    let s := a_sp a in
    if negb (selfloops s) && teqb (eu e) (ev e) then
      (a, match slf s with SErr => Err SelfLoopsFound | SDrop => Ok tt end)
    else if (match ms s with MErr => true | MCreate => false end)
            && negb (a_has a (eu e) && a_has a (ev e)) then (a, Err NodeNotFound)
    else
      let a2 := ensure_node (ensure_node a (eu e)) (ev e) in
      let c := canon s e in
      if multi s then (mka s (a_nodes a2) (a_edges a2 ++ [c]), Ok tt)
      else if existsb (same_pair c) (a_edges a2) then
        match dd s with
        | DErr => (a, Err DuplicateEdge)
        | DKeepFirst => (a2, Ok tt)
        | DKeepLast =>
          (mka s (a_nodes a2) (filter (fun x => negb (same_pair c x)) (a_edges a2) ++ [c]), Ok tt)
        end
      else (mka s (a_nodes a2) (a_edges a2 ++ [c]), Ok tt).

  (* batch add: stop at the first failing edge *)
  Fixpoint spec_add_edges (a : agraph) (es : list edge) : agraph * outcome unit :=
    match es with
    | [] => (a, Ok tt)
    | e :: t =>
      match spec_add_edge a e with
      | (a', Ok _) => spec_add_edges a' t
      | (a', r) => (a', r)
      end
    end.

  Definition spec_new_from (ns : list node) (es : list edge) (s : specs) : outcome agraph :=
    match spec_add_edges (spec_add_nodes (a_new s) ns) es with
    | (a, Ok _) => Ok a
    | (_, Err k) => Err k
    | (_, Panic x) => Panic x
    | (_, OutOfFuel) => OutOfFuel
    end.

  (* abstraction of the concrete twelve-field state *)
  Definition Abs (g : gstate T A) : agraph := mka (sp g) (nodes_vec g) (flat_map snd (edges g)).
End AGraph.
Arguments agraph : clear implicits.
