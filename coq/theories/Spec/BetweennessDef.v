(* The definition of betweenness centrality named by property C05, written
   directly on an adjacency (row v lists (w, cost of v->w)): enumerate the
   simple paths from s to t, keep those of minimal weight, and sum over ordered
   pairs (s,t), s <> v <> t, s <> t, the fraction of them that pass through v.
   Executable (brute force), so it doubles as the per-case oracle. *)
From Coq Require Import List Bool ZArith Arith QArith.
From GV Require Import Model.Cent.
Import ListNotations.
Open Scope list_scope.

Definition nmem (x : nat) (l : list nat) : bool := existsb (Nat.eqb x) l.

(* all simple paths from u to t that avoid [visited], each as (node list
   starting with u, total cost); fuel = number of nodes still allowed *)
Fixpoint simple_paths (fuel : nat) (g : qadj) (visited : list nat) (u t : nat) : list (list nat * Q) :=
  match fuel with
  | O => []
  | S f =>
    if Nat.eqb u t then [([u], 0)] else
    flat_map (fun a =>
                if nmem (fst a) (u :: visited) then []
                else map (fun p => (u :: fst p, Qred (snd a + snd p)))
                         (simple_paths f g (u :: visited) (fst a) t))
             (get [] g u)
  end.

Definition min_cost (ps : list (list nat * Q)) : option Q :=
  fold_right (fun p m => match m with
                         | None => Some (snd p)
                         | Some x => if qlt (snd p) x then Some (snd p) else Some x
                         end) None ps.

(* SP s t: the node sequences of all shortest s-t paths *)
Definition spec_sp (g : qadj) (s t : nat) : list (list nat) :=
  let ps := simple_paths (length g) g [] s t in
  match min_cost ps with
  | None => []
  | Some m => map fst (filter (fun p => qeqb (snd p) m) ps)
  end.

Definition cnt_through (v : nat) (ps : list (list nat)) : nat :=
  length (filter (fun p => nmem v p) ps).

(* fraction of the shortest paths that pass through v; 0 when there is none *)
Definition pair_dep (sp : list (list nat)) (v : nat) : Q :=
  match sp with
  | [] => 0
  | _ => Qred (qn (cnt_through v sp) / qn (length sp))
  end.

Definition excluded (s t v : nat) : bool := Nat.eqb s v || Nat.eqb t v || Nat.eqb s t.

Definition Qsum (l : list Q) : Q := fold_right Qplus 0 l.

Definition pair_term (g : qadj) (v s t : nat) : Q :=
  if excluded s t v then 0 else pair_dep (spec_sp g s t) v.

(* sum over ordered pairs *)
Definition bc_raw (g : qadj) (v : nat) : Q :=
  let n := length g in
  Qsum (map (fun s => Qsum (map (fun t => pair_term g v s t) (seq 0 n))) (seq 0 n)).

(* the scaling rules of the property text *)
Definition bc_scale (n : nat) (normalized directed : bool) (raw : Q) : Q :=
  if normalized then (if Nat.leb n 2 then raw else raw / ((qn n - 1) * (qn n - 2)))
  else if directed then raw else raw / 2.

Definition bc_def (g : qadj) (normalized directed : bool) : list Q :=
  map (fun v => bc_scale (length g) normalized directed (bc_raw g v)) (seq 0 (length g)).

(* the same value with the table of shortest-path sets computed once (used for
   execution; equal to [bc_def] by Proofs/BrandesOk.bc_def_tab_eq) *)
Definition sp_table (g : qadj) : list (list (list (list nat))) :=
  map (fun s => map (fun t => spec_sp g s t) (seq 0 (length g))) (seq 0 (length g)).

Definition bc_raw_tab (tab : list (list (list (list nat)))) (n v : nat) : Q :=
  Qsum (map (fun s => Qsum (map (fun t =>
         if excluded s t v then 0 else pair_dep (nth t (nth s tab []) []) v) (seq 0 n))) (seq 0 n)).

Definition bc_def_tab (g : qadj) (normalized directed : bool) : list Q :=
  let tab := sp_table g in
  map (fun v => bc_scale (length g) normalized directed (bc_raw_tab tab (length g) v)) (seq 0 (length g)).

(* checker: every row of the adjacency lists a neighbour at most once (the shape of
   the private index successors_vec); sound by Proofs/BrandesBfsOk.rows_nodup_sound *)
Fixpoint nodupb (l : list nat) : bool :=
  match l with [] => true | x :: t => negb (nmem x t) && nodupb t end.
Definition rows_nodup (g : qadj) : bool := forallb (fun r => nodupb (map fst r)) g.

(* checker: every cost of the adjacency is strictly positive (the domain of the weighted-mode
   theorem); sound by Proofs/BrandesWeighted.rows_pos_sound *)
Definition rows_pos (g : qadj) : bool := forallb (forallb (fun e => qlt 0 (snd e))) g.
