(* The definitions named by property C06, on an adjacency with integer costs
   (an edge weight of the model is an integer, GState.weight; hop-count mode
   uses cost 1): walks, shortest distance, incoming distance, the closeness
   value with the Wasserman-Faust scaling — and the executable checkers whose
   soundness is proved in Proofs/ClosenessOk.v. *)
From Coq Require Import List Bool ZArith Arith QArith.
From GV Require Import Model.GState Model.Cent.
Import ListNotations.
Open Scope list_scope.

Definition zadj := list (list (nat * Z)).
Definition zrow (a : zadj) (v : nat) : list (nat * Z) := nth v a [].

(* a walk from s, grown at its far end; its weight *)
Inductive walk (a : zadj) (s : nat) : nat -> Z -> Prop :=
| walk_nil : walk a s s 0%Z
| walk_snoc : forall v w c x, walk a s v x -> In (w, c) (zrow a v) -> walk a s w (x + c)%Z.

Definition reach (a : zadj) (s t : nat) : Prop := exists x, walk a s t x.
Definition is_dist (a : zadj) (s t : nat) (x : Z) : Prop :=
  walk a s t x /\ forall y, walk a s t y -> (x <= y)%Z.

(* [Some x]: the shortest distance is x; [None]: t is not reachable from s *)
Definition dist_spec (a : zadj) (s t : nat) (o : option Z) : Prop :=
  match o with Some x => is_dist a s t x | None => ~ reach a s t end.

(* ---- the closeness value of the property text ----
   r = number of nodes that can reach u (u included), tot = sum of their
   shortest distances to u, n = number of nodes *)
Definition closeness_val (n r : nat) (tot : Q) (wf : bool) : Q :=
  if Nat.leb r 1 || Nat.leb n 1 then 0
  else (qn r - 1) / tot * (if wf then (qn r - 1) / (qn n - 1) else 1).

Definition oget (d : list (option Z)) (v : nat) : option Z := nth v d None.
Definition count_some (d : list (option Z)) : nat :=
  length (filter (fun o => match o with Some _ => true | None => false end) d).
Definition sum_some (d : list (option Z)) : Z :=
  fold_right (fun o acc => match o with Some x => (x + acc)%Z | None => acc end) 0%Z d.

(* [val] is the closeness of u in the graph whose adjacency is a0: some vector
   dv holds, for every node v, the shortest distance FROM v TO u (incoming
   distance; None = v cannot reach u), and val is the formula on it *)
Definition is_closeness (a0 : zadj) (u : nat) (wf : bool) (val : Q) : Prop :=
  exists dv : list (option Z),
    length dv = length a0 /\
    (forall v, (v < length a0)%nat -> dist_spec a0 v u (oget dv v)) /\
    val == closeness_val (length a0) (count_some dv) (inject_Z (sum_some dv)) wf.

(* ---------------------------------------------------------------- checkers *)

(* distances: d[s] = 0; every edge is relaxed (and has positive cost); every
   reached node other than s has a tight incoming edge; reached values >= 0;
   all stored indexes in range *)
Definition edge_relaxed (d : list (option Z)) (v : nat) (e : nat * Z) : bool :=
  Z.ltb 0 (snd e) &&
  match oget d v with
  | None => true
  | Some dv => match oget d (fst e) with Some dw => Z.leb dw (dv + snd e) | None => false end
  end.

Definition has_tight (a : zadj) (d : list (option Z)) (w : nat) (dw : Z) : bool :=
  existsb (fun v => match oget d v with
                    | Some dv => existsb (fun e => Nat.eqb (fst e) w && Z.eqb (dv + snd e) dw) (zrow a v)
                    | None => false
                    end) (seq 0 (length a)).

Definition check_dist (a : zadj) (s : nat) (d : list (option Z)) : bool :=
  Nat.eqb (length d) (length a) && Nat.ltb s (length a) &&
  match oget d s with Some z => Z.eqb z 0 | None => false end &&
  forallb (fun v => forallb (fun e => Nat.ltb (fst e) (length a) && edge_relaxed d v e) (zrow a v))
          (seq 0 (length a)) &&
  forallb (fun w => match oget d w with
                    | None => true
                    | Some dw => Z.leb 0 dw && (Nat.eqb w s || has_tight a d w dw)
                    end) (seq 0 (length a)).

(* b is the transpose of a0: v->w (cost c) in a0  iff  w->v (cost c) in b *)
Definition zmem (e : nat * Z) (l : list (nat * Z)) : bool :=
  existsb (fun x => Nat.eqb (fst x) (fst e) && Z.eqb (snd x) (snd e)) l.

Definition check_transpose (a0 b : zadj) : bool :=
  Nat.eqb (length a0) (length b) &&
  forallb (fun v => forallb (fun e => Nat.ltb (fst e) (length a0) && zmem (v, snd e) (zrow b (fst e))) (zrow a0 v))
          (seq 0 (length a0)) &&
  forallb (fun w => forallb (fun e => Nat.ltb (fst e) (length a0) && zmem (w, snd e) (zrow a0 (fst e))) (zrow b w))
          (seq 0 (length a0)).

(* the model's result list (node, distance) as a per-node vector; fails (None) on
   a duplicate node, an index out of range or a non-integral distance *)
Fixpoint dvec_of (n : nat) (sp : list (nat * Q)) : option (list (option Z)) :=
  match sp with
  | [] => Some (repeat None n)
  | (v, x) :: t =>
    match dvec_of n t with
    | None => None
    | Some d =>
      if Nat.ltb v n && Pos.eqb (Qden x) 1 &&
         match oget d v with None => true | Some _ => false end
      then Some (upd v (Some (Qnum x)) d) else None
    end
  end.

(* the integer-cost view of [successors_vec] (hop-count mode: cost 1) *)
Definition zconv_entry (weighted : bool) (e : adj) : option (nat * Z) :=
  if weighted then match snd e with Some z => Some (fst e, z) | None => None end
  else Some (fst e, 1%Z).
Fixpoint zconv_row (weighted : bool) (r : list adj) : option (list (nat * Z)) :=
  match r with
  | [] => Some []
  | e :: t => match zconv_entry weighted e, zconv_row weighted t with
              | Some e', Some t' => Some (e' :: t') | _, _ => None end
  end.
Fixpoint zconv_adj (weighted : bool) (sv : list (list adj)) : option zadj :=
  match sv with
  | [] => Some []
  | r :: t => match zconv_row weighted r, zconv_adj weighted t with
              | Some r', Some t' => Some (r' :: t') | _, _ => None end
  end.
