(* The definitions C11 names, over the simplest possible graph object: a node
   list and a boolean adjacency [adjb] (symmetric for an undirected graph; for a
   directed graph [adjb u v] is the arc u -> v).  A node is never its own
   neighbour: self-loops are excluded BY DEFINITION ([linked]).  Everything
   here is executable (the Run module evaluates it on every generated case)
   and short enough to read in minutes.  Definitions only. *)
From Coq Require Import List Bool Arith ZArith QArith.
Import ListNotations.
Close Scope Q_scope.

Section ClusterDef.
  Context {T : Type}.
  Variable teqb : T -> T -> bool.
  Variable nodes : list T.
  Variable adjb : T -> T -> bool.

  (* adjacent and different *)
  Definition linked (u w : T) : bool := adjb u w && negb (teqb u w).

  (* neighbours of v, never v itself *)
  Definition nbrs (v : T) : list T := filter (linked v) nodes.
  Definition deg (v : T) : nat := length (nbrs v).

  (* unordered pairs of a list (positions i < j) *)
  Fixpoint pairs {X} (l : list X) : list (X * X) :=
    match l with
    | [] => []
    | x :: t => map (fun y => (x, y)) t ++ pairs t
    end.
  (* unordered triples (positions i < j < k) *)
  Fixpoint triples {X} (l : list X) : list (X * X * X) :=
    match l with
    | [] => []
    | x :: t => map (fun p => (x, fst p, snd p)) (pairs t) ++ triples t
    end.

  (* triangles through v: pairs of neighbours of v that are adjacent *)
  Definition tri (v : T) : nat :=
    length (filter (fun p => linked (fst p) (snd p)) (pairs (nbrs v))).

  Definition qn (n : nat) : Q := inject_Z (Z.of_nat n).

  (* clustering coefficient: triangles through v over pairs of neighbours *)
  Definition cc (v : T) : Q :=
    if Nat.ltb (deg v) 2 then 0%Q
    else (qn (2 * tri v) / qn (deg v * (deg v - 1)))%Q.

  (* triangles of the graph *)
  Definition is_triangle (t : T * T * T) : bool :=
    let '(a, b, c) := t in linked a b && linked a c && linked b c.
  Definition n_triangles : nat := length (filter is_triangle (triples nodes)).

  (* connected triples (paths of length two, counted by their centre) *)
  Definition n_triples : nat :=
    fold_right (fun v a => deg v * (deg v - 1) / 2 + a) 0 nodes.

  Definition transitivity_def : Q :=
    if Nat.eqb n_triples 0 then 0%Q else (qn (3 * n_triangles) / qn n_triples)%Q.

  (* generalised degree: number of edges at v that lie in exactly k triangles *)
  Definition edge_triangles (v w : T) : nat :=
    length (filter (fun u => linked w u) (nbrs v)).
  Definition gen_degree (v : T) (k : nat) : nat :=
    length (filter (fun w => Nat.eqb (edge_triangles v w) k) (nbrs v)).

  (* Lind's square coefficient *)
  Definition common_not (v u w : T) : nat :=
    length (filter (fun x => linked u x && linked w x && negb (teqb x v)) nodes).
  Definition sq_num (v : T) : nat :=
    fold_right (fun p a => common_not v (fst p) (snd p) + a) 0 (pairs (nbrs v)).
  Definition sq_den (v : T) : Z :=
    fold_right (fun p a =>
                  let '(u, w) := p in
                  let q := Z.of_nat (common_not v u w) in
                  let th := if linked u w then 1%Z else 0%Z in
                  ((Z.of_nat (deg u) - (1 + q + th)) + (Z.of_nat (deg w) - (1 + q + th)) + q + a)%Z)
               0%Z (pairs (nbrs v)).
  Definition square_def (v : T) : Q :=
    if Z.ltb 0 (sq_den v) then (qn (sq_num v) / inject_Z (sq_den v))%Q else qn (sq_num v).

  (* Fagiolo's directed clustering: adjb is the arc relation *)
  Definition a_ (u v : T) : nat := if linked u v then 1 else 0.
  Definition sum_over (f : T -> nat) : nat := fold_right (fun x a => f x + a) 0 nodes.
  (* (A + A^T)^3_ii = sum_{j,k} (a_ij+a_ji)(a_jk+a_kj)(a_ki+a_ik); each triangle twice *)
  Definition fagiolo_2t (i : T) : nat :=
    sum_over (fun j => sum_over (fun k =>
      (a_ i j + a_ j i) * (a_ j k + a_ k j) * (a_ k i + a_ i k))).
  Definition d_tot (i : T) : nat := sum_over (fun j => a_ i j + a_ j i).
  Definition d_bi (i : T) : nat := sum_over (fun j => a_ i j * a_ j i).
  Definition cc_directed (i : T) : Q :=
    if Nat.eqb (fagiolo_2t i) 0 then 0%Q
    else (qn (fagiolo_2t i) /
          (2 * (qn (d_tot i) * (qn (d_tot i) - 1) - 2 * qn (d_bi i))))%Q.

  (* mean of the counted coefficients; None when nothing is counted (NaN) *)
  Definition mean (count_zeros : bool) (vs : list Q) : option Q :=
    match filter (fun v => count_zeros || negb (Qeq_bool v 0)) vs with
    | [] => None
    | l => Some (fold_right Qplus 0%Q l / qn (length l))%Q
    end.
End ClusterDef.
