(* C11 on the graph state: the adjacency the undirected clustering functions read
   (the neighbour sets returned by the neighbour query, restricted to the node list),
   and the executable coherence test under which "model = definition" is proved. *)
From Coq Require Import List Bool.
From GV Require Import Base.Outcome Base.AMap Model.GState Model.Creation Model.Query
     Model.Components Model.Cluster Spec.ReachDef.
Import ListNotations.

Section ClusterSpec.
  Context {T A : Type}.
  Variable teqb : T -> T -> bool.
  Notation gstate := (gstate T A).

  (* u is listed as a neighbour of v (both nodes of the graph) *)
  Definition nadj (g : gstate) (v u : T) : bool :=
    memb teqb v (get_all_node_names g) && memb teqb u (get_all_node_names g) &&
    match neighbor_name_set teqb g v with Ok l => memb teqb u l | _ => false end.

  (* node list duplicate-free; every node's neighbour query succeeds, stays inside the
     node list and is symmetric *)
  Definition nbr_ok_b (g : gstate) : bool :=
    let names := get_all_node_names g in
    nodupb teqb names &&
    forallb (fun v =>
               match neighbor_name_set teqb g v with
               | Ok l => forallb (fun u => memb teqb u names &&
                                           match neighbor_name_set teqb g u with
                                           | Ok l' => memb teqb v l'
                                           | _ => false
                                           end) l
               | _ => false
               end) names.
End ClusterSpec.
