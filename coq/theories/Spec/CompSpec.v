(* C10 on the graph state: the edge relation is read off the EDGE LIST
   ([get_all_edges], the `edges` field) and the node list off `nodes_vec`;
   the component relations are reachability over it. *)
From Coq Require Import List Bool.
From GV Require Import Base.Outcome Base.AMap Model.GState Model.Creation Model.Query Spec.ReachDef.
Import ListNotations.

Section CompSpec.
  Context {T A : Type}.
  Variable teqb : T -> T -> bool.
  Notation gstate := (gstate T A).

  Definition g_nodes (g : gstate) : list T := get_all_node_names g.

  (* there is a stored edge u -> v between two nodes of the graph *)
  Definition edge_rel (g : gstate) (u v : T) : Prop :=
    In u (g_nodes g) /\ In v (g_nodes g) /\
    exists e, In e (get_all_edges g) /\ eu e = u /\ ev e = v.

  (* connected by a path ignoring direction (undirected components, weak components) *)
  Definition g_connected (g : gstate) : T -> T -> Prop :=
    reach (fun u v => edge_rel g u v \/ edge_rel g v u).
  (* connected by directed paths in both directions (strong components) *)
  Definition g_strongly (g : gstate) (u v : T) : Prop :=
    reach (edge_rel g) u v /\ reach (edge_rel g) v u.

  Definition g_rel (k : rel_kind) (g : gstate) : T -> T -> Prop :=
    match k with RConn => g_connected g | RStrong => g_strongly g end.

  (* executable adjacency from the edge list, and the checker on a graph state *)
  Definition g_adj (g : gstate) (u : T) : list T :=
    map (fun e => ev e) (filter (fun e => teqb (eu e) u) (get_all_edges g)).

  Definition check_components_g (g : gstate) (k : rel_kind) (comps : list (list T)) : bool :=
    check_components (g_nodes g) (g_adj g) teqb k comps.

  (* ---- executable coherence tests of the adjacency the searches read ----
     (hypotheses of the partition theorems; evaluated on every generated case) *)

  (* the adjacency query is symmetric and stays inside the node list, and the
     name index has no key outside the node list *)
  Definition step_ok_b (g : gstate) : bool :=
    let names := g_nodes g in
    forallb (fun k => memb teqb k names) (map fst (nodes_map g)) &&
    forallb (fun u =>
               match get_successors_or_neighbors teqb g u with
               | Ok ns =>
                 forallb (fun v => memb teqb v names &&
                                   match get_successors_or_neighbors teqb g v with
                                   | Ok ns' => memb teqb u (map nname ns')
                                   | _ => false
                                   end) (map nname ns)
               | _ => false
               end) names.

  (* the adjacency query succeeds on every node and stays inside the node list *)
  Definition step_total_b (g : gstate) : bool :=
    let names := g_nodes g in
    forallb (fun u =>
               match get_successors_or_neighbors teqb g u with
               | Ok ns => forallb (fun v => memb teqb v names) (map nname ns)
               | _ => false
               end) names.

  Definition row_of (m : list (T * list T)) (v : T) : list T :=
    match lookup teqb v m with Some l => l | None => [] end.

  (* predecessors is the inverse of successors (as name maps) and both stay inside the node list *)
  Definition wstep_ok_b (g : gstate) : bool :=
    let names := g_nodes g in
    forallb (fun kv => forallb (fun v => memb teqb v names && memb teqb (fst kv) (row_of (predecessors g) v))
                               (snd kv)) (successors g) &&
    forallb (fun kv => forallb (fun v => memb teqb v names && memb teqb (fst kv) (row_of (successors g) v))
                               (snd kv)) (predecessors g).
End CompSpec.
