(* Executable form of the well-formedness of the adjacency a search reads
   ([wf_adj] in Proofs/DijkstraModelOk.v): one row per node, neighbour indexes
   in range, one entry per neighbour, fewer than 2^31 - 1 entries.  Evaluated
   on every generated graph by Run/RunDijkstra.v, together with [nonneg_b]:
   when both hold the theorems of Properties/C04.v apply to that graph. *)
From Coq Require Import List Bool ZArith Arith.
From GV Require Import Model.GState Model.Query Model.Dijkstra Spec.ShortestPathDef Spec.ShortestPathCheck.
Import ListNotations.

Definition wf_adj_b {T A : Type} (g : gstate T A) : bool :=
  let n := number_of_nodes g in
  Nat.eqb (length (successors_vec g)) n &&
  forallb (fun row => forallb (fun a : adj => Nat.ltb (fst a) n) row && nodup_nb (map fst row)) (successors_vec g) &&
  Z.ltb (Z.of_nat (number_of_entries g)) I32_MAX.

Definition search_hypotheses_b {T A : Type} (g : gstate T A) (weighted : bool) : bool :=
  wf_adj_b g && nonneg_b (wgraph_of weighted (successors_vec g)).
