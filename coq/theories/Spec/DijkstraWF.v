(* Executable form of the well-formedness of the adjacency a search reads
   ([wf_adj] in Proofs/DijkstraModelOk.v): one row per node, neighbour indexes
   in range, one entry per neighbour, fewer than 2^31 - 1 entries.  Evaluated
   on every generated graph by Run/RunDijkstra.v, together with [nonneg_b]:
   when both hold the theorems of Properties/C04.v apply to that graph. *)
From Coq Require Import List Bool ZArith Arith.
From GV Require Import Base.AMap Model.GState Model.Query Model.Dijkstra Spec.ShortestPathDef Spec.ShortestPathCheck.
Import ListNotations.

Definition wf_adj_b {T A : Type} (g : gstate T A) : bool :=
  let n := number_of_nodes g in
  Nat.eqb (length (successors_vec g)) n &&
  forallb (fun row => forallb (fun a : adj => Nat.ltb (fst a) n) row && nodup_nb (map fst row)) (successors_vec g) &&
  Z.ltb (Z.of_nat (number_of_entries g)) I32_MAX.

Definition search_hypotheses_b {T A : Type} (g : gstate T A) (weighted : bool) : bool :=
  wf_adj_b g && nonneg_b (wgraph_of weighted (successors_vec g)).

(* executable form of the coherence of the name indexes ([names_wf] in
   Proofs/DijkstraNamesOk.v): nodes_map and nodes_map_rev are inverse on 0..n-1 *)
Definition node_name_at {T A : Type} (g : gstate T A) (i : nat) : option T :=
  match get_node_by_index g i with Some nd => Some (nname nd) | None => None end.

Definition names_wf_b {T A : Type} (teqb : T -> T -> bool) (g : gstate T A) : bool :=
  let n := number_of_nodes g in
  forallb (fun xi : T * nat =>
             Nat.ltb (snd xi) n &&
             match node_name_at g (snd xi) with Some y => teqb y (fst xi) | None => false end)
          (nodes_map g) &&
  forallb (fun i => match node_name_at g i with
                    | Some x => match AMap.lookup teqb x (nodes_map g) with Some j => Nat.eqb j i | None => false end
                    | None => false
                    end) (seq 0 n).
