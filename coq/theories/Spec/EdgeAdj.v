(* The relations / adjacencies of the END-TO-END statements of C10 / C11, read off the EDGE
   LIST ([get_all_edges]) and the node list alone.  Definitions only. *)
From Coq Require Import List Bool.
From GV Require Import Base.Outcome Base.AMap Model.GState Model.Creation Model.Query
     Spec.ReachDef Spec.CompSpec.
Import ListNotations.

Section EdgeAdj.
  Context {T A : Type}.
  Variable teqb : T -> T -> bool.
  Notation gstate := (gstate T A).

  (* one step of a search that follows the graph's edges: along a stored edge u -> v, and
     on an undirected graph also against it *)
  Definition g_follow (g : gstate) (u v : T) : Prop :=
    edge_rel g u v \/ (directed (sp g) = false /\ edge_rel g v u).

  (* there is a stored edge u -> v *)
  Definition has_edge_b (g : gstate) (u v : T) : bool :=
    existsb (fun e => teqb (eu e) u && teqb (ev e) v) (get_all_edges g).
  (* ... in either direction (the adjacency of the undirected clustering definitions) *)
  Definition edge_adjb (g : gstate) (u v : T) : bool := has_edge_b g u v || has_edge_b g v u.
  (* the arc relation on a directed graph, the symmetric one on an undirected graph *)
  Definition def_adjb (g : gstate) (u v : T) : bool :=
    if directed (sp g) then has_edge_b g u v else edge_adjb g u v.
End EdgeAdj.
