(* The graph betweenness centrality is ABOUT, read off the edge store of a graph state
   and written as an adjacency with rational costs (the form on which the definition
   [bc_def] of Spec/BetweennessDef.v is stated):

     [edge_store_adj g weighted a]:  a has one row per node; row i lists a neighbour
     at most once; and (j, q) is in row i  iff  q is the cost c of the arc i -> j of the
     edge store ([edge_arc] of Spec/EdgeStoreGraph.v: an edge is stored between the
     i-th and the j-th node — either orientation when the graph is undirected — and c
     is 1 in hop-count mode, the weight the pair carries in weighted mode, which is
     the MINIMUM stored weight of the pair when the weights are real numbers).

   The order of the entries inside a row is not fixed by this predicate, and
   [bc_def] does not depend on it (Proofs/BrandesWF.v [bc_def_rows_perm]).
   Plus the premise of weighted mode.  Definitions only. *)
From Coq Require Import List Bool ZArith QArith Arith.
From GV Require Import Base.Outcome Base.AMap Model.GState Model.Creation Model.Query Model.Dijkstra Model.Cent.
From GV Require Import Proofs.WFDefs Spec.EdgeStoreGraph.
Import ListNotations.

Section EdgeStoreAdj.
  Context {T A : Type}.
  Variable teqb : T -> T -> bool.
  Notation edge := (edge T A).
  Notation gstate := (gstate T A).

  Definition edge_store_adj (g : gstate) (weighted : bool) (a : qadj) : Prop :=
    length a = number_of_nodes g /\
    (forall i, NoDup (map fst (get [] a i))) /\
    (forall i j q, In (j, q) (get [] a i) <->
                   exists c, q = inject_Z c /\ edge_arc teqb g weighted i j c).

  (* premise of weighted mode: every stored edge carries a real, strictly positive weight *)
  Definition weights_real_positive (g : gstate) : Prop :=
    forall e : edge, In e (get_all_edges g) -> exists z, ew e = Some z /\ (0 < z)%Z.
  (* every stored edge carries a real weight (no NaN) *)
  Definition weights_real (g : gstate) : Prop :=
    forall e : edge, In e (get_all_edges g) -> exists z, ew e = Some z.
End EdgeStoreAdj.
