(* The graph a shortest-path search is ABOUT, read off the edge store of a graph state
   (Model/GState.v) — not off the traversal lists the code reads:
     arc i -> j of cost c  iff  some edge is stored between the i-th and the j-th node
     (either orientation when the graph is undirected) and c is the cost of that pair:
     1 in hop-count mode; in weighted mode the weight the adjacency keeps for the pair
     ([adjw] of Proofs/WFDefs.v: the weight of the single stored edge, the running
     minimum of the stored weights on a multi-edge graph — Proofs/DijkstraWF.v
     [edge_arc_min_weight]: THE minimum when all of them are real numbers).
   Plus the two premises of the properties C04 / C08 on a graph state, and the
   index -> name translation of an answer.  Definitions only. *)
From Coq Require Import List Bool ZArith QArith Arith.
From GV Require Import Base.Outcome Base.AMap Model.GState Model.Creation Model.Query Model.Dijkstra.
From GV Require Import Proofs.WFDefs.
Import ListNotations.

Section EdgeStoreGraph.
  Context {T A : Type}.
  Variable teqb : T -> T -> bool.
  Notation edge := (edge T A).
  Notation gstate := (gstate T A).

  (* the stored edges between two names, from get_all_edges alone *)
  Definition between (g : gstate) (x y : T) : list edge :=
    filter (fun e => peqb teqb (eu e, ev e) (x, y) ||
                     (negb (directed (sp g)) && peqb teqb (eu e, ev e) (y, x)))
           (get_all_edges g).

  Definition edge_arc (g : gstate) (weighted : bool) (i j : nat) (c : Z) : Prop :=
    exists x y, name_at g i = Some x /\ name_at g j = Some y /\ between g x y <> [] /\
                cost_of weighted (adjw (sp g) (between g x y)) = Some c.

  (* premise of C04 / C08: the stored weights are non-negative (positive for the
     "all shortest paths" clause); a NaN weight ([None]) is no arc in weighted mode *)
  Definition weights_nonneg (g : gstate) : Prop :=
    forall e z, In e (get_all_edges g) -> ew e = Some z -> (0 <= z)%Z.
  Definition weights_positive (g : gstate) : Prop :=
    forall e z, In e (get_all_edges g) -> ew e = Some z -> (0 < z)%Z.
  Definition weights_nonneg_b (g : gstate) : bool :=
    forallb (fun e : edge => match ew e with Some z => Z.leb 0 z | None => true end) (get_all_edges g).

  (* the size bound of the i32 fringe counter of dijkstra.rs (`count`): fewer than
     2^31 - 1 adjacency entries.  The one hypothesis of the end-to-end theorems that is
     a genuine restriction on the reachable graphs; it holds for every graph of at most
     46340 nodes (Proofs/DijkstraWF.v [small_adj_of_nodes]). *)
  Definition small_adj (g : gstate) : Prop := (Z.of_nat (number_of_entries g) < I32_MAX)%Z.

  (* node-index paths and their node-name form *)
  Definition names_of (g : gstate) (p : list nat) (p' : list T) : Prop :=
    Forall2 (fun k x => name_at g k = Some x) p p'.
  Definition info_names (g : gstate) (i : spinfo nat) (i' : spinfo T) : Prop :=
    sp_distance i' = sp_distance i /\ Forall2 (names_of g) (sp_paths i) (sp_paths i').
End EdgeStoreGraph.
