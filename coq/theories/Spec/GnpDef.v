(* C16: what "the slot enumeration of G(n,p) by geometric skipping" means
   (Batagelj & Brandes 2005; NetworkX fast_gnp_random_graph).

   The possible pairs are laid out on a line.
   Undirected: the lower triangle, pair (v,w) with 0 <= w < v < n at position
       und_index (v,w) = v(v-1)/2 + w,         N = n(n-1)/2 positions.
   Directed: the n x n grid, pair (v,w) at position
       dir_index n (v,w) = v*n + w,            N = n*n positions,
   whose diagonal positions are not pairs: a walk that lands on the diagonal
   position (v,v) is moved to the next position ([bump]); this redirected slot
   is where the property's 1/(n-1) allowance on the edge count comes from.

   A gap stream k_1, k_2, ... walks the line: t_0 = -1, t_j = b(t_(j-1) + 1 + k_j)
   (b = bump, or the identity for the triangle), and stops at the first t_j >= N.
   [walk] returns the visited positions, or None when the supplied (finite)
   stream is exhausted before the end of the line is passed. *)
From Coq Require Import List ZArith.
Import ListNotations.
Open Scope Z_scope.

Definition tri (v : Z) : Z := v * (v - 1) / 2.
Definition und_index (p : Z * Z) : Z := tri (fst p) + snd p.
Definition dir_index (n : Z) (p : Z * Z) : Z := fst p * n + snd p.

Definition bump (n t : Z) : Z := if t / n =? t mod n then t + 1 else t.

Fixpoint walk (b : Z -> Z) (N t : Z) (gaps : list Z) : option (list Z) :=
  match gaps with
  | [] => None
  | k :: gs =>
    let t' := b (t + 1 + k) in
    if t' <? N then
      match walk b N t' gs with Some ts => Some (t' :: ts) | None => None end
    else Some []
  end.

Definition und_walk (n : Z) (gaps : list Z) : option (list Z) := walk (fun t => t) (tri n) (-1) gaps.
Definition dir_walk (n : Z) (gaps : list Z) : option (list Z) := walk (bump n) (n * n) (-1) gaps.

(* admissible pairs *)
Definition und_pair (n : Z) (p : Z * Z) : Prop := 0 <= snd p < fst p /\ fst p < n.
Definition dir_pair (n : Z) (p : Z * Z) : Prop :=
  0 <= fst p < n /\ 0 <= snd p < n /\ fst p <> snd p.
