(* What "the node and edge elements of a GraphML document" are (C19), stated on
   the document's event sequence and independently of the reader's loop
   variables:
     doc_elems   — which events are elements of the graph, EVERY event being
                   looked at: a node element is a start or empty tag named node
                   carrying an id; an edge element one named edge carrying source
                   and target; the graph start tag declares the directedness; a key
                   element for edge / weight re-declares the weight key; the text
                   that directly follows (comments aside) the start tag of a data
                   element whose key is the weight key is a weight datum for the
                   most recent edge element, provided the innermost open node/edge
                   start tag is an edge.  None = the document is refused (a parser
                   error anywhere, a malformed element, a weight that is no number).
     el_nodes, el_edges, el_directed — the graph content of an element list: the
                   node ids in document order, the edges in document order each
                   with the last weight datum that follows it before the next
                   edge element (unweighted when there is none), the last declared
                   directedness (directed when none is declared).
   The graph a document denotes under specs s is then
     new_from_nodes_and_edges (el_nodes els) (el_edges els) (s with directed := el_directed els). *)
From Coq Require Import List NArith ZArith Bool.
From GV Require Import Base.Outcome Base.AMap Model.GState Model.XmlEscape Model.GraphML.
Import ListNotations.

Inductive elem :=
| ElNode (id : bytes)
| ElEdge (s t : bytes)
| ElWeight (w : weight)
| ElDirected (d : bool).

Definition attrs_of (a : list attr) : option amap :=
  match get_attributes a with Ok m => Some m | _ => None end.

(* an id attribute *)
Definition node_id (a : list attr) : option bytes :=
  match attrs_of a with Some m => aget s_id m | None => None end.

(* source and target attributes *)
Definition edge_ends (a : list attr) : option (bytes * bytes) :=
  match attrs_of a with
  | Some m => match aget s_source m, aget s_target m with
              | Some s, Some t => Some (s, t)
              | _, _ => None
              end
  | None => None
  end.

(* key element: None = refused, Some None = not the edge-weight declaration,
   Some (Some id) = declares id as the edge-weight key *)
Definition key_decl (a : list attr) : option (option bytes) :=
  match attrs_of a with
  | Some m =>
    if opt_is (aget s_attr_name m) s_weight && opt_is (aget s_for m) s_edge then
      match aget s_id m with Some id => Some (Some id) | None => None end
    else Some None
  | None => None
  end.

Definition graph_dir (a : list attr) : option bool :=
  match attrs_of a with
  | Some m =>
    match aget s_edgedefault m with
    | Some v => if bytes_eqb v s_directed then Some true
                else if bytes_eqb v s_undirected then Some false else None
    | None => None
    end
  | None => None
  end.

(* data start tag: None = refused, Some b = whether its key is the weight key *)
Definition data_is_weight (a : list attr) (wk : bytes) : option bool :=
  match attrs_of a with
  | Some m => Some (opt_is (aget s_key m) wk)
  | None => None
  end.

Definition ocons {X} (x : X) (o : option (list X)) : option (list X) :=
  match o with Some l => Some (x :: l) | None => None end.

Section Def.
  Variable parse : bytes -> option weight.

  Fixpoint doc_elems (evs : list event) (wk : bytes) (last : lastel) (exp : bool) : option (list elem) :=
    match evs with
    | [] => Some []
    | EvEof :: _ => Some []
    | EvErr :: _ => None
    | EvComment :: rest => doc_elems rest wk last exp
    | EvText raw :: rest =>
      if exp then
        match last with
        | LEdge => match parse raw with
                   | Some w => ocons (ElWeight w) (doc_elems rest wk last false)
                   | None => None
                   end
        | _ => doc_elems rest wk last false
        end
      else doc_elems rest wk last false
    | EvEmpty n a :: rest =>
      if bytes_eqb n s_node then
        match node_id a with Some id => ocons (ElNode id) (doc_elems rest wk last false) | None => None end
      else if bytes_eqb n s_edge then
        match edge_ends a with Some (s, t) => ocons (ElEdge s t) (doc_elems rest wk last false) | None => None end
      else if bytes_eqb n s_key then
        match key_decl a with
        | Some (Some id) => doc_elems rest id last false
        | Some None => doc_elems rest wk last false
        | None => None
        end
      else doc_elems rest wk last false
    | EvStart n a :: rest =>
      if bytes_eqb n s_graph then
        match graph_dir a with Some d => ocons (ElDirected d) (doc_elems rest wk last false) | None => None end
      else if bytes_eqb n s_node then
        match node_id a with Some id => ocons (ElNode id) (doc_elems rest wk LNode false) | None => None end
      else if bytes_eqb n s_edge then
        match edge_ends a with Some (s, t) => ocons (ElEdge s t) (doc_elems rest wk LEdge false) | None => None end
      else if bytes_eqb n s_key then
        match key_decl a with
        | Some (Some id) => doc_elems rest id last false
        | Some None => doc_elems rest wk last false
        | None => None
        end
      else if bytes_eqb n s_data then
        match data_is_weight a wk with
        | None => None
        | Some b => doc_elems rest wk last b
        end
      else doc_elems rest wk last false
    | _ :: rest => doc_elems rest wk last false
    end.
End Def.

Fixpoint el_directed (d : bool) (els : list elem) : bool :=
  match els with
  | [] => d
  | ElDirected d' :: t => el_directed d' t
  | _ :: t => el_directed d t
  end.

Fixpoint el_nodes (els : list elem) : list gnode :=
  match els with
  | [] => []
  | ElNode id :: t => mknode id None :: el_nodes t
  | _ :: t => el_nodes t
  end.

(* the weight of an edge element: the last weight datum before the next edge element *)
Fixpoint el_weight (els : list elem) (cur : weight) : weight :=
  match els with
  | [] => cur
  | ElWeight w :: t => el_weight t w
  | ElEdge _ _ :: _ => cur
  | _ :: t => el_weight t cur
  end.

Fixpoint el_edges (els : list elem) : list gedge :=
  match els with
  | [] => []
  | ElEdge s t :: r => mkedge s t (el_weight r None) None :: el_edges r
  | _ :: r => el_edges r
  end.

Definition doc_content (parse : bytes -> option weight) (evs : list event)
  : option (bool * list gnode * list gedge) :=
  match doc_elems parse evs s_weight LNone false with
  | Some els => Some (el_directed true els, el_nodes els, el_edges els)
  | None => None
  end.

(* ---- executable form of the well-formedness hypotheses of the C14 round-trip
   theorem (distinct names; every edge admissible for the specs after the edges
   before it): evaluated on every generated graph, proved sound in
   Proofs/GraphMLRoundTrip.v (wf_roundtrip_b_sound) *)
Definition same_pairb (s : specs) (e1 e2 : gedge) : bool :=
  (bytes_eqb (eu e1) (eu e2) && bytes_eqb (ev e1) (ev e2))
  || (negb (directed s) && bytes_eqb (eu e1) (ev e2) && bytes_eqb (ev e1) (eu e2)).

Definition admissibleb (s : specs) (names : list bytes) (done : list gedge) (e : gedge) : bool :=
  existsb (bytes_eqb (eu e)) names && existsb (bytes_eqb (ev e)) names
  && (selfloops s || negb (bytes_eqb (eu e) (ev e)))
  && (directed s || negb (bytes_ltb (ev e) (eu e)))
  && (multi s || forallb (fun e' => negb (same_pairb s e e')) done).

Fixpoint all_admissibleb (s : specs) (names : list bytes) (done es : list gedge) : bool :=
  match es with
  | [] => true
  | e :: t => admissibleb s names done e && all_admissibleb s names (done ++ [e]) t
  end.

Fixpoint nodupb (l : list bytes) : bool :=
  match l with
  | [] => true
  | x :: t => negb (existsb (bytes_eqb x) t) && nodupb t
  end.

Definition wf_roundtrip_b (s : specs) (ns : list gnode) (es : list gedge) : bool :=
  nodupb (map nname ns) && all_admissibleb s (map nname ns) [] es.
