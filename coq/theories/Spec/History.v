(* Histories of mutation calls on the concrete state (the four shapes every public
   mutation API reduces to: add_edge_tuple(s) are add_edge(s) of weightless edges and
   new_from_nodes_and_edges is add_nodes followed by add_edges on an empty graph). *)
From Coq Require Import List Bool.
From GV Require Import Base.Outcome Base.AMap Model.GState Model.Creation.
Import ListNotations.

Section History.
  Context {T A : Type}.
  Variable teqb : T -> T -> bool.
  Variable tltb : T -> T -> bool.
  Notation node := (node T A).
  Notation edge := (edge T A).
  Notation gstate := (gstate T A).

  Inductive mutation :=
  | MutNode (n : node)
  | MutNodes (ns : list node)
  | MutEdge (e : edge)
  | MutEdges (es : list edge).

  Definition lift (g : gstate) (r : outcome gstate) : gstate * outcome unit :=
    match r with
    | Ok g' => (g', Ok tt)
    | Err k => (g, Err k)
    | Panic s => (g, Panic s)
    | OutOfFuel => (g, OutOfFuel)
    end.

  Definition apply_mut (g : gstate) (m : mutation) : gstate * outcome unit :=
    match m with
    | MutNode n => lift g (add_node teqb g n)
    | MutNodes ns => lift g (add_nodes teqb g ns)
    | MutEdge e => add_edge teqb tltb g e
    | MutEdges es => add_edges teqb tltb g es
    end.

  (* the state after a history (a failed call leaves the object as the call left it) *)
  Definition run_muts (g : gstate) (ms : list mutation) : gstate :=
    fold_left (fun g m => fst (apply_mut g m)) ms g.

  Definition reachable (s : specs) (g : gstate) : Prop :=
    exists ms, g = run_muts (new s) ms.
End History.
Arguments mutation : clear implicits.
