(* C07: the record type of a rayon call site as extracted from the source by
   tools/gen_parsites.py (data in Gen/ParSites.v), and the predicate saying
   that a site is inside the fragment modelled by Model/Par.v. *)
From Coq Require Import String List Bool ZArith.
Import ListNotations.
Open Scope string_scope.

Inductive src_kind :=
| SrcRange                        (* (a..b): indexed *)
| SrcVec                          (* a Vec / slice: indexed *)
| SrcUnindexed (what : string)    (* hash / tree containers, par_bridge *)
| SrcUnknown (what : string).     (* the extractor could not tell *)

Inductive sink_kind :=
| SinkCollectVec                  (* .collect() into a Vec: order-preserving indexed collect *)
| SinkCollectResultVec            (* .collect::<Result<Vec<_>, E>>() of items that are `Result`s: the Ok values in
                                     index order, or the error of SOME failing item (rayon src/result.rs) *)
| SinkCollectOther (ty : string)  (* .collect() into something else (HashMap, ...) *)
| SinkOther (method : string)     (* reduce / sum / for_each / ... *)
| SinkNone.                       (* the parallel iterator escapes the analysis *)

Inductive post_kind :=
| PostSeqFor                      (* for r in results { ... } *)
| PostSeqIter                     (* results.into_iter() / .iter() ... sequential *)
| PostReturned
| PostOther (what : string).

Record par_site := {
  ps_file : string;
  ps_fn : string;                 (* function that owns the gathered result *)
  ps_via : string;                (* helper that built the iterator, "" if none *)
  ps_entry : string;              (* into_par_iter | par_iter | par_bridge | par_... *)
  ps_src : src_kind;
  ps_adaptors : list string;      (* adaptor chain between the entry and the sink *)
  ps_sink : sink_kind;
  ps_post : list post_kind;       (* every use of the gathered result *)
  ps_shared : list string         (* shared-state tokens inside the closures of the chain *)
}.

Definition src_indexed (s : src_kind) : bool :=
  match s with SrcRange | SrcVec => true | _ => false end.
Definition entry_ok (e : string) : bool := String.eqb e "into_par_iter" || String.eqb e "par_iter".
Definition sink_ok (s : sink_kind) : bool :=
  match s with SinkCollectVec | SinkCollectResultVec => true | _ => false end.
Definition post_ok (p : post_kind) : bool :=
  match p with PostSeqFor | PostSeqIter | PostReturned => true | PostOther _ => false end.
Definition is_nil {X} (l : list X) : bool := match l with [] => true | _ => false end.

(* indexed source /\ adaptors ⊆ {map} /\ sink = collect into Vec or into Result<Vec, E> /\ the result is
   only consumed sequentially /\ no shared accumulator in the closures *)
Definition site_ok (s : par_site) : bool :=
  entry_ok (ps_entry s) && src_indexed (ps_src s) &&
  forallb (String.eqb "map") (ps_adaptors s) &&
  sink_ok (ps_sink s) &&
  negb (is_nil (ps_post s)) && forallb post_ok (ps_post s) &&
  is_nil (ps_shared s).

(* the shapes the models give a meaning to: an indexed source, k >= 0 maps (composed into one pure f),
   then either an indexed collect into a Vec (Model/Par.v [run_par]; with items that may panic
   Model/ParFns.v [gather_par]) or a collect of `Result` items into `Result<Vec<_>, E>` (Model/ParFns.v
   [gather_result_par]), then sequential consumption *)
Inductive par_shape :=
| ShapeIndexedMapCollect (nmaps : nat)
| ShapeIndexedMapCollectResult (nmaps : nat)
| ShapeOutsideModel.
Definition site_shape (s : par_site) : par_shape :=
  if site_ok s then
    match ps_sink s with
    | SinkCollectResultVec => ShapeIndexedMapCollectResult (length (ps_adaptors s))
    | _ => ShapeIndexedMapCollect (length (ps_adaptors s))
    end
  else ShapeOutsideModel.
