(* Spec layer for C12 / C13: what "a partition of the node set", "a coarsening"
   and "Newman's modularity" mean, written directly on a node list and an edge
   multiset (a list of weighted pairs; parallel edges are separate entries, a
   self-loop is one entry).  Also the executable list-level computations
   ([is_partition_model], [modularity_abs], [check_levels]) that mirror the Rust
   code step by step on that abstract graph; Proofs/PartitionOk.v proves them
   equal to / sound for the definitions. *)
From Coq Require Import List Bool ZArith QArith.
From GV Require Import Model.GState Spec.AGraph.
Import ListNotations.

Section PartitionDef.
  Context {T : Type}.
  Variable teqb : T -> T -> bool.

  Definition memb (x : T) (l : list T) : bool := existsb (teqb x) l.

  (* ---------------- partitions ---------------- *)

  (* no element occurs in two different communities *)
  Definition pairwise_disjoint (comms : list (list T)) : Prop :=
    ForallOrdPairs (fun a b => forall x, In x a -> ~ In x b) comms.

  Definition is_partition_spec (nodes : list T) (comms : list (list T)) : Prop :=
    pairwise_disjoint comms /\
    (forall c x, In c comms -> In x c -> In x nodes) /\
    (forall x, In x nodes -> exists c, In c comms /\ In x c).

  (* partitions.rs is_partition (repaired), on lists: scan all names; reject a
     name that is not a node or was seen before; finally compare the counts *)
  Fixpoint scan_names (nodes names seen : list T) : option (list T) :=
    match names with
    | [] => Some seen
    | x :: t =>
      if negb (memb x nodes) || memb x seen then None else scan_names nodes t (x :: seen)
    end.

  Definition is_partition_model (nodes : list T) (comms : list (list T)) : bool :=
    match scan_names nodes (concat comms) [] with
    | None => false
    | Some seen => Nat.eqb (length seen) (length nodes)
    end.

  (* ---------------- levels of a hierarchy (C13) ---------------- *)

  Definition same_elements (a b : list T) : Prop := forall x, In x a <-> In x b.

  (* every community of [next] is a union of communities of [prev] *)
  Definition coarsening (prev next : list (list T)) : Prop :=
    forall c, In c next ->
      exists ds, incl ds prev /\ same_elements c (concat ds).

  Fixpoint chain (R : list (list T) -> list (list T) -> Prop) (ls : list (list (list T))) : Prop :=
    match ls with
    | [] => True
    | a :: t => match t with [] => True | b :: _ => R a b /\ chain R t end
    end.

  Definition level_ok (nodes : list T) (l : list (list T)) : Prop :=
    is_partition_spec nodes l /\ Forall (fun c => c <> []) l.

  Definition levels_ok (nodes : list T) (levels : list (list (list T))) : Prop :=
    levels <> [] /\ Forall (level_ok nodes) levels /\ chain coarsening levels.

  (* the executable checker *)
  Fixpoint nodupb (l : list T) : bool :=
    match l with [] => true | x :: t => negb (memb x t) && nodupb t end.
  Definition subsetb (a b : list T) : bool := forallb (fun x => memb x b) a.
  Definition disjointb (a b : list T) : bool := forallb (fun x => negb (memb x b)) a.

  Definition check_level (nodes : list T) (l : list (list T)) : bool :=
    forallb nodupb l && is_partition_model nodes l &&
    forallb (fun c => match c with [] => false | _ => true end) l.

  Definition check_coarsening (prev next : list (list T)) : bool :=
    forallb (fun c => forallb (fun d => subsetb d c || disjointb d c) prev) next.

  Fixpoint check_chain (ls : list (list (list T))) : bool :=
    match ls with
    | [] => true
    | a :: t => match t with [] => true | b :: _ => check_coarsening a b && check_chain t end
    end.

  Definition check_levels (nodes : list T) (levels : list (list (list T))) : bool :=
    match levels with [] => false | _ => true end &&
    nodupb nodes && forallb (check_level nodes) levels && check_chain levels.

  (* ---------------- modularity ---------------- *)

  (* an abstract weighted edge: source, target, weight *)
  Definition wedge := (T * T * Q)%type.
  Definition wu (e : wedge) : T := fst (fst e).
  Definition wv (e : wedge) : T := snd (fst e).
  Definition ww (e : wedge) : Q := snd e.

  Fixpoint qsum (l : list Q) : Q :=
    match l with [] => 0 | x :: t => x + qsum t end.

  (* weight of the edges selected by [p] *)
  Definition wsel (p : wedge -> bool) (es : list wedge) : Q := qsum (map ww (filter p es)).

  (* --- Newman's formula, stated directly on the edge multiset --- *)
  Definition total_w (es : list wedge) : Q := qsum (map ww es).
  (* L_c: edges with both ends in c; a self-loop is one edge, counted once *)
  Definition L_of (es : list wedge) (c : list T) : Q :=
    wsel (fun e => memb (wu e) c && memb (wv e) c) es.
  (* out- and in-degree sums of c *)
  Definition Kout_of (es : list wedge) (c : list T) : Q := wsel (fun e => memb (wu e) c) es.
  Definition Kin_of (es : list wedge) (c : list T) : Q := wsel (fun e => memb (wv e) c) es.
  (* undirected degree sum: every edge end in c counts, so a self-loop counts twice *)
  Definition K_of (es : list wedge) (c : list T) : Q := Kout_of es c + Kin_of es c.

  Definition newman (directed : bool) (es : list wedge) (gamma : Q) (comms : list (list T)) : Q :=
    let m := total_w es in
    qsum (map (fun c =>
                 if directed then L_of es c / m - gamma * (Kout_of es c * Kin_of es c) / (m * m)
                 else L_of es c / m - gamma * ((K_of es c / (2 * m)) * (K_of es c / (2 * m))))
              comms).

  (* --- the computation of partitions.rs modularity, step by step, on the
     abstract graph: per-node degrees (degree.rs), their sums, the induced
     subgraph's edges (subgraph.rs) and its size --- *)
  Definition out_deg (es : list wedge) (x : T) : Q := wsel (fun e => teqb (wu e) x) es.
  Definition in_deg (es : list wedge) (x : T) : Q := wsel (fun e => teqb (wv e) x) es.
  (* degree.rs get_node_weighted_degree: all incident edges once, self-loops once more *)
  Definition und_deg (es : list wedge) (x : T) : Q :=
    wsel (fun e => teqb (wu e) x || teqb (wv e) x) es + wsel (fun e => teqb (wu e) x && teqb (wv e) x) es.

  Definition subgraph_edges (es : list wedge) (c : list T) : list wedge :=
    filter (fun e => memb (wu e) c && memb (wv e) c) es.

  Definition modularity_abs (directed : bool) (nodes : list T) (es : list wedge) (gamma : Q)
             (comms : list (list T)) : Q :=
    if directed then
      let m := qsum (map (out_deg es) nodes) in
      let norm := (1 / m) * (1 / m) in
      qsum (map (fun c =>
                   total_w (subgraph_edges es c) / m
                   - gamma * qsum (map (out_deg es) c) * qsum (map (in_deg es) c) * norm) comms)
    else
      let deg_sum := qsum (map (und_deg es) nodes) in
      let m := deg_sum / 2 in
      let norm := (1 / deg_sum) * (1 / deg_sum) in
      qsum (map (fun c =>
                   total_w (subgraph_edges es c) / m
                   - gamma * qsum (map (und_deg es) c) * qsum (map (und_deg es) c) * norm) comms).

  (* modularity never decreases along the levels, and the first level is at
     least as good as the all-singletons partition *)
  Fixpoint nondecreasing (l : list Q) : bool :=
    match l with
    | [] => true
    | a :: t => match t with [] => true | b :: _ => Qle_bool a b && nondecreasing t end
    end.

  Definition monotone_check (directed : bool) (nodes : list T) (es : list wedge) (gamma : Q)
             (levels : list (list (list T))) : bool :=
    nondecreasing (modularity_abs directed nodes es gamma (map (fun x => [x]) nodes)
                   :: map (modularity_abs directed nodes es gamma) levels).
End PartitionDef.

(* the abstract weighted edge list of a spec-layer graph: the stored weight when
   [weighted] (an unweighted edge, NaN in Rust, has no rational value: [None]),
   1 per edge otherwise *)
Section OfAGraph.
  Context {T A : Type}.
  Definition wedge_of (weighted : bool) (e : edge T A) : option (T * T * Q) :=
    if weighted then
      match ew e with Some z => Some (eu e, ev e, inject_Z z) | None => None end
    else Some (eu e, ev e, 1%Q).
  Fixpoint wedges_of (weighted : bool) (es : list (edge T A)) : option (list (T * T * Q)) :=
    match es with
    | [] => Some []
    | e :: t =>
      match wedge_of weighted e, wedges_of weighted t with
      | Some x, Some r => Some (x :: r)
      | _, _ => None
      end
    end.
End OfAGraph.
