(* Reachability, "is the partition into components", and an executable checker
   for it (C10).  A graph is here just a node list and an adjacency function
   [adj : T -> list T]; the edge relation [E] is restricted to the node list on
   both sides.  Definitions only; the checker is proved sound in
   Proofs/ComponentsOk.v. *)
From Coq Require Import List Bool.
Import ListNotations.

Section Reach.
  Context {T : Type}.

  (* reflexive-transitive closure of a relation *)
  Inductive reach (R : T -> T -> Prop) : T -> T -> Prop :=
  | reach_refl : forall x, reach R x x
  | reach_step : forall x y z, reach R x y -> R y z -> reach R x z.

  Variable nodes : list T.
  Variable adj : T -> list T.

  (* u -> v is an edge between two nodes of the graph *)
  Definition E (u v : T) : Prop := In u nodes /\ In v nodes /\ In v (adj u).
  (* ... ignoring direction *)
  Definition Esym (u v : T) : Prop := E u v \/ E v u.

  (* connected by a path ignoring direction: components of an undirected graph
     and weak components of a directed graph *)
  Definition connected (u v : T) : Prop := reach Esym u v.
  (* connected by a directed path in both directions: strong components *)
  Definition strongly (u v : T) : Prop := reach E u v /\ reach E v u.

  (* [comps] is the partition of the node list into the classes of [rel]:
     non-empty, pairwise disjoint and each node exactly once (NoDup of the
     concatenation), covering exactly the node list, and two nodes share a set
     iff they are related *)
  Definition is_component_partition (rel : T -> T -> Prop) (comps : list (list T)) : Prop :=
    (forall c, In c comps -> c <> []) /\
    NoDup (concat comps) /\
    (forall x, In x nodes <-> In x (concat comps)) /\
    (forall c x y, In c comps -> In x c -> In y nodes -> (In y c <-> rel x y)).

  (* ---------------- executable side ---------------- *)
  Variable teqb : T -> T -> bool.

  Definition memb (x : T) (l : list T) : bool := existsb (teqb x) l.

  Definition adj_e (u : T) : list T :=
    if memb u nodes then filter (fun v => memb v nodes) (adj u) else [].
  Definition adj_s (u : T) : list T :=
    adj_e u ++ filter (fun w => memb u (adj_e w)) nodes.

  Section Closure.
    Variable nb : T -> list T.
    Definition add_all (s l : list T) : list T :=
      fold_left (fun acc x => if memb x acc then acc else acc ++ [x]) l s.
    Definition expand (s : list T) : list T :=
      fold_left (fun acc u => add_all acc (nb u)) s s.
    Fixpoint iter_expand (n : nat) (s : list T) : list T :=
      match n with O => s | S k => iter_expand k (expand s) end.
    Definition closed (s : list T) : bool :=
      forallb (fun u => forallb (fun v => memb v s) (nb u)) s.
    (* |nodes| rounds of expansion from [x]; whether that reached the fixed
       point is CHECKED ([closed]), not assumed *)
    Definition closure (x : T) : list T := iter_expand (length nodes) [x].
  End Closure.

  Inductive rel_kind := RConn | RStrong.

  Definition rel_of (k : rel_kind) : T -> T -> Prop :=
    match k with RConn => connected | RStrong => strongly end.

  Definition nb_of (k : rel_kind) : T -> list T :=
    match k with RConn => adj_s | RStrong => adj_e end.

  Definition relb (k : rel_kind) (x y : T) : bool :=
    match k with
    | RConn => memb y (closure adj_s x)
    | RStrong => memb y (closure adj_e x) && memb x (closure adj_e y)
    end.

  Fixpoint nodupb (l : list T) : bool :=
    match l with
    | [] => true
    | x :: t => negb (memb x t) && nodupb t
    end.

  Definition check_components (k : rel_kind) (comps : list (list T)) : bool :=
    forallb (fun x => closed (nb_of k) (closure (nb_of k) x)) nodes &&
    forallb (fun c => match c with [] => false | _ => true end) comps &&
    nodupb (concat comps) &&
    forallb (fun x => memb x nodes) (concat comps) &&
    forallb (fun x => memb x (concat comps)) nodes &&
    forallb (fun c => forallb (fun x => forallb (fun y => Bool.eqb (memb y c) (relb k x y)) nodes) c) comps.
End Reach.
