(* Executable checkers for C04 / C08 (definitions only; proved sound in
   Proofs/ShortestPathOk.v):

   [check_dist g s d]   — the vector d (one [option Z] per node) is THE shortest
                          distance function from s: feasible on every adjacency
                          entry, 0 at s, and every finite value is realised by a
                          walk (a tight-edge closure computed from s).
   [sp_path_b g d s t p] — p runs from s to t along tight entries (w.r.t. d).
   [asp fuel g d s t]   — enumeration of all shortest paths by recursion over
                          the shortest-path DAG (tight entries).
   [check_result ...]   — the answer of one search call satisfies [result_ok]. *)
From Coq Require Import List Bool ZArith QArith Arith.
From GV Require Import Spec.ShortestPathDef.
Import ListNotations.
Open Scope Z_scope.

Definition dvec := list (option Z).
Definition dget (d : dvec) (v : nat) : option Z :=
  match nth_error d v with Some o => o | None => None end.

Definition memn (x : nat) (l : list nat) : bool := existsb (Nat.eqb x) l.

(* all adjacency entries as (u, v, w) *)
Definition row_entries (u : nat) (row : list (nat * Z)) : list (nat * nat * Z) :=
  map (fun vw => (u, fst vw, snd vw)) row.
Fixpoint entries_from (u : nat) (g : wgraph) : list (nat * nat * Z) :=
  match g with
  | [] => []
  | row :: t => row_entries u row ++ entries_from (S u) t
  end.
Definition entries (g : wgraph) : list (nat * nat * Z) := entries_from 0 g.

(* d[v] <= d[u] + w on every entry whose tail is reached *)
Definition feasible_entry (d : dvec) (e : nat * nat * Z) : bool :=
  let '(u, v, w) := e in
  match dget d u with
  | None => true
  | Some a => match dget d v with Some b => Z.leb b (a + w) | None => false end
  end.

(* d[v] = d[u] + w *)
Definition tight_entry (d : dvec) (e : nat * nat * Z) : bool :=
  let '(u, v, w) := e in
  match dget d u, dget d v with
  | Some a, Some b => Z.eqb b (a + w)
  | _, _ => false
  end.

(* one sweep of the tight-edge closure *)
Definition ach_add (d : dvec) (acc : list nat) (e : nat * nat * Z) : list nat :=
  let '(u, v, w) := e in
  if tight_entry d e && memn u acc && negb (memn v acc) then v :: acc else acc.
Definition ach_sweep (d : dvec) (es : list (nat * nat * Z)) (acc : list nat) : list nat :=
  fold_left (ach_add d) es acc.
Fixpoint ach_iter (k : nat) (d : dvec) (es : list (nat * nat * Z)) (acc : list nat) : list nat :=
  match k with O => acc | S k' => ach_iter k' d es (ach_sweep d es acc) end.

Definition oz_eqb (a b : option Z) : bool :=
  match a, b with
  | Some x, Some y => Z.eqb x y
  | None, None => true
  | _, _ => false
  end.

Definition check_dist (g : wgraph) (s : nat) (d : dvec) : bool :=
  let es := entries g in
  Nat.eqb (length d) (length g) && Nat.ltb s (length g) &&
  oz_eqb (dget d s) (Some 0) &&
  forallb (feasible_entry d) es &&
  (let acc := ach_iter (length g) d es [s] in
   forallb (fun v => match dget d v with Some _ => memn v acc | None => true end)
           (seq 0 (length g))).

(* is there a tight entry u -> t *)
Definition tight_b (g : wgraph) (d : dvec) (u t : nat) : bool :=
  match nth_error g u with
  | None => false
  | Some row => existsb (fun vw => Nat.eqb (fst vw) t && tight_entry d (u, fst vw, snd vw)) row
  end.

(* p, read from its LAST node backwards, follows tight entries down to s *)
Fixpoint sp_rev_b (g : wgraph) (d : dvec) (s : nat) (last : nat) (rp : list nat) : bool :=
  match rp with
  | [] => Nat.eqb last s
  | u :: rp' => tight_b g d u last && sp_rev_b g d s u rp'
  end.
Definition sp_path_b (g : wgraph) (d : dvec) (s t : nat) (p : list nat) : bool :=
  match rev p with
  | [] => false
  | l :: rp => Nat.eqb l t && sp_rev_b g d s l rp
  end.

(* all shortest paths from s to t over the tight entries; fuel > d[t] suffices
   when all costs are positive integers *)
Fixpoint asp (fuel : nat) (g : wgraph) (d : dvec) (s t : nat) : list (list nat) :=
  if Nat.eqb t s then [[s]] else
  match fuel with
  | O => []
  | S f =>
    flat_map (fun u => if tight_b g d u t
                       then map (fun p => p ++ [t]) (asp f g d s u)
                       else [])
             (seq 0 (length g))
  end.

Definition positive_b (g : wgraph) : bool := forallb (fun e => Z.ltb 0 (snd e)) (entries g).
Definition nonneg_b (g : wgraph) : bool := forallb (fun e => Z.leb 0 (snd e)) (entries g).

Fixpoint list_eqb (a b : list nat) : bool :=
  match a, b with
  | [], [] => true
  | x :: a', y :: b' => Nat.eqb x y && list_eqb a' b'
  | _, _ => false
  end.
Definition memp (p : list nat) (l : list (list nat)) : bool := existsb (list_eqb p) l.
Fixpoint nodup_pb (l : list (list nat)) : bool :=
  match l with [] => true | p :: t => negb (memp p t) && nodup_pb t end.
Fixpoint nodup_nb (l : list nat) : bool :=
  match l with [] => true | x :: t => negb (memn x t) && nodup_nb t end.

Definition within_b (cutoff : option Q) (x : Z) : bool :=
  match cutoff with Some c => Qle_bool (inject_Z x) c | None => true end.

Definition answer := list (nat * (Z * list (list nat))).

Definition check_entry (g : wgraph) (d : dvec) (s : nat) (cutoff : option Q)
           (first_only with_paths : bool) (e : nat * (Z * list (list nat))) : bool :=
  let '(v, (x, ps)) := e in
  oz_eqb (dget d v) (Some x) && within_b cutoff x &&
  if with_paths then
    forallb (sp_path_b g d s v) ps &&
    (if first_only then Nat.eqb (length ps) 1
     else if positive_b g
          then nodup_pb ps && forallb (fun p => memp p ps) (asp (S (Z.to_nat x)) g d s v)
          else true)
  else match ps with [] => true | _ => false end.

Definition reported_b (d : dvec) (cutoff : option Q) (keys : list nat) (v : nat) : bool :=
  match dget d v with
  | Some x => if within_b cutoff x then memn v keys else true
  | None => true
  end.

Definition check_result (g : wgraph) (d : dvec) (s : nat) (target : option nat) (cutoff : option Q)
           (first_only with_paths : bool) (r : answer) : bool :=
  let keys := map fst r in
  nodup_nb keys &&
  forallb (check_entry g d s cutoff first_only with_paths) r &&
  match target with
  | None => forallb (reported_b d cutoff keys) (seq 0 (length g))
  | Some t => reported_b d cutoff keys t
  end.

(* the adjacency a search reads: [successors_vec] of the graph state, with the
   cost of each entry (1 in hop-count mode; a NaN-weighted entry has no effect
   on the search, see Model/Dijkstra.v [relax], so it is no entry here) *)
Definition wgraph_of (weighted : bool) (sv : list (list (nat * option Z))) : wgraph :=
  map (flat_map (fun a : nat * option Z =>
                   match (if weighted then snd a else Some 1) with
                   | Some c => [(fst a, c)]
                   | None => []
                   end)) sv.
