(* Spec layer for C04 / C08: walks, their weight, shortest distance, the set of
   shortest paths — over a plain weighted adjacency [wgraph]: [g[u]] lists the
   entries (v, w) "there is a traversable edge u -> v of cost w".  Parallel
   entries are allowed (the definition of distance takes the cheapest), an
   undirected graph has both directions listed, hop-count mode is the
   adjacency with every cost 1.  Integer costs (the model's weights are
   [option Z]).  Definitions only; the theorems are in Proofs/ShortestPathOk.v. *)
From Coq Require Import List Bool ZArith QArith Arith.
Import ListNotations.
Open Scope Z_scope.

Definition wgraph := list (list (nat * Z)).

(* an adjacency entry u -> v of cost w *)
Definition wedge (g : wgraph) (u v : nat) (w : Z) : Prop :=
  exists row, nth_error g u = Some row /\ In (v, w) row.

(* [walk g s t p d]: the node sequence p starts at s, ends at t, every hop
   follows an adjacency entry, and d is the sum of the costs of the entries
   chosen (so a node sequence over parallel entries has several weights; the
   minimum is what "the weight of the path" means, see [is_dist]) *)
Inductive walk (g : wgraph) (s : nat) : nat -> list nat -> Z -> Prop :=
| walk_nil : (s < length g)%nat -> walk g s s [s] 0
| walk_snoc : forall u v w p d,
    walk g s u p d -> wedge g u v w -> walk g s v (p ++ [v]) (d + w).

Definition reach (g : wgraph) (s t : nat) : Prop := exists p d, walk g s t p d.

(* d is the shortest-path length from s to t *)
Definition is_dist (g : wgraph) (s t : nat) (d : Z) : Prop :=
  (exists p, walk g s t p d) /\ (forall p d', walk g s t p d' -> d <= d').

(* p is a shortest path from s to t *)
Definition SP (g : wgraph) (s t : nat) (p : list nat) : Prop :=
  exists d, is_dist g s t d /\ walk g s t p d.

Definition nonneg (g : wgraph) : Prop := forall u v w, wedge g u v w -> 0 <= w.
Definition positive (g : wgraph) : Prop := forall u v w, wedge g u v w -> 0 < w.
Definition symmetric (g : wgraph) : Prop := forall u v w, wedge g u v w -> wedge g v u w.

(* x occurs strictly inside p *)
Definition strictly_inside (x : nat) (p : list nat) : Prop :=
  exists a l b, p = a :: l ++ [b] /\ In x l.

(* ---- the statement of C04 + the option laws of C08 for ONE call --------------
   [r] is the answer (node, (distance, paths)) of a search from [s] with options
   target / cutoff / first_only / with_paths.  [cut] is the cutoff test. *)
Definition within (cutoff : option Q) (x : Z) : Prop :=
  match cutoff with Some c => (inject_Z x <= c)%Q | None => True end.

Definition entry_ok (g : wgraph) (s : nat) (cutoff : option Q) (first_only with_paths : bool)
           (e : nat * (Z * list (list nat))) : Prop :=
  let '(v, (x, ps)) := e in
  is_dist g s v x /\ within cutoff x /\
  (with_paths = false -> ps = []) /\
  (with_paths = true ->
     (forall p, In p ps -> SP g s v p) /\
     (first_only = true -> length ps = 1%nat) /\
     (first_only = false -> positive g -> NoDup ps /\ forall p, SP g s v p -> In p ps)).

Definition result_ok (g : wgraph) (s : nat) (target : option nat) (cutoff : option Q)
           (first_only with_paths : bool) (r : list (nat * (Z * list (list nat)))) : Prop :=
  NoDup (map fst r) /\
  (forall e, In e r -> entry_ok g s cutoff first_only with_paths e) /\
  (* which nodes are reported *)
  match target with
  | None => forall v x, is_dist g s v x -> within cutoff x -> In v (map fst r)
  | Some t => forall x, is_dist g s t x -> within cutoff x -> In t (map fst r)
  end.

(* [result_ok] without the clause "the path list enumerates ALL shortest paths, each once" *)
Definition entry_sound (g : wgraph) (s : nat) (cutoff : option Q) (first_only with_paths : bool)
           (e : nat * (Z * list (list nat))) : Prop :=
  let '(v, (x, ps)) := e in
  is_dist g s v x /\ within cutoff x /\
  (with_paths = false -> ps = []) /\
  (with_paths = true ->
     (forall p, In p ps -> SP g s v p) /\
     (first_only = true -> length ps = 1%nat)).

Definition result_sound (g : wgraph) (s : nat) (target : option nat) (cutoff : option Q)
           (first_only with_paths : bool) (r : list (nat * (Z * list (list nat)))) : Prop :=
  NoDup (map fst r) /\
  (forall e, In e r -> entry_sound g s cutoff first_only with_paths e) /\
  match target with
  | None => forall v x, is_dist g s v x -> within cutoff x -> In v (map fst r)
  | Some t => forall x, is_dist g s t x -> within cutoff x -> In t (map fst r)
  end.
