(* The per-call statement of C04 / C08 ([result_ok] of Spec/ShortestPathDef.v) over an
   ABSTRACT arc relation instead of an adjacency list: [arc u v w] = "there is a
   traversable arc u -> v of cost w", nodes are the indexes 0..n-1.  Word for word the
   definitions of ShortestPathDef.v with [wedge g] replaced by [arc] and [length g] by
   [n]; Proofs/DijkstraWF.v proves that the two forms are equivalent whenever [arc]
   is the entry relation of the adjacency list, and instantiates [arc] with the arcs of
   the EDGE STORE of a graph state ([edge_arc]).  Definitions only. *)
From Coq Require Import List Bool ZArith QArith Arith.
From GV Require Import Spec.ShortestPathDef.
Import ListNotations.
Open Scope Z_scope.

Section Rel.
  Variable arc : nat -> nat -> Z -> Prop.
  Variable n : nat.

  Inductive awalk (s : nat) : nat -> list nat -> Z -> Prop :=
  | awalk_nil : (s < n)%nat -> awalk s s [s] 0
  | awalk_snoc : forall u v w p d,
      awalk s u p d -> arc u v w -> awalk s v (p ++ [v]) (d + w).

  Definition a_reach (s t : nat) : Prop := exists p d, awalk s t p d.

  Definition a_is_dist (s t : nat) (d : Z) : Prop :=
    (exists p, awalk s t p d) /\ (forall p d', awalk s t p d' -> d <= d').

  Definition a_SP (s t : nat) (p : list nat) : Prop :=
    exists d, a_is_dist s t d /\ awalk s t p d.

  Definition a_nonneg : Prop := forall u v w, arc u v w -> 0 <= w.
  Definition a_positive : Prop := forall u v w, arc u v w -> 0 < w.

  Definition a_entry_ok (s : nat) (cutoff : option Q) (first_only with_paths : bool)
             (e : nat * (Z * list (list nat))) : Prop :=
    let '(v, (x, ps)) := e in
    a_is_dist s v x /\ within cutoff x /\
    (with_paths = false -> ps = []) /\
    (with_paths = true ->
       (forall p, In p ps -> a_SP s v p) /\
       (first_only = true -> length ps = 1%nat) /\
       (first_only = false -> a_positive -> NoDup ps /\ forall p, a_SP s v p -> In p ps)).

  Definition a_result_ok (s : nat) (target : option nat) (cutoff : option Q)
             (first_only with_paths : bool) (r : list (nat * (Z * list (list nat)))) : Prop :=
    NoDup (map fst r) /\
    (forall e, In e r -> a_entry_ok s cutoff first_only with_paths e) /\
    match target with
    | None => forall v x, a_is_dist s v x -> within cutoff x -> In v (map fst r)
    | Some t => forall x, a_is_dist s t x -> within cutoff x -> In t (map fst r)
    end.
End Rel.
