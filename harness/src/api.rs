//! C20: every public function of the crate called on one graph (given by the case) with
//! names taken from the graph (and, for functions with a Result/Option channel, one absent
//! name).  One observation per call: kind 2000, row [fn_id, arg_class, outcome].
//! arg_class: 0 no name argument, 1 existing name(s), 2 absent name.
//! outcome: 0 Ok/Some/plain value, 50 None, error-kind code, 100 panic, 101 no answer in time.
use crate::hist::{parse_edge, parse_node, parse_specs, Toks, E, G, Nd};
use crate::obs::*;
use graphrs::algorithms::{centrality, cluster, community, components, shortest_path::dijkstra};
use graphrs::{Graph, GraphSpecs};
use std::collections::HashSet;
use std::sync::Arc;

const ABSENT: i64 = 99;
const TIMEOUT_MS: u64 = 4000;

fn rcode<X>(r: Option<Option<Result<X, graphrs::Error>>>) -> i64 {
    match r {
        None => HANG,
        Some(None) => PANIC,
        Some(Some(Ok(_))) => 0,
        Some(Some(Err(e))) => kind_code(&e.kind),
    }
}
fn ocode<X>(r: Option<Option<Option<X>>>) -> i64 {
    match r {
        None => HANG,
        Some(None) => PANIC,
        Some(Some(Some(_))) => 0,
        Some(Some(None)) => 50,
    }
}
fn pcode<X>(r: Option<Option<X>>) -> i64 {
    match r {
        None => HANG,
        Some(None) => PANIC,
        Some(Some(_)) => 0,
    }
}

pub fn run_case(lines: &[Vec<String>], o: &mut Out) {
    let mut specs = GraphSpecs::directed();
    let mut nodes: Vec<Nd> = vec![];
    let mut edges: Vec<E> = vec![];
    for l in lines {
        let mut t = Toks::new(l);
        match t.s() {
            "spec" => specs = parse_specs(&mut t),
            "node" => nodes.push(parse_node(&mut t)),
            "edge" => edges.push(parse_edge(&mut t)),
            _ => {}
        }
    }
    let g: G = match guard(|| Graph::new_from_nodes_and_edges(nodes.clone(), edges.clone(), specs.clone())) {
        Some(Ok(g)) => g,
        Some(Err(e)) => {
            o.obs(2001, &[vec![kind_code(&e.kind)]], &[]);
            return;
        }
        None => {
            o.obs(2001, &[vec![PANIC]], &[]);
            return;
        }
    };
    o.obs(2001, &[vec![0]], &[]);
    let g = Arc::new(g);
    let names: Vec<i64> = g.get_all_node_names().into_iter().cloned().collect();
    let mut picks: Vec<(i64, i64)> = vec![];
    if let Some(f) = names.first() {
        picks.push((1, *f));
    }
    if names.len() > 1 {
        picks.push((1, *names.last().unwrap()));
    }
    picks.push((2, ABSENT));
    let mut rows: Vec<Vec<i64>> = vec![];
    // helper macros: run on a watchdog thread with a clone of the Arc
    macro_rules! res {
        ($code:expr, $cls:expr, $g:ident, $body:expr) => {{
            let $g = g.clone();
            rows.push(vec![$code, $cls, rcode(guard_t(TIMEOUT_MS, move || $body.map(|_| ())))]);
        }};
    }
    macro_rules! opt {
        ($code:expr, $cls:expr, $g:ident, $body:expr) => {{
            let $g = g.clone();
            rows.push(vec![$code, $cls, ocode(guard_t(TIMEOUT_MS, move || $body.map(|_| ())))]);
        }};
    }
    macro_rules! plain {
        ($code:expr, $cls:expr, $g:ident, $body:expr) => {{
            let $g = g.clone();
            rows.push(vec![$code, $cls, pcode(guard_t(TIMEOUT_MS, move || {
                let _ = $body;
            }))]);
        }};
    }
    // ---- functions without a name argument (ids 1..) ----
    plain!(1, 0, g, g.get_all_edges().len());
    plain!(2, 0, g, g.get_all_nodes().len());
    plain!(3, 0, g, g.get_all_node_names().len());
    plain!(4, 0, g, g.edges_have_weight());
    plain!(5, 0, g, g.number_of_nodes());
    plain!(6, 0, g, g.number_of_edges());
    plain!(7, 0, g, g.size(false));
    plain!(8, 0, g, g.size(true));
    plain!(9, 0, g, g.get_density());
    plain!(10, 0, g, g.get_degree_for_all_nodes());
    res!(11, 0, g, g.get_in_degree_for_all_nodes());
    res!(12, 0, g, g.get_out_degree_for_all_nodes());
    plain!(13, 0, g, g.get_weighted_degree_for_all_nodes());
    res!(14, 0, g, g.get_weighted_in_degree_for_all_nodes());
    res!(15, 0, g, g.get_weighted_out_degree_for_all_nodes());
    res!(16, 0, g, g.ensure_directed());
    res!(17, 0, g, g.ensure_undirected());
    res!(18, 0, g, g.ensure_not_multi_edges());
    res!(19, 0, g, g.ensure_weighted());
    res!(20, 0, g, g.get_sparse_adjacency_matrix());
    res!(21, 0, g, g.reverse());
    res!(22, 0, g, g.to_single_edges());
    plain!(23, 0, g, g.set_all_edge_weights(2.0));
    plain!(24, 0, g, g.get_successors_map().len());
    plain!(25, 0, g, g.get_predecessors_map().len());
    plain!(26, 0, g, centrality::degree::degree_centrality(&*g));
    for (w, n) in [(false, false), (false, true), (true, false), (true, true)] {
        res!(27, 0, g, centrality::betweenness::betweenness_centrality(&*g, w, n));
    }
    for (w, f) in [(false, false), (false, true), (true, false), (true, true)] {
        res!(28, 0, g, centrality::closeness::closeness_centrality(&*g, w, f));
    }
    for w in [false, true] {
        res!(29, 0, g, centrality::eigenvector::eigenvector_centrality(&*g, w, Some(50), Some(1e-6)));
    }
    for w in [false, true] {
        res!(30, 0, g, cluster::clustering(&*g, w, None));
        res!(31, 0, g, cluster::average_clustering(&*g, w, None, true));
    }
    res!(32, 0, g, cluster::average_clustering(&*g, false, None, false));
    res!(33, 0, g, cluster::transitivity(&*g));
    res!(34, 0, g, cluster::triangles(&*g, None));
    res!(35, 0, g, cluster::generalized_degree(&*g, None));
    plain!(36, 0, g, cluster::square_clustering(&*g, None));
    res!(37, 0, g, components::connected_components(&*g));
    res!(38, 0, g, components::number_of_connected_components(&*g));
    res!(39, 0, g, components::strongly_connected_components(&*g));
    res!(40, 0, g, components::weakly_connected_components(&*g));
    for k in [1usize, 2, 5] {
        plain!(41, 0, g, components::bfs_equal_size_partitions(&*g, k));
    }
    for (w, fo, wp) in [(false, false, false), (false, false, true), (false, true, true), (true, false, true), (true, false, false)] {
        res!(42, 0, g, dijkstra::all_pairs(&*g, w, None, None, fo, wp));
    }
    res!(43, 0, g, dijkstra::all_pairs(&*g, false, None, Some(1.0), false, true));
    for w in [false, true] {
        res!(44, 0, g, community::louvain::louvain_partitions(&*g, w, None, None, Some(3)));
    }
    res!(45, 0, g, community::louvain::louvain_communities(&*g, false, Some(0.5), Some(0.0), Some(1)));
    {
        // modularity / is_partition on the all-singletons partition and on one set of all nodes
        let singles: Vec<HashSet<i64>> = names.iter().map(|n| [*n].into_iter().collect()).collect();
        let all: Vec<HashSet<i64>> = vec![names.iter().cloned().collect()];
        let s2 = singles.clone();
        plain!(46, 0, g, community::partitions::is_partition(&*g, &s2));
        let s3 = singles.clone();
        res!(47, 0, g, community::partitions::modularity(&*g, &s3, false, None));
        let a2 = all.clone();
        res!(48, 0, g, community::partitions::modularity(&*g, &a2, true, Some(1.5)));
        let foreign: Vec<HashSet<i64>> = vec![names.iter().cloned().chain([ABSENT]).collect()];
        res!(49, 2, g, community::partitions::modularity(&*g, &foreign, false, None));
        // an absent name SWAPPED IN for a node (the number of names still equals the number of nodes)
        if let Some(first) = names.first() {
            let swapped: Vec<HashSet<i64>> =
                vec![names.iter().cloned().filter(|x| x != first).chain([ABSENT]).collect()];
            let sw2 = swapped.clone();
            let sw3 = swapped.clone();
            plain!(102, 0, g, community::partitions::is_partition(&*g, &sw2));
            res!(101, 2, g, community::partitions::modularity(&*g, &swapped, false, None));
            res!(101, 2, g, community::partitions::modularity(&*g, &sw3, true, Some(0.5)));
        }
    }
    res!(50, 0, g, graphrs::readwrite::graphml::write_graphml_string(&*g).map_err(|_| graphrs::Error {
        kind: graphrs::ErrorKind::ReadError,
        message: String::new()
    })); // 66
    // ---- every name of the graph, the first one listed twice: all names exist (class 1) ----
    if let Some(f) = names.first() {
        let mut rep: Vec<i64> = names.clone();
        rep.push(*f);
        let r1 = rep.clone();
        res!(103, 1, g, g.get_edges_for_nodes(&r1));
        let r1 = rep.clone();
        res!(104, 1, g, g.get_in_edges_for_nodes(&r1));
        let r1 = rep.clone();
        res!(105, 1, g, g.get_out_edges_for_nodes(&r1));
        let r1 = rep.clone();
        res!(106, 1, g, dijkstra::multi_source(&*g, false, r1, None, None, false, true));
        let r1 = names.clone();
        res!(107, 1, g, dijkstra::multi_source(&*g, true, r1, None, None, false, true));
        let (r1, f1) = (names.clone(), *f);
        res!(108, 1, g, dijkstra::multi_source(&*g, true, r1, Some(f1), None, true, false));
        let r1 = rep.clone();
        plain!(109, 1, g, g.has_nodes(&r1));
    }
    // ---- functions with one name argument ----
    for (cls, x) in picks.iter().cloned() {
        opt!(51, cls, g, g.get_node(x)); // Option
        plain!(52, cls, g, g.has_node(&x));
        res!(53, cls, g, g.get_edges_for_node(x));
        res!(54, cls, g, g.get_in_edges_for_node(x));
        res!(55, cls, g, g.get_out_edges_for_node(x));
        res!(56, cls, g, g.get_neighbor_nodes(x));
        res!(57, cls, g, g.get_predecessor_nodes(x));
        res!(58, cls, g, g.get_predecessor_node_names(x));
        res!(59, cls, g, g.get_successor_nodes(x));
        res!(60, cls, g, g.get_successor_node_names(x));
        opt!(61, cls, g, g.get_node_degree(x));
        opt!(62, cls, g, g.get_node_in_degree(x));
        opt!(63, cls, g, g.get_node_out_degree(x));
        opt!(64, cls, g, g.get_node_weighted_degree(x));
        opt!(65, cls, g, g.get_node_weighted_in_degree(x));
        opt!(66, cls, g, g.get_node_weighted_out_degree(x));
        res!(67, cls, g, g.get_edges_for_nodes(&[x]));
        res!(68, cls, g, g.get_in_edges_for_nodes(&[x]));
        res!(69, cls, g, g.get_out_edges_for_nodes(&[x]));
        plain!(70, cls, g, g.has_nodes(&[x]));
        plain!(71, cls, g, g.get_subgraph(&[x]));
        res!(72, cls, g, components::node_connected_component(&*g, &x));
        for w in [false, true] {
            res!(73, cls, g, dijkstra::single_source(&*g, w, x, None, None, false, true));
        }
        res!(74, cls, g, dijkstra::single_source(&*g, false, x, None, Some(1.0), true, false));
        res!(75, cls, g, dijkstra::multi_source(&*g, false, vec![x], None, None, false, true));
        res!(76, cls, g, dijkstra::all_pairs(&*g, false, Some(x), None, false, true));
        if let Some(f) = names.first() {
            let f = *f;
            res!(77, cls, g, dijkstra::single_source(&*g, false, f, Some(x), None, false, true));
            res!(78, cls, g, g.get_edge(f, x));
            res!(79, cls, g, g.get_edge(x, f));
            res!(80, cls, g, g.get_edges(f, x));
            res!(81, cls, g, g.get_edges(x, f));
        }
        res!(82, cls, g, cluster::clustering(&*g, false, Some(&[x])));
        res!(83, cls, g, cluster::clustering(&*g, true, Some(&[x])));
        res!(84, cls, g, cluster::average_clustering(&*g, false, Some(&[x]), true));
        res!(85, cls, g, cluster::triangles(&*g, Some(&[x])));
        res!(86, cls, g, cluster::generalized_degree(&*g, Some(&[x])));
        if cls == 1 {
            // no error channel: only required not to panic on names that exist
            plain!(87, cls, g, g.get_successors_or_neighbors(x));
            plain!(88, cls, g, g.breadth_first_search(&x));
            plain!(89, cls, g, cluster::square_clustering(&*g, Some(&[x])));
            plain!(90, cls, g, dijkstra::get_all_shortest_paths_involving(&*g, x, false));
            plain!(91, cls, g, dijkstra::get_all_shortest_paths_involving(&*g, x, true));
        }
    }
    // further option values of the iterative / randomised algorithms
    for w in [false, true] {
        res!(97, 0, g, centrality::eigenvector::eigenvector_centrality(&*g, w, None, None));
        res!(97, 0, g, centrality::eigenvector::eigenvector_centrality(&*g, w, Some(1), Some(1e-6)));
        res!(97, 0, g, centrality::eigenvector::eigenvector_centrality(&*g, w, Some(0), Some(1e-6)));
        res!(98, 0, g, community::louvain::louvain_partitions(&*g, w, Some(2.0), Some(1e-3), Some(7)));
        res!(98, 0, g, community::louvain::louvain_communities(&*g, w, None, None, Some(2)));
        res!(99, 0, g, cluster::average_clustering(&*g, w, None, false));
    }
    if let Some(f) = names.first().cloned() {
        for w in [false, true] {
            res!(100, 1, g, dijkstra::single_source(&*g, w, f, None, Some(0.0), false, true));
            res!(100, 1, g, dijkstra::single_source(&*g, w, f, Some(f), Some(0.0), true, true));
        }
    }
    // every option combination of the shortest-path entry points (the options select different code paths)
    if let (Some(f), Some(l)) = (names.first().cloned(), names.last().cloned()) {
        for w in [false, true] {
            for fo in [false, true] {
                for wp in [false, true] {
                    for tg in [None, Some(l)] {
                        for co in [None, Some(2.0)] {
                            res!(94, 1, g, dijkstra::single_source(&*g, w, f, tg, co, fo, wp));
                            res!(95, 1, g, dijkstra::multi_source(&*g, w, vec![f, l], tg, co, fo, wp));
                        }
                    }
                    res!(96, 1, g, dijkstra::all_pairs(&*g, w, Some(l), Some(2.0), fo, wp));
                    res!(96, 1, g, dijkstra::all_pairs(&*g, w, None, Some(2.0), fo, wp));
                }
            }
        }
    }
    opt!(92, 1, g, g.get_node_by_index(&0));
    opt!(93, 2, g, g.get_node_by_index(&1000));
    o.obs(2000, &rows, &[]);
}
