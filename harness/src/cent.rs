//! Centrality family (C05 betweenness, C06 closeness, C18 eigenvector): one graph built by
//! `Graph::new_from_nodes_and_edges`, one call, the result as a sorted name -> value map.
//! Case lines: `spec d m s dd ms slf` / `nodes k n..` / `edges k {u v wflag w}..` /
//! `call bc weighted normalized withdef` | `call cc weighted wf` | `call ev weighted max_iter tolexp`
//! (max_iter < 0 and tolexp = 0 stand for `None`; tolexp = k > 0 for the literal 1e-k).
use crate::hist::{dec_w, parse_specs, Toks};
use crate::obs::*;
use graphrs::algorithms::centrality::{betweenness, closeness, eigenvector};
use graphrs::{Edge, Error, Graph, GraphSpecs, Node};
use std::collections::HashMap;
use std::sync::Arc;

type G = Graph<i64, i64>;

fn map_obs(o: &mut Out, kind: i64, m: &HashMap<i64, f64>, f: f64) {
    let mut kv: Vec<(i64, f64)> = m.iter().map(|(k, v)| (*k, *v * f)).collect();
    kv.sort_by(|a, b| a.0.cmp(&b.0));
    let rows: Vec<Vec<i64>> = kv.iter().map(|(k, _)| vec![*k]).collect();
    let fl: Vec<f64> = kv.iter().map(|(_, v)| *v).collect();
    o.obs(kind, &rows, &fl);
}

fn result_obs(o: &mut Out, kind: i64, r: &Option<Result<HashMap<i64, f64>, Error>>, f: f64) -> bool {
    o.obs(1, &[vec![res_code(r)]], &[]);
    if let Some(Ok(m)) = r {
        map_obs(o, kind, m, f);
        true
    } else {
        false
    }
}

pub fn run_case(lines: &[Vec<String>], o: &mut Out) {
    let mut specs = GraphSpecs::directed();
    let mut nodes: Vec<Arc<Node<i64, i64>>> = vec![];
    let mut edges: Vec<Arc<Edge<i64, i64>>> = vec![];
    let mut g: Option<G> = None;
    let mut readd: Vec<i64> = vec![];
    for l in lines {
        let mut t = Toks::new(l);
        match t.s() {
            "spec" => specs = parse_specs(&mut t),
            "nodes" => {
                let k = t.u();
                for _ in 0..k {
                    nodes.push(Arc::new(Node { name: t.i(), attributes: None }));
                }
            }
            "edges" => {
                let k = t.u();
                for _ in 0..k {
                    let u = t.i();
                    let v = t.i();
                    let wf = t.i();
                    let w = t.i();
                    edges.push(Arc::new(Edge { u, v, attributes: None, weight: dec_w(wf, w) }));
                }
            }
            // existing nodes re-added after the edges (add_node on an existing name only updates its attributes)
            "readd" => readd = t.rest_i(),
            "call" => {
                if g.is_none() {
                    let (ns, es, sp, ra) = (nodes.clone(), edges.clone(), specs.clone(), readd.clone());
                    let r = guard(move || {
                        G::new_from_nodes_and_edges(ns, es, sp).map(|mut h| {
                            for x in &ra {
                                h.add_node(Arc::new(Node { name: *x, attributes: Some(7) }));
                            }
                            h
                        })
                    });
                    o.obs(1, &[vec![res_code(&r)]], &[]);
                    match r {
                        Some(Ok(h)) => g = Some(h),
                        _ => return,
                    }
                }
                let gr = g.as_ref().unwrap();
                match t.s() {
                    "bc" => {
                        let (weighted, normalized, withdef) = (t.i() != 0, t.i() != 0, t.i() != 0);
                        let r = guard(|| betweenness::betweenness_centrality(gr, weighted, normalized));
                        if result_obs(o, 1050, &r, 1.0) {
                            // kinds 51/53/52 are flags computed by the model (tie independence, adjacency
                            // shape assumed by the stage theorems, model = definition); the implementation side is the constant 1
                            o.obs(51, &[vec![1]], &[]);
                            o.obs(53, &[vec![1]], &[]);
                            if withdef {
                                o.obs(52, &[vec![1]], &[]);
                            }
                        }
                    }
                    "cc" => {
                        let (weighted, wf) = (t.i() != 0, t.i() != 0);
                        let r = guard(|| closeness::closeness_centrality(gr, weighted, wf));
                        // weighted closeness is (r-1)/sum of distances: it carries 1/scale (obs::WSCALE)
                        if result_obs(o, 1060, &r, if weighted { wfactor() } else { 1.0 }) {
                            o.obs(61, &[vec![1]], &[]);
                            o.obs(62, &[vec![1]], &[]);
                            o.obs(63, &[vec![1]], &[]);
                        }
                    }
                    "ev" => {
                        let weighted = t.i() != 0;
                        let mi = t.i();
                        let te = t.i();
                        let max_iter = if mi < 0 { None } else { Some(mi as u32) };
                        let tol = if te == 0 { None } else { Some(format!("1e-{}", te).parse::<f64>().unwrap()) };
                        let r = guard(|| eigenvector::eigenvector_centrality(gr, weighted, max_iter, tol));
                        result_obs(o, 1070, &r, 1.0);
                    }
                    x => {
                        eprintln!("unknown call {}", x);
                        std::process::exit(2);
                    }
                }
            }
            x => {
                eprintln!("unknown line {}", x);
                std::process::exit(2);
            }
        }
    }
}
