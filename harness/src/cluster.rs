//! C11: clustering / triangles / transitivity / generalized_degree / square_clustering on one
//! `Graph<i64, i64>` built with `new_from_nodes_and_edges`.
//! Case lines: `spec d m s dd ms slf` / `graph <kn> nodes.. <ke> edges..` / `weighted 0|1` /
//! `sub <k> names..` (one per requested node subset; the call with `None` is always made first).
use crate::hist::{parse_edge, parse_node, parse_specs, Toks, E, G, Nd};
use crate::obs::*;
use graphrs::algorithms::cluster;
use graphrs::GraphSpecs;
use std::collections::HashMap;

fn map_f(o: &mut Out, kc: i64, km: i64, r: Option<Result<HashMap<i64, f64>, graphrs::Error>>) {
    o.obs(kc, &[vec![res_code(&r)]], &[]);
    if let Some(Ok(m)) = r {
        let mut kv: Vec<(i64, f64)> = m.into_iter().collect();
        kv.sort_by(|a, b| a.0.cmp(&b.0));
        let rows: Vec<Vec<i64>> = kv.iter().map(|p| vec![p.0]).collect();
        let fl: Vec<f64> = kv.iter().map(|p| p.1).collect();
        o.obs(km, &rows, &fl);
    }
}

fn avg(o: &mut Out, kind: i64, r: Option<Result<f64, graphrs::Error>>) {
    match &r {
        Some(Ok(v)) if v.is_nan() => o.obs(kind, &[vec![0, 1]], &[]),
        Some(Ok(v)) => o.obs(kind, &[vec![0, 0]], &[*v]),
        _ => o.obs(kind, &[vec![res_code(&r), 0]], &[]),
    }
}

fn calls(g: &G, nn: Option<&[i64]>, weighted: bool, directed: bool, o: &mut Out) {
    // triangles
    let r = guard(|| cluster::triangles(g, nn));
    o.obs(30, &[vec![res_code(&r)]], &[]);
    if let Some(Ok(m)) = r {
        let rows: Vec<Vec<i64>> = m.into_iter().map(|(k, v)| vec![k, v as i64]).collect();
        o.obs(1031, &rows, &[]);
    }
    // clustering, unweighted
    map_f(o, 32, 1033, guard(|| cluster::clustering(g, false, nn)));
    avg(o, 34, guard(|| cluster::average_clustering(g, false, nn, true)));
    avg(o, 35, guard(|| cluster::average_clustering(g, false, nn, false)));
    // generalized degree
    let r = guard(|| cluster::generalized_degree(g, nn));
    o.obs(38, &[vec![res_code(&r)]], &[]);
    if let Some(Ok(m)) = r {
        let mut rows: Vec<Vec<i64>> = vec![];
        for (k, h) in m {
            rows.push(vec![k, -1, 0]);
            for (t, c) in h {
                rows.push(vec![k, t as i64, c as i64]);
            }
        }
        o.obs(1039, &rows, &[]);
    }
    // square clustering: plain HashMap, no error channel
    // (on a directed graph the value depends on the iteration order of the successor
    // HashSet - `u_nbrs.contains(w)` is not symmetric - and the property does not fix it:
    // only the key set is printed there)
    let r = guard(|| cluster::square_clustering(g, nn));
    match r {
        None => o.obs(40, &[vec![PANIC]], &[]),
        Some(m) if directed => {
            o.obs(40, &[vec![0]], &[]);
            let rows: Vec<Vec<i64>> = m.keys().map(|k| vec![*k]).collect();
            o.obs(1041, &rows, &[]);
        }
        Some(m) => map_f(o, 40, 1041, Some(Ok(m))),
    }
    if weighted {
        map_f(o, 42, 1043, guard(|| cluster::clustering(g, true, nn)));
        avg(o, 44, guard(|| cluster::average_clustering(g, true, nn, true)));
        avg(o, 45, guard(|| cluster::average_clustering(g, true, nn, false)));
    }
}

pub fn run_case(lines: &[Vec<String>], o: &mut Out) {
    let mut specs = GraphSpecs::directed();
    let mut ns: Vec<Nd> = vec![];
    let mut es: Vec<E> = vec![];
    let mut weighted = false;
    let mut subs: Vec<Vec<i64>> = vec![];
    let mut readd: Vec<i64> = vec![];
    for l in lines {
        let mut t = Toks::new(l);
        match t.s() {
            "spec" => specs = parse_specs(&mut t),
            "graph" => {
                let kn = t.u();
                ns = (0..kn).map(|_| parse_node(&mut t)).collect();
                let ke = t.u();
                es = (0..ke).map(|_| parse_edge(&mut t)).collect();
            }
            "weighted" => weighted = t.i() != 0,
            "readd" => readd = t.rest_i(),
            "sub" => {
                let k = t.u();
                subs.push((0..k).map(|_| t.i()).collect());
            }
            x => {
                eprintln!("cluster: unknown line {}", x);
                std::process::exit(2);
            }
        }
    }
    // build, then re-add the listed nodes (only those that exist): add_node on an existing name only updates its attributes
    let r = guard(|| {
        G::new_from_nodes_and_edges(ns, es, specs.clone()).map(|mut g| {
            for x in &readd {
                if g.has_node(x) {
                    g.add_node(std::sync::Arc::new(graphrs::Node { name: *x, attributes: Some(7) }));
                }
            }
            g
        })
    });
    o.obs(1, &[vec![res_code(&r)]], &[]);
    let g: G = match r {
        Some(Ok(g)) => g,
        _ => return,
    };
    let names: Vec<i64> = g.get_all_node_names().into_iter().cloned().collect();
    o.obs(2, &[names], &[]);
    // transitivity (whole graph only)
    let r = guard(|| cluster::transitivity(&g));
    match &r {
        Some(Ok(v)) => o.obs(36, &[vec![0]], &[*v]),
        _ => o.obs(36, &[vec![res_code(&r)]], &[]),
    }
    o.obs(29, &[vec![-1]], &[]);
    calls(&g, None, weighted, specs.directed, o);
    for (i, s) in subs.iter().enumerate() {
        o.obs(29, &[vec![i as i64]], &[]);
        calls(&g, Some(s.as_slice()), weighted, specs.directed, o);
    }
    // kind 49: the model evaluates "model = brute-force definition" on every case; constant here
    o.obs(49, &[vec![1]], &[]);
}
