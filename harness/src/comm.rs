//! Community functions on `Graph<i64, i64>` (C12 modularity / is_partition, C13 Louvain,
//! C17 reproducibility of the seeded functions).
//!
//! Case lines (after `case <id>`):
//!   spec d m s dd ms slf
//!   node name af a                      (repeated)
//!   edge u v wf w af a                  (repeated; wf 0 NaN, 1 integer w, 2 bits of a binary64)
//!   mod  weighted gnum gden k {len x..}*         is_partition + modularity of a family of k sets
//!   louv weighted gnum gden thr seed             louvain_partitions + louvain_communities
//!   repro louv weighted gnum gden thr seed       the same call 20x in process and under pools 1/4/16
//!   repro gnp n pnum pden directed seed          fast_gnp_random_graph, likewise
//! gden = 0 stands for `resolution = None`; thr 0/1/2/3 = Some(0.0)/Some(1e-7)/Some(0.1)/None;
//! seed -1 = None.
use crate::hist::{edge_row, node_row, parse_edge, parse_node, parse_specs, Toks, G};
use crate::obs::*;
use graphrs::algorithms::community::{louvain, partitions};
use graphrs::{generators, Graph};
use rand::prelude::*;
use rand::seq::SliceRandom;
use std::collections::HashSet;
use std::sync::atomic::{AtomicUsize, Ordering};
use std::sync::Arc;

static HANGS: AtomicUsize = AtomicUsize::new(0);
const MAX_HANGS: usize = 6;
const WATCHDOG_MS: u64 = 2000;
/// code printed instead of a call that was not made because the process already has
/// MAX_HANGS abandoned spinning threads (the oracle treats it as a failure, never as a pass)
const SKIPPED: i64 = 102;

type Levels = Vec<Vec<Vec<i64>>>;

fn canon_level(l: &[HashSet<i64>]) -> Vec<Vec<i64>> {
    let mut rows: Vec<Vec<i64>> = l
        .iter()
        .map(|hs| {
            let mut v: Vec<i64> = hs.iter().copied().collect();
            v.sort();
            v
        })
        .collect();
    rows.sort();
    rows
}

fn resolution(gnum: i64, gden: i64) -> Option<f64> {
    if gden == 0 {
        None
    } else {
        Some(gnum as f64 / gden as f64)
    }
}
fn threshold(code: i64) -> Option<f64> {
    match code {
        0 => Some(0.0),
        1 => Some(0.0000001),
        2 => Some(0.1),
        _ => None,
    }
}
fn seed_of(s: i64) -> Option<u64> {
    if s < 0 {
        None
    } else {
        Some(s as u64)
    }
}

/// the visiting orders Louvain derives from `seed`: louvain.rs shuffles the node list of the
/// current level's graph with a fresh `StdRng::seed_from_u64(seed)`, so the order is a function
/// of (seed, number of nodes of that level).  Row k-1 = shuffled positions 0..k.
fn shuffle_table(seed: u64, n: usize) -> Vec<Vec<i64>> {
    (1..=n)
        .map(|k| {
            let mut rng = StdRng::seed_from_u64(seed);
            let mut v: Vec<i64> = (0..k as i64).collect();
            v.shuffle(&mut rng);
            v
        })
        .collect()
}

fn hung() -> bool {
    HANGS.load(Ordering::SeqCst) >= MAX_HANGS
}

/// Some(Some(r)) returned, Some(None) panicked, None hung or skipped (code says which)
fn timed<R: Send + 'static, F: FnOnce() -> R + Send + 'static>(f: F) -> (Option<R>, i64) {
    if hung() {
        return (None, SKIPPED);
    }
    match guard_t(WATCHDOG_MS, f) {
        None => {
            HANGS.fetch_add(1, Ordering::SeqCst);
            (None, HANG)
        }
        Some(None) => (None, PANIC),
        Some(Some(r)) => (Some(r), 0),
    }
}

fn call_partitions(g: &Arc<G>, weighted: bool, res: Option<f64>, thr: Option<f64>, seed: Option<u64>) -> (Option<Levels>, i64) {
    let g2 = g.clone();
    let (r, code) = timed(move || louvain::louvain_partitions(&*g2, weighted, res, thr, seed));
    match r {
        None => (None, code),
        Some(Err(e)) => (None, kind_code(&e.kind)),
        Some(Ok(ls)) => (Some(ls.iter().map(|l| canon_level(l)).collect()), 0),
    }
}

fn call_communities(g: &Arc<G>, weighted: bool, res: Option<f64>, thr: Option<f64>, seed: Option<u64>) -> (Option<Vec<Vec<i64>>>, i64) {
    let g2 = g.clone();
    let (r, code) = timed(move || louvain::louvain_communities(&*g2, weighted, res, thr, seed));
    match r {
        None => (None, code),
        Some(Err(e)) => (None, kind_code(&e.kind)),
        Some(Ok(l)) => (Some(canon_level(&l)), 0),
    }
}

fn print_levels(o: &mut Out, levels: &Levels) {
    o.obs(71, &[vec![levels.len() as i64]], &[]);
    for l in levels {
        o.obs(1300, l, &[]);
    }
}

fn do_mod(g: &G, t: &mut Toks, o: &mut Out) {
    let weighted = t.i() != 0;
    let gnum = t.i();
    let gden = t.i();
    let k = t.u();
    let mut comms: Vec<HashSet<i64>> = vec![];
    for _ in 0..k {
        let len = t.u();
        let mut hs = HashSet::new();
        for _ in 0..len {
            hs.insert(t.i());
        }
        comms.push(hs);
    }
    match guard(|| partitions::is_partition(g, &comms)) {
        None => o.obs(1, &[vec![PANIC]], &[]),
        Some(b) => o.obs(200, &[vec![b as i64]], &[]),
    }
    let r = guard(|| partitions::modularity(g, &comms, weighted, resolution(gnum, gden)));
    o.obs(1, &[vec![res_code(&r)]], &[]);
    if let Some(Ok(v)) = r {
        if v.is_nan() {
            o.obs(201, &[vec![0]], &[]);
        } else {
            o.obs(201, &[vec![1]], &[v]);
        }
    }
    // the model prints here whether its list-level computations (the ones the theorems are
    // about) agree with its own state-level transcription; the expected verdict is 1
    o.obs(210, &[vec![1]], &[]);
}

fn level_modularities(g: &G, levels: &Levels, weighted: bool, res: Option<f64>, o: &mut Out) {
    let mut rows = vec![];
    let mut vals = vec![];
    for l in levels {
        let comms: Vec<HashSet<i64>> = l.iter().map(|c| c.iter().copied().collect()).collect();
        match guard(|| partitions::modularity(g, &comms, weighted, res)) {
            Some(Ok(v)) if !v.is_nan() => {
                rows.push(vec![1]);
                vals.push(v);
            }
            Some(Ok(_)) => rows.push(vec![0]),
            Some(Err(e)) => rows.push(vec![2, kind_code(&e.kind)]),
            None => rows.push(vec![2, PANIC]),
        }
    }
    o.obs(72, &rows, &vals);
    // verdicts of the verified checker `check_levels` and of the exact monotonicity check,
    // evaluated by the model on its own output; the expected verdicts are 1
    o.obs(74, &[vec![1]], &[]);
    o.obs(75, &[vec![1]], &[]);
    // and: the model's generate_graph produced exactly the list-level aggregation of its edges
    o.obs(76, &[vec![1]], &[]);
    // and: the bookkeeping invariants (node2com / inner_partition / Stot = degree sums on the edge
    // multiset) hold at the end of the model's first local-moving phase
    o.obs(77, &[vec![1]], &[]);
}

fn do_louv(g: &Arc<G>, t: &mut Toks, o: &mut Out) {
    let weighted = t.i() != 0;
    let gnum = t.i();
    let gden = t.i();
    let thr = threshold(t.i());
    let seed = seed_of(t.i());
    let res = resolution(gnum, gden);
    if let Some(s) = seed {
        o.obs(70, &shuffle_table(s, g.get_all_nodes().len()), &[]);
    }
    let (levels, code) = call_partitions(g, weighted, res, thr, seed);
    o.obs(1, &[vec![code]], &[]);
    if let Some(ls) = &levels {
        print_levels(o, ls);
        level_modularities(g, ls, weighted, res, o);
    }
    let (comm, code2) = call_communities(g, weighted, res, thr, seed);
    o.obs(1, &[vec![code2]], &[]);
    if let Some(c) = &comm {
        o.obs(1301, c, &[]);
    }
    // end of the call; the model reports here whether its run met an exact tie
    o.obs(73, &[vec![0]], &[]);
}

fn in_pool<R: Send, F: FnOnce() -> R + Send>(threads: usize, f: F) -> R {
    rayon::ThreadPoolBuilder::new()
        .num_threads(threads)
        .build()
        .expect("pool")
        .install(f)
}

const REPEAT: usize = 20;
const POOLS: [usize; 3] = [1, 4, 16];

/// the input graph built afresh (its hash maps get new keys, so their iteration order changes)
fn rebuild(src: &Source) -> Arc<G> {
    Arc::new(Graph::new_from_nodes_and_edges(src.0.clone(), src.1.clone(), src.2.clone()).expect("rebuild"))
}

type Source = (Vec<crate::hist::Nd>, Vec<crate::hist::E>, graphrs::GraphSpecs);

fn do_repro_louv(g: &Arc<G>, src: &Source, t: &mut Toks, o: &mut Out) {
    let weighted = t.i() != 0;
    let gnum = t.i();
    let gden = t.i();
    let thr = threshold(t.i());
    let seed = seed_of(t.i());
    let res = resolution(gnum, gden);
    if let Some(s) = seed {
        o.obs(70, &shuffle_table(s, g.get_all_nodes().len()), &[]);
    }
    let mut outs_p: Vec<(Option<Levels>, i64)> = vec![];
    let mut outs_c: Vec<(Option<Vec<Vec<i64>>>, i64)> = vec![];
    // a call that does not return is reported once; repeating it would only add spinning threads
    let stuck = |p: &(Option<Levels>, i64), c: &(Option<Vec<Vec<i64>>>, i64)| {
        p.1 == HANG || p.1 == SKIPPED || c.1 == HANG || c.1 == SKIPPED
    };
    // every repetition gets a freshly built input graph (freshly keyed hash tables)
    let mut graphs: Vec<Arc<G>> = vec![g.clone()];
    for i in 0..REPEAT {
        let gi = if i == 0 { g.clone() } else { rebuild(src) };
        outs_p.push(call_partitions(&gi, weighted, res, thr, seed));
        outs_c.push(call_communities(&gi, weighted, res, thr, seed));
        graphs.push(gi);
        if stuck(outs_p.last().unwrap(), outs_c.last().unwrap()) {
            break;
        }
    }
    if !stuck(outs_p.last().unwrap(), outs_c.last().unwrap()) {
        for k in POOLS {
            let g2 = rebuild(src);
            outs_p.push(in_pool(k, move || call_partitions(&g2, weighted, res, thr, seed)));
            let g3 = rebuild(src);
            outs_c.push(in_pool(k, move || call_communities(&g3, weighted, res, thr, seed)));
        }
    }
    // a non-randomised function on the same inputs: modularity of the first result's last level on
    // every rebuilt graph; equal up to floating-point rounding of sums
    if let (Some(ls), _) = &outs_p[0] {
        if let Some(last) = ls.last() {
            let comms: Vec<HashSet<i64>> = last.iter().map(|c| c.iter().copied().collect()).collect();
            let vals: Vec<f64> = graphs
                .iter()
                .filter_map(|gi| guard(|| partitions::modularity(&**gi, &comms, weighted, res)))
                .filter_map(|r| r.ok())
                .collect();
            let lo = vals.iter().cloned().fold(f64::INFINITY, f64::min);
            let hi = vals.iter().cloned().fold(f64::NEG_INFINITY, f64::max);
            let all_nan = vals.iter().all(|v| v.is_nan());
            let close = all_nan || (hi - lo).abs() <= 1e-9 * hi.abs().max(1.0);
            o.obs(83, &[vec![close as i64, vals.len() as i64, graphs.len() as i64]], &[]);
        }
    }
    let mut dp = outs_p.clone();
    dp.sort();
    dp.dedup();
    let mut dc = outs_c.clone();
    dc.sort();
    dc.dedup();
    o.obs(80, &[vec![dp.len() as i64, dc.len() as i64, outs_p.len() as i64]], &[]);
    let (levels, code) = &outs_p[0];
    o.obs(1, &[vec![*code]], &[]);
    if let Some(ls) = levels {
        print_levels(o, ls);
        level_modularities(g, ls, weighted, res, o);
    }
    let (comm, code2) = &outs_c[0];
    o.obs(1, &[vec![*code2]], &[]);
    if let Some(c) = comm {
        o.obs(1301, c, &[]);
    }
    o.obs(73, &[vec![0]], &[]);
}

/// non-randomised algorithms: closeness and betweenness of freshly rebuilt copies of the graph, in process and
/// under pools of 1 / 4 / 16 threads, must agree up to floating-point rounding of sums (1e-9 relative)
fn do_repro_cent(src: &Source, t: &mut Toks, o: &mut Out) {
    use graphrs::algorithms::centrality::{betweenness, closeness};
    let weighted = t.i() != 0;
    let run = |g: &G| -> Option<(Vec<(i64, f64)>, Vec<(i64, f64)>)> {
        let c = guard(|| closeness::closeness_centrality(g, weighted, true))?.ok()?;
        let b = guard(|| betweenness::betweenness_centrality(g, weighted, true))?.ok()?;
        let mut cv: Vec<(i64, f64)> = c.into_iter().collect();
        let mut bv: Vec<(i64, f64)> = b.into_iter().collect();
        cv.sort_by(|x, y| x.0.cmp(&y.0));
        bv.sort_by(|x, y| x.0.cmp(&y.0));
        Some((cv, bv))
    };
    let mut outs = vec![];
    for _ in 0..3 {
        let g = rebuild(src);
        outs.push(run(&g));
    }
    for k in POOLS {
        let g = rebuild(src);
        outs.push(in_pool(k, move || run(&g)));
    }
    let close = |a: &Vec<(i64, f64)>, b: &Vec<(i64, f64)>| {
        a.len() == b.len()
            && a.iter().zip(b.iter()).all(|(x, y)| x.0 == y.0 && (x.1 - y.1).abs() <= 1e-9 * x.1.abs().max(y.1.abs()).max(1e-300))
    };
    let ok_all = outs.iter().all(|x| x.is_some());
    let (mut same_c, mut same_b) = (true, true);
    if let Some(Some(first)) = outs.first() {
        for x in outs.iter().flatten() {
            same_c &= close(&first.0, &x.0);
            same_b &= close(&first.1, &x.1);
        }
    }
    o.obs(84, &[vec![ok_all as i64, same_c as i64, same_b as i64, outs.len() as i64]], &[]);
    o.obs(73, &[vec![0]], &[]);
}

/// one canonicalised answer: (function tag, integer content, float content)
type Item = (i64, Vec<i64>, Vec<f64>);

pub const ALL_TAGS: [&str; 27] = [
    "square_clustering", "bfs_equal_size_partitions(1)", "bfs_equal_size_partitions(2)", "bfs_equal_size_partitions(3)",
    "bfs_equal_size_partitions(4)", "clustering(unweighted)", "clustering(weighted)", "average_clustering", "transitivity",
    "triangles", "generalized_degree", "connected_components", "weakly_connected_components",
    "strongly_connected_components", "eigenvector_centrality", "degree_centrality", "dijkstra::all_pairs",
    "modularity(components)", "breadth_first_search", "closeness_centrality", "betweenness_centrality",
    "node_connected_component", "dijkstra::all_pairs(target)", "dijkstra::multi_source(all paths)",
    "dijkstra::multi_source(first_only, distances)", "get_subgraph(every other name): node order",
    "louvain_communities(seed 1) of that subgraph",
];

fn all_algorithms(g: &G, weighted: bool) -> Vec<Item> {
    use graphrs::algorithms::centrality::{betweenness, closeness, degree, eigenvector};
    use graphrs::algorithms::shortest_path::dijkstra;
    use graphrs::algorithms::{cluster, components};
    use std::collections::HashMap;
    let mut out: Vec<Item> = vec![];
    fn fmap(tag: i64, r: Option<Result<HashMap<i64, f64>, graphrs::Error>>) -> Item {
        match r {
            None => (tag, vec![PANIC], vec![]),
            Some(Err(e)) => (tag, vec![-kind_code(&e.kind)], vec![]),
            Some(Ok(m)) => {
                let mut v: Vec<(i64, f64)> = m.into_iter().collect();
                v.sort_by(|a, b| a.0.cmp(&b.0));
                (tag, v.iter().map(|x| x.0).collect(), v.iter().map(|x| x.1).collect())
            }
        }
    }
    fn fval(tag: i64, r: Option<Result<f64, graphrs::Error>>) -> Item {
        match r {
            None => (tag, vec![PANIC], vec![]),
            Some(Err(e)) => (tag, vec![-kind_code(&e.kind)], vec![]),
            Some(Ok(x)) => (tag, vec![0], vec![x]),
        }
    }
    fn sets(tag: i64, r: Option<Result<Vec<HashSet<i64>>, graphrs::Error>>) -> (Item, Vec<HashSet<i64>>) {
        match r {
            None => ((tag, vec![PANIC], vec![]), vec![]),
            Some(Err(e)) => ((tag, vec![-kind_code(&e.kind)], vec![]), vec![]),
            Some(Ok(cs)) => {
                let mut v: Vec<Vec<i64>> = cs.iter().map(|c| { let mut x: Vec<i64> = c.iter().cloned().collect(); x.sort(); x }).collect();
                v.sort();
                let mut flat = vec![];
                for c in v { flat.extend(c); flat.push(-1); }
                ((tag, flat, vec![]), cs)
            }
        }
    }
    out.push(fmap(0, guard(|| Ok(cluster::square_clustering(g, None)))));
    for k in 1..=4usize {
        let r = guard(|| components::bfs_equal_size_partitions(g, k));
        out.push(match r {
            None => (k as i64, vec![PANIC], vec![]),
            Some(ps) => {
                // as sets of sets (the order inside a partition and of the partitions is not part of the answer)
                let mut v: Vec<Vec<i64>> = ps.into_iter().map(|mut p| { p.sort(); p }).collect();
                v.sort();
                let mut flat = vec![];
                for p in v { flat.extend(p); flat.push(-1); }
                (k as i64, flat, vec![])
            }
        });
    }
    out.push(fmap(5, guard(|| cluster::clustering(g, false, None))));
    out.push(fmap(6, guard(|| cluster::clustering(g, weighted, None))));
    out.push(fval(7, guard(|| cluster::average_clustering(g, weighted, None, true))));
    out.push(fval(8, guard(|| cluster::transitivity(g))));
    out.push(match guard(|| cluster::triangles(g, None)) {
        None => (9, vec![PANIC], vec![]),
        Some(Err(e)) => (9, vec![-kind_code(&e.kind)], vec![]),
        Some(Ok(m)) => {
            let mut v: Vec<(i64, i64)> = m.into_iter().map(|(k, x)| (k, x as i64)).collect();
            v.sort();
            (9, v.iter().flat_map(|x| vec![x.0, x.1]).collect(), vec![])
        }
    });
    out.push(match guard(|| cluster::generalized_degree(g, None)) {
        None => (10, vec![PANIC], vec![]),
        Some(Err(e)) => (10, vec![-kind_code(&e.kind)], vec![]),
        Some(Ok(m)) => {
            let mut v: Vec<(i64, i64, i64)> = vec![];
            for (k, mm) in m { for (a, b) in mm { v.push((k, a as i64, b as i64)); } }
            v.sort();
            (10, v.iter().flat_map(|x| vec![x.0, x.1, x.2]).collect(), vec![])
        }
    });
    let (it, comps) = sets(11, guard(|| components::connected_components(g)));
    out.push(it);
    let (it, wcomps) = sets(12, guard(|| components::weakly_connected_components(g)));
    out.push(it);
    out.push(sets(13, guard(|| components::strongly_connected_components(g))).0);
    // eigenvector: the power iteration stops at a tolerance, so only agreement far above it is asked for
    out.push(fmap(14, guard(|| eigenvector::eigenvector_centrality(g, weighted, None, None))));
    out.push(fmap(15, guard(|| Ok(degree::degree_centrality(g)))));
    out.push(match guard(|| dijkstra::all_pairs(g, weighted, None, None, false, true)) {
        None => (16, vec![PANIC], vec![]),
        Some(Err(e)) => (16, vec![-kind_code(&e.kind)], vec![]),
        Some(Ok(m)) => {
            let mut v: Vec<(i64, i64, f64, Vec<Vec<i64>>)> = vec![];
            for (s0, mm) in m { for (t0, i) in mm { let mut ps = i.paths.clone(); ps.sort(); v.push((s0, t0, i.distance, ps)); } }
            v.sort_by(|a, b| (a.0, a.1).cmp(&(b.0, b.1)));
            let mut ints = vec![];
            let mut fl = vec![];
            for (s0, t0, d, ps) in v {
                ints.push(s0); ints.push(t0); fl.push(d);
                for p in ps { ints.extend(p); ints.push(-1); }
                ints.push(-2);
            }
            (16, ints, fl)
        }
    });
    let parts = if comps.is_empty() { wcomps } else { comps };
    out.push(fval(17, guard(|| partitions::modularity(g, &parts, weighted, None))));
    if let Some(n0) = g.get_all_nodes().iter().map(|n| n.name).min() {
        out.push(match guard(|| g.breadth_first_search(&n0)) {
            None => (18, vec![PANIC], vec![]),
            // the reachable set (the order inside one level follows hash iteration in the unchanged code)
            Some(mut v) => { v.sort(); (18, v, vec![]) }
        });
        out.push(match guard(|| components::node_connected_component(g, &n0)) {
            None => (21, vec![PANIC], vec![]),
            Some(Err(e)) => (21, vec![-kind_code(&e.kind)], vec![]),
            Some(Ok(c)) => { let mut x: Vec<i64> = c.into_iter().collect(); x.sort(); (21, x, vec![]) }
        });
    }
    // the other shortest-path entry points: a search that stops at a target, then searches from other sources on
    // the same thread; multi_source with first_only != with_paths (serial and rayon arm must read the flags alike)
    type Pairs = HashMap<i64, HashMap<i64, graphrs::algorithms::shortest_path::ShortestPathInfo<i64>>>;
    fn pairs(tag: i64, r: Option<Result<Pairs, graphrs::Error>>) -> Item {
        match r {
            None => (tag, vec![PANIC], vec![]),
            Some(Err(e)) => (tag, vec![-kind_code(&e.kind)], vec![]),
            Some(Ok(m)) => {
                let mut v: Vec<(i64, i64, f64, Vec<Vec<i64>>)> = vec![];
                for (s0, mm) in m { for (t0, i) in mm { let mut ps = i.paths.clone(); ps.sort(); v.push((s0, t0, i.distance, ps)); } }
                v.sort_by(|a, b| (a.0, a.1).cmp(&(b.0, b.1)));
                let (mut ints, mut fl) = (vec![], vec![]);
                for (s0, t0, d, ps) in v {
                    ints.push(s0); ints.push(t0); fl.push(d);
                    for p in ps { ints.extend(p); ints.push(-1); }
                    ints.push(-2);
                }
                (tag, ints, fl)
            }
        }
    }
    let mut all: Vec<i64> = g.get_all_nodes().iter().map(|n| n.name).collect();
    all.sort();
    if let Some(t0) = all.last().cloned() {
        out.push(pairs(22, guard(|| dijkstra::all_pairs(g, weighted, Some(t0), None, false, true))));
        let srcs = all.clone();
        out.push(pairs(23, guard(|| dijkstra::multi_source(g, weighted, srcs, None, None, false, true))));
        let srcs = all.clone();
        out.push(pairs(24, guard(|| dijkstra::multi_source(g, weighted, srcs, Some(t0), None, true, false))));
    }
    // a derived graph and a seeded run on it: the subgraph keeps the source's node order (C15), so the seeded
    // Louvain result on it is a function of the arguments too
    {
        let pick: Vec<i64> = all.iter().step_by(2).cloned().collect();
        match guard(|| g.get_subgraph(&pick)) {
            None => out.push((25, vec![PANIC], vec![])),
            Some(h) => {
                out.push((25, h.get_all_nodes().iter().map(|n| n.name).collect(), vec![]));
                out.push(sets(26, guard(|| louvain::louvain_communities(&h, weighted, None, None, Some(1)))).0);
            }
        }
    }
    out.push(fmap(19, guard(|| closeness::closeness_centrality(g, weighted, true))));
    out.push(fmap(20, guard(|| betweenness::betweenness_centrality(g, weighted, true))));
    out
}

/// "All non-randomised algorithms return the same answer for the same graph on every call, up to floating-point
/// rounding of sums": every algorithm of the library, three times on one graph value, on four freshly rebuilt
/// copies (freshly keyed hash tables) and under pools of 1 / 4 / 16 threads. Integer content must be identical,
/// float content equal to 1e-9 relative (eigenvector: 1e-4 absolute, it stops at a tolerance). The integer content
/// of the first run is printed so that fresh processes are compared as well.
fn do_repro_all(src: &Source, t: &mut Toks, o: &mut Out) {
    let weighted = t.i() != 0;
    let mut outs: Vec<Vec<Item>> = vec![];
    let g0 = rebuild(src);
    for _ in 0..3 {
        outs.push(all_algorithms(&g0, weighted));
    }
    for _ in 0..4 {
        let g = rebuild(src);
        outs.push(all_algorithms(&g, weighted));
    }
    for k in POOLS {
        let g = rebuild(src);
        outs.push(in_pool(k, move || all_algorithms(&g, weighted)));
    }
    {
        // a thread that has never run anything of the library (fresh thread-local state)
        let g = rebuild(src);
        if let Ok(r) = std::thread::Builder::new().stack_size(64 << 20).spawn(move || all_algorithms(&g, weighted)).expect("spawn").join() {
            outs.push(r);
        }
    }
    let closef = |tag: i64, a: f64, b: f64| {
        (a.is_nan() && b.is_nan())
            || a == b
            || if tag == 14 { (a - b).abs() <= 1e-4 } else { (a - b).abs() <= 1e-9 * a.abs().max(b.abs()) }
    };
    let first = outs[0].clone();
    let mut differing: Vec<i64> = vec![];
    for x in outs.iter().skip(1) {
        if x.len() != first.len() {
            differing.push(-1);
            continue;
        }
        for (a, b) in first.iter().zip(x.iter()) {
            let same = a.0 == b.0 && a.1 == b.1 && a.2.len() == b.2.len() && a.2.iter().zip(b.2.iter()).all(|(p, q)| closef(a.0, *p, *q));
            if !same && !differing.contains(&a.0) {
                differing.push(a.0);
            }
        }
    }
    differing.sort();
    o.obs(85, &[vec![outs.len() as i64, first.len() as i64, differing.len() as i64], differing], &[]);
    // the float-free answers themselves: identical in every process
    let rows: Vec<Vec<i64>> = first.iter().filter(|i| i.2.is_empty()).map(|i| { let mut r = vec![i.0]; r.extend(i.1.iter()); r }).collect();
    o.obs(86, &rows, &[]);
    o.obs(73, &[vec![0]], &[]);
}

type GnpOut = (i64, Vec<i64>, Vec<Vec<i64>>);

fn call_gnp(n: i32, p: f64, directed: bool, seed: Option<u64>) -> GnpOut {
    match guard(|| generators::random::fast_gnp_random_graph(n, p, directed, seed)) {
        None => (PANIC, vec![], vec![]),
        Some(Err(e)) => (kind_code(&e.kind), vec![], vec![]),
        Some(Ok(gr)) => {
            let gr: Graph<i32, ()> = gr;
            let nodes: Vec<i64> = gr.get_all_nodes().iter().map(|n| n.name as i64).collect();
            let mut edges: Vec<Vec<i64>> = gr
                .get_all_edges()
                .iter()
                .map(|e| vec![e.u as i64, e.v as i64])
                .collect();
            edges.sort();
            (0, nodes, edges)
        }
    }
}

fn do_repro_gnp(t: &mut Toks, o: &mut Out) {
    let n = t.i() as i32;
    let pnum = t.i();
    let pden = t.i();
    let directed = t.i() != 0;
    let seed = seed_of(t.i());
    let p = pnum as f64 / pden as f64;
    let mut outs: Vec<GnpOut> = vec![];
    for _ in 0..REPEAT {
        outs.push(call_gnp(n, p, directed, seed));
    }
    for k in POOLS {
        outs.push(in_pool(k, move || call_gnp(n, p, directed, seed)));
    }
    let mut d = outs.clone();
    d.sort();
    d.dedup();
    o.obs(81, &[vec![d.len() as i64, outs.len() as i64]], &[]);
    let (code, nodes, edges) = &outs[0];
    o.obs(1, &[vec![*code]], &[]);
    if *code == 0 {
        let rows: Vec<Vec<i64>> = nodes.iter().map(|x| vec![*x]).collect();
        o.obs(82, &rows, &[]);
        o.obs(1083, edges, &[]);
    }
    o.obs(73, &[vec![0]], &[]);
}

pub fn run_case(lines: &[Vec<String>], o: &mut Out) {
    let mut specs = None;
    let mut nodes = vec![];
    let mut edges = vec![];
    let mut calls: Vec<&Vec<String>> = vec![];
    for l in lines {
        let mut t = Toks::new(&l[1..]);
        match l[0].as_str() {
            "spec" => specs = Some(parse_specs(&mut t)),
            "node" => nodes.push(parse_node(&mut t)),
            "edge" => edges.push(parse_edge(&mut t)),
            _ => calls.push(l),
        }
    }
    let mut source: Option<Source> = None;
    let graph: Option<Arc<G>> = match specs {
        None => None,
        Some(sp) => {
            source = Some((nodes.clone(), edges.clone(), sp.clone()));
            // equal edges of the list are handed over as clones of ONE Arc (hist::share_equal)
            let edges = crate::hist::share_equal(edges);
            let r = guard(|| Graph::new_from_nodes_and_edges(nodes, edges, sp));
            o.obs(1, &[vec![res_code(&r)]], &[]);
            match r {
                Some(Ok(g)) => {
                    let rows: Vec<Vec<i64>> = g.get_all_nodes().iter().map(|n| node_row(n)).collect();
                    o.obs(2, &rows, &[]);
                    let rows: Vec<Vec<i64>> = g.get_all_edges().iter().map(|e| edge_row(e)).collect();
                    o.obs(1003, &rows, &[]);
                    Some(Arc::new(g))
                }
                _ => None,
            }
        }
    };
    for l in calls {
        let mut t = Toks::new(&l[1..]);
        match (l[0].as_str(), &graph) {
            ("mod", Some(g)) => do_mod(g, &mut t, o),
            ("louv", Some(g)) => do_louv(g, &mut t, o),
            ("repro", _) => match (t.s(), &graph) {
                ("louv", Some(g)) => do_repro_louv(g, source.as_ref().unwrap(), &mut t, o),
                ("gnp", _) => do_repro_gnp(&mut t, o),
                ("cent", Some(_)) => do_repro_cent(source.as_ref().unwrap(), &mut t, o),
                ("all", Some(_)) => do_repro_all(source.as_ref().unwrap(), &mut t, o),
                _ => {}
            },
            _ => {}
        }
    }
}
