//! C10: component functions, breadth_first_search and bfs_equal_size_partitions on one
//! `Graph<i64, i64>` built with `new_from_nodes_and_edges`.
//! Case lines: `spec d m s dd ms slf` / `graph <kn> nodes.. <ke> edges..` / `absent <name>`.
//! Every call runs on its own thread under a wall-clock limit (HANG = 101).
use crate::hist::{parse_edge, parse_node, parse_specs, Toks, E, G, Nd};
use crate::obs::*;
use graphrs::algorithms::components;
use graphrs::GraphSpecs;
use std::collections::HashSet;
use std::sync::Arc;

const LIMIT_MS: u64 = 4000;

fn code_t<X>(r: &Option<Option<Result<X, graphrs::Error>>>) -> i64 {
    match r {
        None => HANG,
        Some(None) => PANIC,
        Some(Some(Ok(_))) => 0,
        Some(Some(Err(e))) => kind_code(&e.kind),
    }
}

fn sorted_set(s: &HashSet<i64>) -> Vec<i64> {
    let mut v: Vec<i64> = s.iter().cloned().collect();
    v.sort();
    v
}

fn comps_obs(o: &mut Out, kc: i64, ks: i64, r: Option<Option<Result<Vec<HashSet<i64>>, graphrs::Error>>>) {
    o.obs(kc, &[vec![code_t(&r)]], &[]);
    if let Some(Some(Ok(cs))) = r {
        let rows: Vec<Vec<i64>> = cs.iter().map(sorted_set).collect();
        o.obs(ks, &rows, &[]);
    }
}

pub fn run_case(lines: &[Vec<String>], o: &mut Out) {
    let mut specs = GraphSpecs::directed();
    let mut ns: Vec<Nd> = vec![];
    let mut es: Vec<E> = vec![];
    let mut absent: i64 = -1;
    let mut readd: Vec<i64> = vec![];
    for l in lines {
        let mut t = Toks::new(l);
        match t.s() {
            "spec" => specs = parse_specs(&mut t),
            "graph" => {
                let kn = t.u();
                ns = (0..kn).map(|_| parse_node(&mut t)).collect();
                let ke = t.u();
                es = (0..ke).map(|_| parse_edge(&mut t)).collect();
            }
            "absent" => absent = t.i(),
            "readd" => readd = t.rest_i(),
            x => {
                eprintln!("comp: unknown line {}", x);
                std::process::exit(2);
            }
        }
    }
    // build, then re-add the listed (existing) nodes: add_node on an existing name only updates its attributes
    let r = guard(|| {
        G::new_from_nodes_and_edges(ns, es, specs.clone()).map(|mut g| {
            if !readd.is_empty() {
                // ask first, then grow, then ask again: an answer must describe the graph as it is now
                let _ = components::number_of_connected_components(&g);
                let _ = components::connected_components(&g);
                let _ = components::weakly_connected_components(&g);
                let _ = components::strongly_connected_components(&g);
            }
            for x in &readd {
                g.add_node(Arc::new(graphrs::Node { name: *x, attributes: Some(7) }));
            }
            g
        })
    });
    o.obs(1, &[vec![res_code(&r)]], &[]);
    let g: Arc<G> = match r {
        Some(Ok(g)) => Arc::new(g),
        _ => return,
    };
    let names: Vec<i64> = g.get_all_node_names().into_iter().cloned().collect();
    o.obs(2, &[names.clone()], &[]);

    let h = g.clone();
    comps_obs(o, 10, 1011, guard_t(LIMIT_MS, move || components::connected_components(&h)));
    let h = g.clone();
    let r = guard_t(LIMIT_MS, move || components::number_of_connected_components(&h));
    let n = match &r {
        Some(Some(Ok(n))) => *n as i64,
        _ => -1,
    };
    o.obs(12, &[vec![code_t(&r), n]], &[]);
    let mut starts = names.clone();
    starts.push(absent);
    for x in &starts {
        let h = g.clone();
        let x = *x;
        let r = guard_t(LIMIT_MS, move || components::node_connected_component(&h, &x));
        let mut row = vec![x, code_t(&r)];
        if let Some(Some(Ok(s))) = &r {
            row.extend(sorted_set(s));
        }
        o.obs(13, &[row], &[]);
    }
    let h = g.clone();
    comps_obs(o, 14, 1015, guard_t(LIMIT_MS, move || components::weakly_connected_components(&h)));
    let h = g.clone();
    comps_obs(o, 16, 1017, guard_t(LIMIT_MS, move || components::strongly_connected_components(&h)));
    // breadth_first_search(x): head and the sorted list (duplicates kept)
    for x in &names {
        let h = g.clone();
        let x = *x;
        let r = guard_t(LIMIT_MS, move || h.breadth_first_search(&x));
        match r {
            None => o.obs(18, &[vec![x, HANG]], &[]),
            Some(None) => o.obs(18, &[vec![x, PANIC]], &[]),
            Some(Some(v)) => {
                let head = if v.is_empty() { -1 } else { v[0] };
                let mut s = v.clone();
                s.sort();
                let mut row = vec![x, 0, head];
                row.extend(s);
                o.obs(18, &[row], &[]);
            }
        }
    }
    // bfs_equal_size_partitions(k), k = 1..n+2 (deterministic: index order)
    for k in 1..(names.len() + 3) {
        let h = g.clone();
        let r = guard_t(LIMIT_MS, move || components::bfs_equal_size_partitions(&h, k));
        match r {
            None => o.obs(20, &[vec![k as i64, HANG]], &[]),
            Some(None) => o.obs(20, &[vec![k as i64, PANIC]], &[]),
            Some(Some(parts)) => {
                o.obs(20, &[vec![k as i64, 0]], &[]);
                o.obs(21, &parts, &[]);
            }
        }
    }
    // kind 25: the model evaluates the verified checker on its own output; constant here
    o.obs(25, &[vec![1]], &[]);
}
