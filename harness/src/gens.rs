//! C16: the generators (complete_graph, fast_gnp_random_graph, karate_club_graph).
//!
//! Case lines (one per case):
//!   complete <n> <directed>
//!   gnp <n> <p as hex of the f64 bits> <directed> <seed>
//!   gnpnone <n> <pbits> <directed>                        (seed = None: thread_rng)
//!   karate
//!   stat <n> <pbits> <directed> <seed0> <count> <pairs>   (statistics over `count` seeds)
//!
//! Observations:
//!   1  [[outcome code]]
//!   40 [[k_1 k_2 ...]]   the REAL gap stream of the seed (gnp only), recomputed here with the
//!                        same rand / rand_chacha versions and the same formula as random.rs
//!   2  [[name]...]       node names in get_all_nodes order
//!   3  [[a b]...]        edges, sorted; directed (u,v); undirected (min,max) for complete/karate,
//!                        (max,min) for gnp (the orientation the generator emits)
//!   30/31/32             statistics (stat cases)
use crate::hist::Toks;
use crate::obs::*;
use graphrs::{generators, Graph};
use rand::{Rng, RngCore, SeedableRng};
use rand_chacha::ChaCha20Rng;

fn pbits(s: &str) -> f64 {
    f64::from_bits(u64::from_str_radix(s.trim_start_matches('x'), 16).expect("hex f64"))
}

/// Same generator type and construction as random.rs get_random_number_generator(Some(s)).
fn rng_of(seed: u64) -> Box<dyn RngCore> {
    Box::new(ChaCha20Rng::seed_from_u64(seed))
}

/// The gap stream k_i of random.rs for (p, seed): exactly the expression the crate evaluates,
///   lp = ln(1-p) computed as (-p).ln_1p();  lr = (1.0 - rng.gen::<f64>()).ln();  k = (lr / lp) as i64
/// `slots` bounds how much of the stream can ever be consumed (every draw advances the linear
/// position by 1 + k >= 1).
pub fn gap_stream(p: f64, seed: u64, slots: i64) -> Vec<i64> {
    let mut rng = rng_of(seed);
    let lp = (-p).ln_1p();
    let mut out = vec![];
    let mut cum: i128 = 0;
    while cum <= slots as i128 {
        let lr: f64 = (1.0_f64 - rng.gen::<f64>()).ln();
        let k = (lr / lp) as i64;
        out.push(k);
        cum += 1 + (k.max(0) as i128);
    }
    out
}

/// orientation of the printed pair: 0 = as stored (directed), 1 = (min,max), 2 = (max,min)
fn rows_of(g: &Graph<i32, ()>, orient: u8) -> (Vec<Vec<i64>>, Vec<Vec<i64>>) {
    let nodes: Vec<Vec<i64>> = g.get_all_nodes().iter().map(|n| vec![n.name as i64]).collect();
    let mut edges: Vec<Vec<i64>> = g
        .get_all_edges()
        .iter()
        .map(|e| {
            let (a, b) = (e.u as i64, e.v as i64);
            match orient {
                0 => vec![a, b],
                1 => vec![a.min(b), a.max(b)],
                _ => vec![a.max(b), a.min(b)],
            }
        })
        .collect();
    edges.sort();
    (nodes, edges)
}

fn print_graph(g: &Graph<i32, ()>, orient: u8, o: &mut Out) {
    let (nodes, edges) = rows_of(g, orient);
    o.obs(2, &nodes, &[]);
    o.obs(3, &edges, &[]);
}

pub fn run_case(lines: &[Vec<String>], o: &mut Out) {
    for l in lines {
        let mut t = Toks::new(l);
        match t.s() {
            "complete" => {
                let n = t.i() as i32;
                let d = t.i() != 0;
                let r = guard(|| generators::classic::complete_graph(n, d));
                match r {
                    None => o.obs(1, &[vec![PANIC]], &[]),
                    Some(g) => {
                        o.obs(1, &[vec![0]], &[]);
                        print_graph(&g, if d { 0 } else { 1 }, o);
                        // the KIND of the generated graph (oracle-only observation)
                        o.obs(5004, &[vec![g.specs.directed as i64, g.specs.multi_edges as i64]], &[]);
                    }
                }
            }
            "gnp" => {
                let n = t.i() as i32;
                let p = pbits(t.s());
                let d = t.i() != 0;
                let seed = t.s().parse::<u64>().expect("seed");
                let r = guard(|| generators::random::fast_gnp_random_graph(n, p, d, Some(seed)));
                o.obs(1, &[vec![res_code(&r)]], &[]);
                let valid = p > 0.0 && p < 1.0;
                let nn = n.max(0) as i64;
                let slots = if d { nn * nn } else { nn * (nn - 1) / 2 } + nn + 2;
                let gaps = if valid { gap_stream(p, seed, slots) } else { vec![] };
                o.obs(40, &[gaps], &[]);
                if let Some(Ok(g)) = r {
                    print_graph(&g, if d { 0 } else { 2 }, o);
                    o.obs(5004, &[vec![g.specs.directed as i64, g.specs.multi_edges as i64]], &[]);
                }
            }
            "gnpnone" => {
                let n = t.i() as i32;
                let p = pbits(t.s());
                let d = t.i() != 0;
                let r = guard(|| generators::random::fast_gnp_random_graph(n, p, d, None));
                o.obs(1, &[vec![res_code(&r)]], &[]);
                if let Some(Ok(g)) = r {
                    print_graph(&g, if d { 0 } else { 2 }, o);
                    o.obs(5004, &[vec![g.specs.directed as i64, g.specs.multi_edges as i64]], &[]);
                    // a second UNSEEDED call is a fresh draw (oracle-only: equal edge sets are astronomically unlikely
                    // for the sizes the oracle looks at)
                    if let Some(Ok(g2)) = guard(|| generators::random::fast_gnp_random_graph(n, p, d, None)) {
                        let a = rows_of(&g, if d { 0 } else { 2 }).1;
                        let b = rows_of(&g2, if d { 0 } else { 2 }).1;
                        o.obs(5005, &[vec![(a == b) as i64, a.len() as i64, b.len() as i64]], &[]);
                    }
                }
            }
            "karate" => {
                let r = guard(generators::social::karate_club_graph);
                match r {
                    None => o.obs(1, &[vec![PANIC]], &[]),
                    Some(g) => {
                        o.obs(1, &[vec![0, g.specs.directed as i64, g.specs.multi_edges as i64]], &[]);
                        print_graph(&g, 1, o);
                    }
                }
            }
            "stat" => {
                let n = t.i() as i32;
                let p = pbits(t.s());
                let d = t.i() != 0;
                let seed0 = t.s().parse::<u64>().expect("seed");
                let count = t.i() as u64;
                let want_pairs = t.i() != 0;
                let mut counts: Vec<i64> = vec![];
                let mut bad: Vec<Vec<i64>> = vec![];
                let mut occ: std::collections::BTreeMap<(i64, i64), i64> = Default::default();
                for s in seed0..seed0 + count {
                    let r = guard(|| generators::random::fast_gnp_random_graph(n, p, d, Some(s)));
                    match r {
                        Some(Ok(g)) => {
                            let (nodes, edges) = rows_of(&g, if d { 0 } else { 2 });
                            let want: Vec<Vec<i64>> = (0..n as i64).map(|i| vec![i]).collect();
                            let mut ok = nodes == want;
                            for w in edges.windows(2) {
                                if w[0] == w[1] {
                                    ok = false;
                                }
                            }
                            for e in &edges {
                                if e[0] == e[1] || e[0] < 0 || e[1] < 0 || e[0] >= n as i64 || e[1] >= n as i64 {
                                    ok = false;
                                }
                                if want_pairs {
                                    *occ.entry((e[0], e[1])).or_insert(0) += 1;
                                }
                            }
                            if !ok {
                                bad.push(vec![s as i64, 1]);
                            }
                            counts.push(edges.len() as i64);
                        }
                        other => {
                            bad.push(vec![s as i64, res_code(&other)]);
                            counts.push(-1);
                        }
                    }
                }
                o.obs(30, &[counts], &[]);
                o.obs(32, &bad, &[]);
                if want_pairs {
                    let rows: Vec<Vec<i64>> = occ.iter().map(|(k, c)| vec![k.0, k.1, *c]).collect();
                    o.obs(31, &rows, &[]);
                }
            }
            other => panic!("unknown gen case line {}", other),
        }
    }
}
