//! GraphML reader / writer checks (C14, C19).
//! Case lines:  `k codec` + `s x<hex>` | `k f64` + `n <count> <seed>` |
//!              `k graph` + `spec ..` + `node x<hex>`* + `edge x<hex> x<hex> <bits-hex|nan>`* |
//!              `k doc` + `spec ..` + `doc x<hex>`
//! Observation kinds (mirrored by coq/theories/Run/RunGraphML.v):
//!   10 escape(s)  11 unescape(s)  12 unescape(escape s) == s
//!   60 f64 print/parse sample [checked, failed]  (61: failing bit patterns, oracle only)
//!   1 constructor outcome; 40/41/1042 the original graph; 20/1021 the tokens of the written
//!   document (header+nodes+footer in order / one row per edge element); 70 all tokens of the
//!   document as quick-xml hands them to the reader (this is the model's INPUT);
//!   4 reader outcome; 5/6/1007 the graph read; 8, 30, 31 constants 1 (validations evaluated by the
//!   model: content = spec, model round trip returns the graph, hypotheses of the round-trip theorem hold); 50 file variant: [same bytes as the string variant, file read-back equals string read-back]
use crate::hist::{parse_specs, Toks};
use crate::obs::*;
use graphrs::{readwrite, Edge, Graph, GraphSpecs, Node};
use quick_xml::{events::Event, Reader};
use std::sync::Arc;

type G = Graph<String, ()>;

fn unhex(t: &str) -> Vec<u8> {
    let h = &t[1..];
    (0..h.len() / 2).map(|i| u8::from_str_radix(&h[2 * i..2 * i + 2], 16).expect("hex")).collect()
}
fn unhex_s(t: &str) -> String {
    String::from_utf8(unhex(t)).expect("case strings are UTF-8")
}
fn brow(b: &[u8]) -> Vec<i64> {
    b.iter().map(|x| *x as i64).collect()
}
fn push_b(r: &mut Vec<i64>, b: &[u8]) {
    r.push(b.len() as i64);
    r.extend(b.iter().map(|x| *x as i64));
}

/// opaque, order-preserving token of a non-NaN f64 (the model never looks inside)
pub fn wtok(w: f64) -> i64 {
    let b = w.to_bits();
    let mag = (b & 0x7fff_ffff_ffff_ffff) as i64;
    if b >> 63 == 1 {
        -mag - 1
    } else {
        mag
    }
}
fn wenc(w: f64) -> [i64; 2] {
    if w.is_nan() {
        [0, 0]
    } else {
        [1, wtok(w)]
    }
}

fn start_row(tag: i64, e: &quick_xml::events::BytesStart) -> Vec<i64> {
    let mut r: Vec<i64> = vec![tag];
    push_b(&mut r, e.name().as_ref());
    let mut n = 0;
    let mut ar: Vec<i64> = vec![];
    for a in e.attributes() {
        n += 1;
        match a {
            Ok(a) => {
                ar.push(1);
                push_b(&mut ar, a.key.as_ref());
                push_b(&mut ar, &a.value);
            }
            Err(_) => ar.push(0),
        }
    }
    r.push(n);
    r.extend(ar);
    r
}

/// the results of `read_event_into` that `read_graphml_string` gets for this document
/// (same Reader configuration: `Reader::from_str`), up to the first Eof, as rows
fn tokenize_tagged(doc: &str) -> Vec<Vec<i64>> {
    let mut rows = vec![];
    let mut reader = Reader::from_str(doc);
    let cap = 2 * doc.len() + 16;
    loop {
        if rows.len() > cap {
            rows.push(vec![99]); // the tokenizer did not reach Eof: no model row matches this
            break;
        }
        let mut buf = Vec::new();
        match reader.read_event_into(&mut buf) {
            Ok(Event::Start(e)) => rows.push(start_row(1, &e)),
            Ok(Event::Empty(e)) => rows.push(start_row(2, &e)),
            Ok(Event::End(e)) => {
                let mut r = vec![3];
                push_b(&mut r, e.name().as_ref());
                rows.push(r);
            }
            Ok(Event::Text(e)) => {
                let mut r = vec![4];
                let raw: &[u8] = &e;
                push_b(&mut r, raw);
                match std::str::from_utf8(raw).ok().and_then(|s| s.parse::<f64>().ok()) {
                    None => r.extend([0, 0]),
                    Some(w) if w.is_nan() => r.extend([1, 0]),
                    Some(w) => r.extend([2, wtok(w)]),
                }
                rows.push(r);
            }
            Ok(Event::Eof) => {
                rows.push(vec![6]);
                break;
            }
            Ok(Event::Comment(_)) => rows.push(vec![8]),
            Ok(_) => rows.push(vec![5]),
            Err(_) => rows.push(vec![7]),
        }
    }
    rows
}

fn view(o: &mut Out, k: i64, g: &G) {
    let nodes: Vec<Vec<i64>> = g.get_all_nodes().iter().map(|n| brow(n.name.as_bytes())).collect();
    o.obs(k, &nodes, &[]);
    o.obs(k + 1, &[vec![g.specs.directed as i64]], &[]);
    let edges: Vec<Vec<i64>> = g
        .get_all_edges()
        .iter()
        .map(|e| {
            let mut r = vec![];
            push_b(&mut r, e.u.as_bytes());
            push_b(&mut r, e.v.as_bytes());
            r.extend(wenc(e.weight));
            r
        })
        .collect();
    o.obs(1000 + k + 2, &edges, &[]);
}

fn same_graph(a: &G, b: &G) -> bool {
    let na: Vec<&String> = a.get_all_nodes().iter().map(|n| &n.name).collect();
    let nb: Vec<&String> = b.get_all_nodes().iter().map(|n| &n.name).collect();
    let key = |g: &G| {
        let mut v: Vec<(String, String, u64)> = g
            .get_all_edges()
            .iter()
            .map(|e| (e.u.clone(), e.v.clone(), if e.weight.is_nan() { u64::MAX } else { e.weight.to_bits() }))
            .collect();
        v.sort();
        v
    };
    na == nb && a.specs.directed == b.specs.directed && key(a) == key(b)
}

const READ_MS: u64 = 10_000;

/// read_graphml_string under the watchdog; prints outcome (kind 4) and graph (5, 6, 1007)
fn read_and_print(o: &mut Out, doc: &str, specs: &GraphSpecs) -> Option<G> {
    let d = doc.to_string();
    let sp = specs.clone();
    let r = guard_t(READ_MS, move || readwrite::graphml::read_graphml_string(&d, sp));
    match r {
        None => {
            o.obs(4, &[vec![HANG]], &[]);
            None
        }
        Some(r) => {
            o.obs(4, &[vec![res_code(&r)]], &[]);
            match r {
                Some(Ok(g)) => {
                    view(o, 5, &g);
                    Some(g)
                }
                _ => None,
            }
        }
    }
}

fn f64_sample(o: &mut Out, n: u64, seed: u64) {
    // structured patterns first: every exponent x boundary mantissas x both signs, then SplitMix
    let mants: [u64; 8] = [0, 1, 2, 0x8_0000_0000_0000, 0x5_5555_5555_5555, 0xf_ffff_ffff_fffe, 0xf_ffff_ffff_ffff, 0x1_0000_0000];
    let structured = 2 * 2048 * mants.len() as u64;
    let mut s = seed.wrapping_mul(0x9E37_79B9_7F4A_7C15).wrapping_add(0x1234567);
    let (mut checked, mut failed) = (0i64, 0i64);
    let mut bad: Vec<Vec<i64>> = vec![];
    for i in 0..n {
        let bits = if i < structured {
            let m = mants[(i % 8) as usize];
            let e = (i / 8) % 2048;
            let sg = i / (8 * 2048);
            (sg << 63) | (e << 52) | m
        } else {
            s = s.wrapping_add(0x9E37_79B9_7F4A_7C15);
            let mut z = s;
            z = (z ^ (z >> 30)).wrapping_mul(0xBF58_476D_1CE4_E5B9);
            z = (z ^ (z >> 27)).wrapping_mul(0x94D0_49BB_1331_11EB);
            z ^ (z >> 31)
        };
        let x = f64::from_bits(bits);
        checked += 1;
        if x.is_nan() {
            continue; // the writer emits no data element for NaN
        }
        let t = format!("{}", x);
        let clean = !t.is_empty() && t.bytes().all(|b| b != b'<' && b != b'>' && b != b'&' && b != b'"' && b != b'\'')
            && quick_xml::escape::escape(t.as_str()) == t;
        let back = t.parse::<f64>();
        let ok = clean && matches!(back, Ok(y) if y.to_bits() == bits);
        if !ok {
            failed += 1;
            if bad.len() < 5 {
                bad.push(vec![(bits >> 32) as i64, (bits & 0xffff_ffff) as i64]);
            }
        }
    }
    o.obs(60, &[vec![checked, failed]], &[]);
    if !bad.is_empty() {
        o.obs(61, &bad, &[]);
    }
}

fn work_dir() -> std::path::PathBuf {
    let a: Vec<String> = std::env::args().collect();
    let p = std::path::Path::new(&a[2]);
    p.parent().map(|x| x.to_path_buf()).unwrap_or_else(std::env::temp_dir)
}

static FILE_CTR: std::sync::atomic::AtomicUsize = std::sync::atomic::AtomicUsize::new(0);

pub fn run_case(lines: &[Vec<String>], o: &mut Out) {
    let kind = lines[0][1].as_str();
    match kind {
        "codec" => {
            let s = unhex_s(&lines[1][1]);
            let e = quick_xml::escape::escape(s.as_str());
            o.obs(10, &[brow(e.as_bytes())], &[]);
            match quick_xml::escape::unescape(s.as_str()) {
                Ok(u) => o.obs(11, &[vec![0], brow(u.as_bytes())], &[]),
                Err(_) => o.obs(11, &[vec![1]], &[]),
            }
            let rt = matches!(quick_xml::escape::unescape(&e), Ok(u) if u == s);
            o.obs(12, &[vec![rt as i64]], &[]);
        }
        "f64" => {
            let n = lines[1][1].parse::<u64>().unwrap();
            let seed = lines[1][2].parse::<u64>().unwrap();
            f64_sample(o, n, seed);
        }
        "doc" => {
            let mut t = Toks::new(&lines[1][1..]);
            let specs = parse_specs(&mut t);
            let doc = unhex_s(&lines[2][1]);
            let d2 = doc.clone();
            match guard_t(READ_MS, move || tokenize_tagged(&d2)) {
                Some(Some(rows)) => o.obs(70, &rows, &[]),
                Some(None) => o.obs(70, &[vec![98]], &[]), // quick-xml itself panicked
                None => o.obs(70, &[vec![99]], &[]),
            }
            read_and_print(o, &doc, &specs);
            o.obs(8, &[vec![1]], &[]);
        }
        "graph" => {
            let mut t = Toks::new(&lines[1][1..]);
            let specs = parse_specs(&mut t);
            let mut nodes: Vec<Arc<Node<String, ()>>> = vec![];
            let mut edges: Vec<Arc<Edge<String, ()>>> = vec![];
            for l in &lines[2..] {
                match l[0].as_str() {
                    "node" => nodes.push(Node::from_name(unhex_s(&l[1]))),
                    "edge" => {
                        let w = if l[3] == "nan" { f64::NAN } else { f64::from_bits(u64::from_str_radix(&l[3], 16).unwrap()) };
                        edges.push(Edge::with_weight(unhex_s(&l[1]), unhex_s(&l[2]), w));
                    }
                    _ => panic!("bad graph line"),
                }
            }
            let sp = specs.clone();
            let r = guard(move || G::new_from_nodes_and_edges(nodes, edges, sp));
            o.obs(1, &[vec![res_code(&r)]], &[]);
            let g = match r {
                Some(Ok(g)) => g,
                _ => return,
            };
            view(o, 40, &g);
            // write: string variant
            let ws = guard(|| readwrite::graphml::write_graphml_string(&g));
            let doc = match ws {
                Some(Ok(s)) => s,
                _ => {
                    o.obs(20, &[vec![if ws.is_none() { PANIC } else { 1 }]], &[]);
                    return;
                }
            };
            let rows = tokenize_tagged(&doc);
            // split: edge groups (Start edge .. End edge) vs everything else
            let edge_name: Vec<i64> = {
                let mut r = vec![];
                push_b(&mut r, b"edge");
                r
            };
            let mut plain: Vec<Vec<i64>> = vec![];
            let mut groups: Vec<Vec<i64>> = vec![];
            let mut cur: Option<Vec<i64>> = None;
            for r in &rows {
                let is_edge_start = r[0] == 1 && r.len() > 5 && r[1..6] == edge_name[..];
                let is_edge_end = r[0] == 3 && r.len() == 6 && r[1..6] == edge_name[..];
                if cur.is_none() && is_edge_start {
                    cur = Some(r.clone());
                } else if let Some(c) = cur.as_mut() {
                    c.extend(r.iter());
                    if is_edge_end {
                        groups.push(cur.take().unwrap());
                    }
                } else if r != &vec![6] {
                    plain.push(r.clone());
                }
            }
            if let Some(c) = cur {
                groups.push(c);
            }
            o.obs(20, &plain, &[]);
            o.obs(1021, &groups, &[]);
            o.obs(70, &rows, &[]);
            let back = read_and_print(o, &doc, &specs);
            o.obs(8, &[vec![1]], &[]);
            o.obs(30, &[vec![1]], &[]);
            o.obs(31, &[vec![1]], &[]);
            // file variant
            let n = FILE_CTR.fetch_add(1, std::sync::atomic::Ordering::SeqCst);
            let path = work_dir().join(format!("gvtmp_{}_{}.graphml", std::process::id(), n));
            let ps = path.to_string_lossy().to_string();
            // the path already holds a LONGER document (a previous save): saving must replace it
            if n % 2 == 1 {
                let _ = std::fs::write(&path, format!("{}{}", doc, "<!-- tail of a previous, longer document -->\n".repeat(3)));
            }
            let wf = guard(|| readwrite::graphml::write_graphml_file(&g, &ps));
            let same_bytes = matches!(wf, Some(Ok(()))) && std::fs::read(&path).map(|b| b == doc.as_bytes()).unwrap_or(false);
            let ps2 = ps.clone();
            let sp2 = specs.clone();
            let rf = guard_t(READ_MS, move || readwrite::graphml::read_graphml_file(&ps2, sp2));
            let same_read = match (&back, rf) {
                (Some(a), Some(Some(Ok(b)))) => same_graph(a, &b),
                (None, Some(Some(Err(_)))) => true,
                _ => false,
            };
            let _ = std::fs::remove_file(&path);
            o.obs(50, &[vec![same_bytes as i64, same_read as i64]], &[]);
        }
        _ => panic!("unknown graphml case kind"),
    }
}
