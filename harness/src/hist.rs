//! Histories of mutation calls on `Graph<i64, i64>` plus every read API
//! (C01, C02, C03, C09, C15).
use crate::obs::*;
use graphrs::{
    Edge, EdgeDedupeStrategy, Graph, GraphSpecs, MissingNodeStrategy, Node, SelfLoopsFalseStrategy,
};
use std::sync::Arc;

pub type G = Graph<i64, i64>;
pub type E = Arc<Edge<i64, i64>>;
pub type Nd = Arc<Node<i64, i64>>;

pub struct Toks<'a> {
    t: &'a [String],
    i: usize,
}
impl<'a> Toks<'a> {
    pub fn new(t: &'a [String]) -> Self {
        Toks { t, i: 0 }
    }
    pub fn s(&mut self) -> &'a str {
        let r = &self.t[self.i];
        self.i += 1;
        r.as_str()
    }
    pub fn i(&mut self) -> i64 {
        self.s().parse::<i64>().expect("int token")
    }
    pub fn u(&mut self) -> usize {
        self.i() as usize
    }
    pub fn rest_i(&mut self) -> Vec<i64> {
        let mut v = vec![];
        while self.i < self.t.len() {
            v.push(self.i());
        }
        v
    }
    pub fn more(&self) -> bool {
        self.i < self.t.len()
    }
}

pub fn parse_specs(t: &mut Toks) -> GraphSpecs {
    let d = t.i() != 0;
    let m = t.i() != 0;
    let s = t.i() != 0;
    let dd = match t.i() {
        0 => EdgeDedupeStrategy::Error,
        1 => EdgeDedupeStrategy::KeepFirst,
        _ => EdgeDedupeStrategy::KeepLast,
    };
    let ms = match t.i() {
        0 => MissingNodeStrategy::Create,
        _ => MissingNodeStrategy::Error,
    };
    let slf = match t.i() {
        0 => SelfLoopsFalseStrategy::Error,
        _ => SelfLoopsFalseStrategy::Drop,
    };
    GraphSpecs {
        directed: d,
        edge_dedupe_strategy: dd,
        missing_node_strategy: ms,
        multi_edges: m,
        self_loops: s,
        self_loops_false_strategy: slf,
    }
}

pub fn dec_w(flag: i64, z: i64) -> f64 {
    match flag {
        0 => f64::NAN,
        1 => (z as f64) * wfactor(),
        _ => f64::from_bits(z as u64) * wfactor(),
    }
}

pub fn parse_node(t: &mut Toks) -> Nd {
    let name = t.i();
    let af = t.i();
    let a = t.i();
    Arc::new(Node {
        name,
        attributes: if af == 0 { None } else { Some(a) },
    })
}

pub fn parse_edge(t: &mut Toks) -> E {
    let u = t.i();
    let v = t.i();
    let wf = t.i();
    let w = t.i();
    let af = t.i();
    let a = t.i();
    Arc::new(Edge {
        u,
        v,
        attributes: if af == 0 { None } else { Some(a) },
        weight: dec_w(wf, w),
    })
}

/// a weight-valued observation of a case run with a dyadic weight scale (obs::WSCALE), scaled back
fn enc_ws(x: f64) -> [i64; 2] {
    enc_w(x / wfactor())
}

/// repeated edges of one batch are handed over as clones of ONE Arc (callers routinely do `vec![e.clone(), e.clone()]`):
/// the library must treat them as separate edges, never identify edges by allocation
pub fn share_equal(es: Vec<E>) -> Vec<E> {
    let mut out: Vec<E> = vec![];
    for e in es {
        let same = out
            .iter()
            .find(|p| p.u == e.u && p.v == e.v && p.weight.to_bits() == e.weight.to_bits() && p.attributes == e.attributes)
            .cloned();
        out.push(same.unwrap_or(e));
    }
    out
}

pub fn edge_row(e: &Edge<i64, i64>) -> Vec<i64> {
    let w = enc_w(e.weight / wfactor());
    let a = enc_oa(&e.attributes);
    vec![e.u, e.v, w[0], w[1], a[0], a[1]]
}
pub fn node_row(n: &Node<i64, i64>) -> Vec<i64> {
    let a = enc_oa(&n.attributes);
    vec![n.name, a[0], a[1]]
}

pub fn view(g: &G, o: &mut Out) {
    let rows: Vec<Vec<i64>> = g.get_all_nodes().iter().map(|n| node_row(n)).collect();
    o.obs(2, &rows, &[]);
    let rows: Vec<Vec<i64>> = g.get_all_edges().iter().map(|e| edge_row(e)).collect();
    o.obs(1003, &rows, &[]);
}

pub fn snapshot(g: &G, o: &mut Out) {
    // the order of the entries inside a traversal-list row is not fixed by any property (and depends on
    // hash iteration for derived graphs): rows are compared as sets (kinds 1016 / 1019)
    snapshot_k(g, o, 1000)
}

/// `off` = 1000 when the row order of the adjacency vectors depends on hash iteration
/// (derived graphs are rebuilt from `get_all_edges()`), so that the driver sorts them.
pub fn snapshot_k(g: &G, o: &mut Out, off: i64) {
    view(g, o);
    let s = g.verif_snapshot();
    let rows: Vec<Vec<i64>> = s.nodes_map.iter().map(|(k, v)| vec![*k, *v as i64]).collect();
    o.obs(1010, &rows, &[]);
    let rows: Vec<Vec<i64>> = s
        .nodes_map_rev
        .iter()
        .map(|(k, n)| {
            let mut r = vec![*k as i64];
            r.extend(node_row(n));
            r
        })
        .collect();
    o.obs(1011, &rows, &[]);
    let mut rows = vec![];
    for ((ku, kv), es) in s.edges.iter() {
        if es.is_empty() {
            rows.push(vec![*ku, *kv, -1]);
        }
        for (p, e) in es.iter().enumerate() {
            let mut r = vec![*ku, *kv, p as i64];
            r.extend(edge_row(e));
            rows.push(r);
        }
    }
    o.obs(1012, &rows, &[]);
    let mut rows = vec![];
    for (ou, hm) in s.edges_map.iter() {
        if hm.is_empty() {
            rows.push(vec![*ou as i64, -1, -1]);
        }
        for (ov, es) in hm.iter() {
            if es.is_empty() {
                rows.push(vec![*ou as i64, *ov as i64, -1]);
            }
            for (p, e) in es.iter().enumerate() {
                let mut r = vec![*ou as i64, *ov as i64, p as i64];
                r.extend(edge_row(e));
                rows.push(r);
            }
        }
    }
    o.obs(1013, &rows, &[]);
    let name_map = |m: &std::collections::HashMap<i64, std::collections::HashSet<i64>>| {
        let mut rows = vec![];
        for (k, vs) in m.iter() {
            rows.push(vec![*k, -1, 0]);
            for v in vs.iter() {
                rows.push(vec![*k, *v, 1]);
            }
        }
        rows
    };
    o.obs(1014, &name_map(&s.successors), &[]);
    let idx_map = |m: &Vec<(usize, Vec<usize>)>| {
        let mut rows = vec![];
        for (k, vs) in m.iter() {
            rows.push(vec![*k as i64, -1]);
            for v in vs.iter() {
                rows.push(vec![*k as i64, *v as i64]);
            }
        }
        rows
    };
    o.obs(1015, &idx_map(&s.successors_map), &[]);
    let adj_vec = |m: &Vec<Vec<(usize, f64)>>| {
        let mut rows = vec![];
        for (i, r) in m.iter().enumerate() {
            rows.push(vec![i as i64, -1, 0, 0]);
            for (j, w) in r.iter() {
                let e = enc_ws(*w);
                rows.push(vec![i as i64, *j as i64, e[0], e[1]]);
            }
        }
        rows
    };
    o.obs(16 + off, &adj_vec(&s.successors_vec), &[]);
    o.obs(1017, &name_map(&s.predecessors), &[]);
    o.obs(1018, &idx_map(&s.predecessors_map), &[]);
    o.obs(19 + off, &adj_vec(&s.predecessors_vec), &[]);
}

fn edges_obs(kind: i64, r: Option<Result<Vec<&E>, graphrs::Error>>, o: &mut Out) {
    o.obs(1, &[vec![res_code(&r)]], &[]);
    if let Some(Ok(es)) = r {
        let rows: Vec<Vec<i64>> = es.iter().map(|e| edge_row(e)).collect();
        o.obs(kind, &rows, &[]);
    }
}
fn nodes_obs(kind: i64, r: Option<Result<Vec<&Nd>, graphrs::Error>>, o: &mut Out) {
    o.obs(1, &[vec![res_code(&r)]], &[]);
    if let Some(Ok(ns)) = r {
        let rows: Vec<Vec<i64>> = ns.iter().map(|n| node_row(n)).collect();
        o.obs(kind, &rows, &[]);
    }
}
fn opt_usize(kind: i64, r: Option<Option<usize>>, o: &mut Out) {
    match r {
        None => o.obs(1, &[vec![PANIC]], &[]),
        Some(None) => o.obs(kind, &[vec![0, 0]], &[]),
        Some(Some(x)) => o.obs(kind, &[vec![1, x as i64]], &[]),
    }
}
fn opt_f64(kind: i64, r: Option<Option<f64>>, o: &mut Out) {
    match r {
        None => o.obs(1, &[vec![PANIC]], &[]),
        Some(None) => o.obs(kind, &[vec![0, 0, 0]], &[]),
        Some(Some(x)) => {
            let e = enc_ws(x);
            o.obs(kind, &[vec![1, e[0], e[1]]], &[])
        }
    }
}

pub fn query(g: &G, t: &mut Toks, o: &mut Out) {
    let q = t.s();
    match q {
        "get_edge" => {
            let (u, v) = (t.i(), t.i());
            let r = guard(|| g.get_edge(u, v).map(|e| edge_row(e)));
            o.obs(1, &[vec![res_code(&r)]], &[]);
            if let Some(Ok(row)) = r {
                o.obs(101, &[row], &[]);
            }
        }
        "get_edges" => {
            let (u, v) = (t.i(), t.i());
            edges_obs(102, guard(|| g.get_edges(u, v)), o);
        }
        "get_edges_for_node" => {
            let x = t.i();
            edges_obs(1103, guard(|| g.get_edges_for_node(x)), o);
        }
        "get_edges_for_nodes" => {
            let xs = t.rest_i();
            edges_obs(1104, guard(|| g.get_edges_for_nodes(&xs)), o);
        }
        "get_in_edges_for_node" => {
            let x = t.i();
            edges_obs(1105, guard(|| g.get_in_edges_for_node(x)), o);
        }
        "get_in_edges_for_nodes" => {
            let xs = t.rest_i();
            edges_obs(1106, guard(|| g.get_in_edges_for_nodes(&xs)), o);
        }
        "get_out_edges_for_node" => {
            let x = t.i();
            edges_obs(1107, guard(|| g.get_out_edges_for_node(x)), o);
        }
        "get_out_edges_for_nodes" => {
            let xs = t.rest_i();
            edges_obs(1108, guard(|| g.get_out_edges_for_nodes(&xs)), o);
        }
        "get_neighbor_nodes" => {
            let x = t.i();
            nodes_obs(109, guard(|| g.get_neighbor_nodes(x)), o);
        }
        "get_node" => {
            let x = t.i();
            match guard(|| g.get_node(x)) {
                None => o.obs(1, &[vec![PANIC]], &[]),
                Some(None) => o.obs(110, &[], &[]),
                Some(Some(n)) => o.obs(110, &[node_row(n)], &[]),
            }
        }
        "get_predecessor_nodes" => {
            let x = t.i();
            nodes_obs(1111, guard(|| g.get_predecessor_nodes(x)), o);
        }
        "get_predecessor_node_names" => {
            let x = t.i();
            let r = guard(|| g.get_predecessor_node_names(x));
            o.obs(1, &[vec![res_code(&r)]], &[]);
            if let Some(Ok(ns)) = r {
                let rows: Vec<Vec<i64>> = ns.iter().map(|n| vec![**n]).collect();
                o.obs(1112, &rows, &[]);
            }
        }
        "get_successor_nodes" => {
            let x = t.i();
            nodes_obs(1113, guard(|| g.get_successor_nodes(x)), o);
        }
        "get_successor_node_names" => {
            let x = t.i();
            let r = guard(|| g.get_successor_node_names(x));
            o.obs(1, &[vec![res_code(&r)]], &[]);
            if let Some(Ok(ns)) = r {
                let rows: Vec<Vec<i64>> = ns.iter().map(|n| vec![**n]).collect();
                o.obs(1114, &rows, &[]);
            }
        }
        "get_successors_or_neighbors" => {
            let x = t.i();
            match guard(|| g.get_successors_or_neighbors(x)) {
                None => o.obs(1, &[vec![PANIC]], &[]),
                Some(ns) => {
                    o.obs(1, &[vec![0]], &[]);
                    let rows: Vec<Vec<i64>> = ns.iter().map(|n| node_row(n)).collect();
                    o.obs(1116, &rows, &[]);
                }
            }
        }
        "has_node" => {
            let x = t.i();
            match guard(|| g.has_node(&x)) {
                None => o.obs(1, &[vec![PANIC]], &[]),
                Some(b) => o.obs(117, &[vec![b as i64]], &[]),
            }
        }
        "has_nodes" => {
            let xs = t.rest_i();
            match guard(|| g.has_nodes(&xs)) {
                None => o.obs(1, &[vec![PANIC]], &[]),
                Some(b) => o.obs(118, &[vec![b as i64]], &[]),
            }
        }
        "counts" => {
            // number_of_nodes, number_of_edges, size(false), size(true), edges_have_weight
            match guard(|| {
                (
                    g.number_of_nodes(),
                    g.number_of_edges(),
                    g.size(false),
                    g.size(true),
                    g.edges_have_weight(),
                )
            }) {
                None => o.obs(1, &[vec![PANIC]], &[]),
                Some((n, m, s0, s1, hw)) => {
                    let a = enc_w(s0);
                    let b = enc_ws(s1);
                    o.obs(
                        119,
                        &[vec![n as i64, m as i64, a[0], a[1], b[0], b[1], hw as i64]],
                        &[],
                    )
                }
            }
        }
        "get_node_by_index" => {
            let i = t.u();
            match guard(|| g.get_node_by_index(&i)) {
                None => o.obs(1, &[vec![PANIC]], &[]),
                Some(None) => o.obs(123, &[], &[]),
                Some(Some(n)) => o.obs(123, &[node_row(n)], &[]),
            }
        }
        "breadth_first_search" => {
            let x = t.i();
            match guard(|| g.breadth_first_search(&x)) {
                None => o.obs(1, &[vec![PANIC]], &[]),
                Some(v) => {
                    o.obs(1, &[vec![0]], &[]);
                    let rows: Vec<Vec<i64>> = v
                        .iter()
                        .enumerate()
                        .map(|(i, n)| vec![*n, (i == 0) as i64])
                        .collect();
                    o.obs(1124, &rows, &[]);
                }
            }
        }
        "get_all_node_names" => {
            let rows: Vec<Vec<i64>> = g.get_all_node_names().iter().map(|n| vec![**n]).collect();
            o.obs(126, &rows, &[]);
        }
        // ---- degrees (C09) ----
        "get_node_degree" => {
            let x = t.i();
            opt_usize(130, guard(|| g.get_node_degree(x)), o)
        }
        "get_node_in_degree" => {
            let x = t.i();
            opt_usize(131, guard(|| g.get_node_in_degree(x)), o)
        }
        "get_node_out_degree" => {
            let x = t.i();
            opt_usize(132, guard(|| g.get_node_out_degree(x)), o)
        }
        "get_node_weighted_degree" => {
            let x = t.i();
            opt_f64(133, guard(|| g.get_node_weighted_degree(x)), o)
        }
        "get_node_weighted_in_degree" => {
            let x = t.i();
            opt_f64(134, guard(|| g.get_node_weighted_in_degree(x)), o)
        }
        "get_node_weighted_out_degree" => {
            let x = t.i();
            opt_f64(135, guard(|| g.get_node_weighted_out_degree(x)), o)
        }
        "all_degrees" => {
            // the six *_for_all_nodes maps
            match guard(|| g.get_degree_for_all_nodes()) {
                None => o.obs(1, &[vec![PANIC]], &[]),
                Some(m) => {
                    let rows: Vec<Vec<i64>> = m.iter().map(|(k, v)| vec![*k, *v as i64]).collect();
                    o.obs(1136, &rows, &[]);
                }
            }
            for (kind, which) in [(1137, 0), (1138, 1)] {
                let r = guard(|| {
                    if which == 0 {
                        g.get_in_degree_for_all_nodes()
                    } else {
                        g.get_out_degree_for_all_nodes()
                    }
                });
                o.obs(1, &[vec![res_code(&r)]], &[]);
                if let Some(Ok(m)) = r {
                    let rows: Vec<Vec<i64>> = m.iter().map(|(k, v)| vec![*k, *v as i64]).collect();
                    o.obs(kind, &rows, &[]);
                }
            }
            match guard(|| g.get_weighted_degree_for_all_nodes()) {
                None => o.obs(1, &[vec![PANIC]], &[]),
                Some(m) => {
                    let rows: Vec<Vec<i64>> = m
                        .iter()
                        .map(|(k, v)| {
                            let e = enc_ws(*v);
                            vec![*k, e[0], e[1]]
                        })
                        .collect();
                    o.obs(1139, &rows, &[]);
                }
            }
            for (kind, which) in [(1140, 0), (1141, 1)] {
                let r = guard(|| {
                    if which == 0 {
                        g.get_weighted_in_degree_for_all_nodes()
                    } else {
                        g.get_weighted_out_degree_for_all_nodes()
                    }
                });
                o.obs(1, &[vec![res_code(&r)]], &[]);
                if let Some(Ok(m)) = r {
                    let rows: Vec<Vec<i64>> = m
                        .iter()
                        .map(|(k, v)| {
                            let e = enc_ws(*v);
                            vec![*k, e[0], e[1]]
                        })
                        .collect();
                    o.obs(kind, &rows, &[]);
                }
            }
        }
        "density" => match guard(|| g.get_density()) {
            None => o.obs(1, &[vec![PANIC]], &[]),
            Some(d) if d.is_finite() => o.obs(142, &[], &[d]),
            Some(_) => o.obs(142, &[vec![-1]], &[]),
        },
        "degree_centrality" => {
            match guard(|| graphrs::algorithms::centrality::degree::degree_centrality(g)) {
                None => o.obs(1, &[vec![PANIC]], &[]),
                Some(m) => {
                    let mut v: Vec<(i64, f64)> = m.into_iter().collect();
                    v.sort_by_key(|x| x.0);
                    let rows: Vec<Vec<i64>> = v.iter().map(|x| vec![x.0]).collect();
                    let fs: Vec<f64> = v.iter().map(|x| x.1).collect();
                    o.obs(143, &rows, &fs);
                }
            }
        }
        "matrix" => {
            let r = guard(|| g.get_sparse_adjacency_matrix());
            o.obs(1, &[vec![res_code(&r)]], &[]);
            if let Some(Ok(m)) = r {
                let mut rows = vec![];
                for (val, (i, j)) in m.iter() {
                    let e = enc_ws(*val);
                    rows.push(vec![i as i64, j as i64, e[0], e[1]]);
                }
                o.obs(1144, &rows, &[]);
                o.obs(145, &[vec![m.rows() as i64, m.cols() as i64]], &[]);
            }
        }
        // ---- derived graphs (C15): outcome, then full snapshot of the result ----
        "get_subgraph" => {
            let xs = t.rest_i();
            match guard(|| g.get_subgraph(&xs)) {
                None => o.obs(1, &[vec![PANIC]], &[]),
                Some(h) => {
                    o.obs(1, &[vec![0]], &[]);
                    spec_obs(&h, o);
                    snapshot_k(&h, o, 1000);
                }
            }
        }
        "reverse" => {
            let r = guard(|| g.reverse());
            o.obs(1, &[vec![res_code(&r)]], &[]);
            if let Some(Ok(h)) = r {
                spec_obs(&h, o);
                snapshot_k(&h, o, 1000);
            }
        }
        "set_all_edge_weights" => {
            let (wf, w) = (t.i(), t.i());
            match guard(|| g.set_all_edge_weights(dec_w(wf, w))) {
                None => o.obs(1, &[vec![PANIC]], &[]),
                Some(h) => {
                    o.obs(1, &[vec![0]], &[]);
                    spec_obs(&h, o);
                    snapshot_k(&h, o, 1000);
                }
            }
        }
        "to_single_edges" => {
            let r = guard(|| g.to_single_edges());
            o.obs(1, &[vec![res_code(&r)]], &[]);
            if let Some(Ok(h)) = r {
                spec_obs(&h, o);
                snapshot_k(&h, o, 1000);
            }
        }
        // ---- C03's "consequently" clause: what the weighted algorithms report for the graph this history
        // produced (oracle-only observations, kinds 50xx: recomputed in Python from get_all_edges alone) ----
        "alg_sssp" => {
            // third argument: option combination 0 = distances only (fast path), 1 = first_only + paths, 2 = all paths
            let (x, w, opt) = (t.i(), t.i() != 0, t.i());
            let f = if w { wfactor() } else { 1.0 };
            let (fo, wp) = match opt { 1 => (true, true), 2 | 4 => (false, true), _ => (false, false) };
            // options 3 / 4: a cutoff EQUAL to a distance the search itself reports (the median of the distinct
            // unrestricted distances), without and with paths: "summed weight <= cutoff" keeps that node
            let mut cutoff: Option<f64> = None;
            // option 5: a TARGET (the largest name reported as reachable), distances only: the target's entry is its
            // shortest distance, not the length of the route that discovers it first
            let mut target: Option<i64> = None;
            if opt == 5 {
                if let Some(Ok(m0)) = guard(|| graphrs::algorithms::shortest_path::dijkstra::single_source(g, w, x, None, None, false, false)) {
                    target = m0.keys().cloned().max();
                }
            }
            if opt == 3 || opt == 4 {
                if let Some(Ok(m0)) = guard(|| graphrs::algorithms::shortest_path::dijkstra::single_source(g, w, x, None, None, false, false)) {
                    let mut ds: Vec<f64> = m0.values().map(|i| i.distance).collect();
                    ds.sort_by(|a, b| a.partial_cmp(b).unwrap());
                    ds.dedup();
                    if !ds.is_empty() {
                        cutoff = Some(ds[ds.len() / 2]);
                    }
                }
            }
            let r = guard(|| graphrs::algorithms::shortest_path::dijkstra::single_source(g, w, x, target, cutoff, fo, wp));
            o.obs(5001, &[vec![res_code(&r)]], &[]);
            if let Some(Ok(m)) = r {
                let mut kv: Vec<(i64, f64)> = m.iter().map(|(k, i)| (*k, i.distance / f)).collect();
                kv.sort_by(|a, b| a.0.cmp(&b.0));
                let rows: Vec<Vec<i64>> = kv.iter().map(|(k, _)| vec![*k]).collect();
                let fl: Vec<f64> = kv.iter().map(|(_, v)| *v).collect();
                o.obs(5040, &rows, &fl);
            }
        }
        "alg_nbrs" => {
            // the traversal neighbours the searches see (get_successors_or_neighbors), oracle-only
            let x = t.i();
            let r = guard(|| g.get_successors_or_neighbors(x).iter().map(|n| n.name).collect::<Vec<i64>>());
            match r {
                None => o.obs(5001, &[vec![PANIC]], &[]),
                Some(mut v) => {
                    v.sort();
                    o.obs(5001, &[vec![0]], &[]);
                    o.obs(5070, &[v], &[]);
                }
            }
        }
        "alg_ev" => {
            // eigenvector centrality of the graph this history produced (default iteration count and tolerance)
            let w = t.i() != 0;
            let r = guard(|| graphrs::algorithms::centrality::eigenvector::eigenvector_centrality(g, w, None, None));
            o.obs(5001, &[vec![res_code(&r)]], &[]);
            if let Some(Ok(m)) = r {
                let mut kv: Vec<(i64, f64)> = m.iter().map(|(k, v)| (*k, *v)).collect();
                kv.sort_by(|a, b| a.0.cmp(&b.0));
                let rows: Vec<Vec<i64>> = kv.iter().map(|(k, _)| vec![*k]).collect();
                let fl: Vec<f64> = kv.iter().map(|(_, v)| *v).collect();
                o.obs(5090, &rows, &fl);
            }
        }
        "alg_cc" | "alg_bc" => {
            let w = t.i() != 0;
            let r = if q == "alg_cc" {
                guard(|| graphrs::algorithms::centrality::closeness::closeness_centrality(g, w, false))
            } else {
                guard(|| graphrs::algorithms::centrality::betweenness::betweenness_centrality(g, w, false))
            };
            o.obs(5001, &[vec![res_code(&r)]], &[]);
            if let Some(Ok(m)) = r {
                // weighted closeness carries 1/scale, betweenness is scale free (obs::WSCALE)
                let f = if w && q == "alg_cc" { wfactor() } else { 1.0 };
                let mut kv: Vec<(i64, f64)> = m.iter().map(|(k, v)| (*k, *v * f)).collect();
                kv.sort_by(|a, b| a.0.cmp(&b.0));
                let rows: Vec<Vec<i64>> = kv.iter().map(|(k, _)| vec![*k]).collect();
                let fl: Vec<f64> = kv.iter().map(|(_, v)| *v).collect();
                o.obs(if q == "alg_cc" { 5060 } else { 5050 }, &rows, &fl);
            }
        }
        _ => {
            eprintln!("unknown query {}", q);
            std::process::exit(2);
        }
    }
}

pub fn spec_obs(g: &G, o: &mut Out) {
    let s = &g.specs;
    let dd = match s.edge_dedupe_strategy {
        EdgeDedupeStrategy::Error => 0,
        EdgeDedupeStrategy::KeepFirst => 1,
        EdgeDedupeStrategy::KeepLast => 2,
    };
    let ms = match s.missing_node_strategy {
        MissingNodeStrategy::Create => 0,
        MissingNodeStrategy::Error => 1,
    };
    let slf = match s.self_loops_false_strategy {
        SelfLoopsFalseStrategy::Error => 0,
        SelfLoopsFalseStrategy::Drop => 1,
    };
    o.obs(
        3,
        &[vec![s.directed as i64, s.multi_edges as i64, s.self_loops as i64, dd, ms, slf]],
        &[],
    );
}

/// Applies one mutation line to the graph; returns false when the call panicked
/// (the object may then be half-updated and the history stops).
pub fn mutate(g: &mut G, specs: &GraphSpecs, op: &str, t: &mut Toks, o: &mut Out) -> bool {
    let code: i64 = match op {
        "add_node" => {
            let n = parse_node(t);
            match guard(|| g.add_node(n)) {
                None => PANIC,
                Some(()) => 0,
            }
        }
        "add_nodes" => {
            let k = t.u();
            let ns: Vec<Nd> = (0..k).map(|_| parse_node(t)).collect();
            match guard(|| g.add_nodes(ns)) {
                None => PANIC,
                Some(()) => 0,
            }
        }
        "add_edge" => {
            let e = parse_edge(t);
            res_code(&guard(|| g.add_edge(e)))
        }
        "add_edge_tuple" => {
            let (u, v) = (t.i(), t.i());
            res_code(&guard(|| g.add_edge_tuple(u, v)))
        }
        "add_edges" => {
            let k = t.u();
            let es: Vec<E> = share_equal((0..k).map(|_| parse_edge(t)).collect());
            res_code(&guard(|| g.add_edges(es)))
        }
        "add_edge_tuples" => {
            let k = t.u();
            let ps: Vec<(i64, i64)> = (0..k).map(|_| (t.i(), t.i())).collect();
            res_code(&guard(|| g.add_edge_tuples(ps)))
        }
        "new_from" => {
            let kn = t.u();
            let ns: Vec<Nd> = (0..kn).map(|_| parse_node(t)).collect();
            let ke = t.u();
            let es: Vec<E> = share_equal((0..ke).map(|_| parse_edge(t)).collect());
            let r = guard(|| G::new_from_nodes_and_edges(ns, es, specs.clone()));
            let c = res_code(&r);
            if let Some(Ok(h)) = r {
                *g = h;
            }
            c
        }
        _ => {
            eprintln!("unknown op {}", op);
            std::process::exit(2);
        }
    };
    o.obs(1, &[vec![code]], &[]);
    if code != PANIC {
        // kind 5 is the model's "spec layer agrees" flag; the implementation side is constant
        o.obs(5, &[vec![1]], &[]);
    }
    code != PANIC
}

pub fn run_case(lines: &[Vec<String>], o: &mut Out) {
    let mut specs = GraphSpecs::directed();
    let mut g: G = Graph::new(specs.clone());
    let mut snap_each = false;
    for l in lines {
        let mut t = Toks::new(l);
        let op = t.s();
        match op {
            "spec" => {
                specs = parse_specs(&mut t);
                g = Graph::new(specs.clone());
            }
            "snap_each" => snap_each = t.i() != 0,
            "snap" => snapshot(&g, o),
            "view" => view(&g, o),
            "q" => query(&g, &mut t, o),
            _ => {
                if !mutate(&mut g, &specs, op, &mut t, o) {
                    return;
                }
                if snap_each {
                    snapshot(&g, o);
                }
            }
        }
    }
}
