//! Correspondence harness: runs graphrs (from /repo's working tree) on the
//! cases written by /verif/check and prints canonical observations.
//! Line protocol (whitespace separated tokens):
//!   case <id> / spec d m s dd ms slf / <op lines> / end
//! Output: `case <id>`, then `O <kind> <nrows> {<len> i...}* F <nf> f...`, then `end`.
mod obs;
mod api;
mod hist;
mod graphml;
mod cent;
mod comp;
mod cluster;
mod comm;
mod gens;
mod par;
mod sp;
use std::io::{BufRead, Write};

fn main() {
    std::panic::set_hook(Box::new(|_| {}));
    let args: Vec<String> = std::env::args().collect();
    if args.len() < 3 {
        eprintln!("usage: gvharness <mode> <cases-file>");
        std::process::exit(2);
    }
    let mode = args[1].as_str();
    let f = std::fs::File::open(&args[2]).expect("open cases");
    let rd = std::io::BufReader::new(f);
    let stdout = std::io::stdout();
    let mut out = std::io::BufWriter::new(stdout.lock());
    let mut cur: Vec<Vec<String>> = vec![];
    let mut id = String::new();
    for line in rd.lines() {
        let line = line.unwrap();
        let toks: Vec<String> = line.split_whitespace().map(|s| s.to_string()).collect();
        if toks.is_empty() {
            continue;
        }
        match toks[0].as_str() {
            "case" => {
                id = toks[1].clone();
                cur.clear();
            }
            "end" => {
                writeln!(out, "case {}", id).unwrap();
                let mut o = obs::Out::new();
                // optional `wscale k` line: dyadic scale of all weights of this case (obs::WSCALE)
                let k = cur.iter().find(|l| l[0] == "wscale").map(|l| l[1].parse::<i32>().unwrap()).unwrap_or(0);
                obs::WSCALE.store(k, std::sync::atomic::Ordering::SeqCst);
                cur.retain(|l| l[0] != "wscale");
                match mode {
                    "hist" => hist::run_case(&cur, &mut o),
                    "api" => api::run_case(&cur, &mut o),
                    "graphml" => graphml::run_case(&cur, &mut o),
                    "cent" => cent::run_case(&cur, &mut o),
                    "comp" => comp::run_case(&cur, &mut o),
                    "cluster" => cluster::run_case(&cur, &mut o),
                    "comm" => comm::run_case(&cur, &mut o),
                    "gens" => gens::run_case(&cur, &mut o),
                    "par" => par::run_case(&cur, &mut o),
                    "sp" => { sp::run_case(&cur, &mut o); if sp::hung() { o.flush(&mut out); writeln!(out, "end").unwrap(); out.flush().unwrap(); std::process::exit(0); } }
                    _ => {
                        eprintln!("unknown mode {}", mode);
                        std::process::exit(2);
                    }
                }
                o.flush(&mut out);
                writeln!(out, "end").unwrap();
                out.flush().unwrap();
                if obs::HUNG.load(std::sync::atomic::Ordering::SeqCst) {
                    std::process::exit(3);
                }
            }
            _ => cur.push(toks),
        }
    }
    out.flush().unwrap();
    std::process::exit(0);
}
