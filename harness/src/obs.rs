//! Canonical observation encoding shared with the Coq `Run/` printers.
use std::io::Write;

pub struct Out {
    lines: Vec<String>,
}

impl Out {
    pub fn new() -> Self {
        Out { lines: vec![] }
    }
    pub fn obs(&mut self, kind: i64, rows: &[Vec<i64>], floats: &[f64]) {
        let mut s = format!("O {} {}", kind, rows.len());
        for r in rows {
            s.push_str(&format!(" {}", r.len()));
            for x in r {
                s.push_str(&format!(" {}", x));
            }
        }
        s.push_str(&format!(" F {}", floats.len()));
        for f in floats {
            s.push_str(&format!(" {}", fmt_f(*f)));
        }
        self.lines.push(s);
    }
    pub fn flush<W: Write>(&mut self, w: &mut W) {
        for l in &self.lines {
            writeln!(w, "{}", l).unwrap();
        }
        self.lines.clear();
    }
}

/// exact textual form of a binary64: hex of the bits
pub fn fmt_f(f: f64) -> String {
    format!("x{:016x}", f.to_bits())
}

/// Exponent k of the dyadic weight scale of the current case (`wscale k` line): every weight read
/// from the case is multiplied by 2^k before it reaches the library, and every weight-valued
/// observation is divided by 2^k again before it is printed.  Multiplying binary64 values by a power
/// of two is exact (no over/underflow at the sizes used), so a correct implementation produces the
/// observations of the unscaled case bit for bit; a change that compares weights with an absolute
/// threshold (EPSILON, 1.0, ...) or narrows them to f32-like ranges does not.
pub static WSCALE: std::sync::atomic::AtomicI32 = std::sync::atomic::AtomicI32::new(0);
pub fn wfactor() -> f64 {
    2f64.powi(WSCALE.load(std::sync::atomic::Ordering::SeqCst))
}

/// weight -> ints: NaN [0,0]; integer-valued [1,z]; anything else [2,bits]
pub fn enc_w(w: f64) -> [i64; 2] {
    if w.is_nan() {
        [0, 0]
    } else if w.is_finite() && w.fract() == 0.0 && w.abs() < 9.0e15 {
        [1, w as i64]
    } else {
        [2, w.to_bits() as i64]
    }
}

pub fn enc_oa(a: &Option<i64>) -> [i64; 2] {
    match a {
        None => [0, 0],
        Some(x) => [1, *x],
    }
}

pub fn kind_code(k: &graphrs::ErrorKind) -> i64 {
    use graphrs::ErrorKind::*;
    match k {
        ContradictoryPaths => 1,
        DuplicateEdge => 2,
        InvalidArgument => 3,
        NodeNotFound => 4,
        NoPartitions => 5,
        NotAPartition => 6,
        EdgeNotFound => 7,
        EdgeWeightNotSpecified => 8,
        PowerIterationFailedConvergence => 9,
        ReadError => 10,
        SelfLoopsFound => 11,
        WrongMethod => 12,
    }
}

pub const PANIC: i64 = 100;
pub const HANG: i64 = 101;

/// run a closure, mapping a panic to None
pub fn guard<R, F: FnOnce() -> R>(f: F) -> Option<R> {
    std::panic::catch_unwind(std::panic::AssertUnwindSafe(f)).ok()
}

pub fn res_code<X>(r: &Option<Result<X, graphrs::Error>>) -> i64 {
    match r {
        None => PANIC,
        Some(Ok(_)) => 0,
        Some(Err(e)) => kind_code(&e.kind),
    }
}

/// run a closure on a fresh thread with a wall-clock limit: Some(Some(r)) on return,
/// Some(None) when it panicked, None when it did not finish in time (the thread is
/// abandoned; the process exits with `process::exit` at the end of the run).
/// set when a watchdog expired: the abandoned thread keeps a core busy, so the process
/// finishes the current case and exits with status 3; the driver restarts it on the rest.
pub static HUNG: std::sync::atomic::AtomicBool = std::sync::atomic::AtomicBool::new(false);

pub fn guard_t<R: Send + 'static, F: FnOnce() -> R + Send + 'static>(ms: u64, f: F) -> Option<Option<R>> {
    let (tx, rx) = std::sync::mpsc::channel();
    std::thread::Builder::new()
        .stack_size(64 << 20)
        .spawn(move || {
            let r = std::panic::catch_unwind(std::panic::AssertUnwindSafe(f)).ok();
            let _ = tx.send(r);
        })
        .expect("spawn");
    match rx.recv_timeout(std::time::Duration::from_millis(ms)) {
        Ok(r) => Some(r),
        Err(_) => {
            HUNG.store(true, std::sync::atomic::Ordering::SeqCst);
            None
        }
    }
}

/// exact value of a finite f64 as a pair of decimal strings is not needed: floats are
/// printed as the hex of their bits (fmt_f) and decoded by tools/gv.py.
pub fn f_rows(v: &[f64]) -> Vec<f64> {
    v.to_vec()
}
