//! C07: parallel execution is unobservable.  EXPLORATION on the implementation (testing, not
//! proof): the five functions that have a rayon path are run inside thread pools of several
//! sizes, repeatedly, and every result is compared BIT FOR BIT (f64::to_bits, path lists) with
//! the first run, with the pool-size-1 run (which takes the serial path) and — for the Dijkstra
//! entry points — with a serial reference assembled from per-source `single_source` calls.
//!
//! Case lines:
//!   graph <directed> <n> / nodes <names in insertion order> / e <u> <v> <weight bits hex>
//!   pools <k1> <k2> ...  reps <r>
//!   call all_pairs <weighted> <cutoff?> <cutoff bits> <first_only> <with_paths>
//!   call multi_source <weighted> <first_only> <with_paths> <sources...>
//!   call involving <weighted> <node>
//!   call betweenness <weighted> <normalized>
//!   call closeness <weighted> <wf_improved>
//!   call hammer <weighted> <iterations>
//!   probe <pool> <x1> <x2> ...      (records the schedule rayon really used; Par.v correspondence)
//!
//! Observations:
//!   50 [[fn_id runs mismatches len hash_hi hash_lo]]   one row per call
//!   53 [[fn_id pool rep]]                               the runs that differ (normally empty)
//!   52 [[hammer_reader_mismatches hammer_main_mismatches reader_iterations]]
//!   60 [[schedule]]  61 [[collected values]]  62 [[1]]  (probe)
//!   63 [[k_vec k_range]]  (probe with FAILING items: item i panics with payload "i" iff xs[i] % 7 == 0;
//!                          k = the payload rayon re-raised, -1 = no panic; low indices are made slow so
//!                          that the failing item EXECUTED first is usually not the lowest failing index)
use crate::hist::Toks;
use crate::obs::*;
use graphrs::algorithms::centrality::{betweenness, closeness};
use graphrs::algorithms::shortest_path::{dijkstra, ShortestPathInfo};
use graphrs::{Edge, Error, Graph, GraphSpecs, Node};
use rayon::prelude::*;
use std::collections::HashMap;
use std::sync::atomic::{AtomicBool, AtomicU64, Ordering};
use std::sync::Mutex;

type G = Graph<i64, ()>;

fn pool(k: usize) -> rayon::ThreadPool {
    rayon::ThreadPoolBuilder::new().num_threads(k).build().unwrap()
}

fn push_spi(out: &mut Vec<u64>, s: i64, t: i64, spi: &ShortestPathInfo<i64>) {
    out.push(s as u64);
    out.push(t as u64);
    out.push(spi.distance.to_bits());
    out.push(spi.paths.len() as u64);
    for p in &spi.paths {
        out.push(p.len() as u64);
        for x in p {
            out.push(*x as u64);
        }
    }
}

fn canon_pairs(r: &Result<HashMap<i64, HashMap<i64, ShortestPathInfo<i64>>>, Error>) -> Vec<u64> {
    match r {
        Err(e) => vec![u64::MAX, kind_code(&e.kind) as u64],
        Ok(m) => {
            let mut keys: Vec<&i64> = m.keys().collect();
            keys.sort();
            let mut out = vec![keys.len() as u64];
            for s in keys {
                let inner = &m[s];
                let mut ts: Vec<&i64> = inner.keys().collect();
                ts.sort();
                out.push(ts.len() as u64);
                for t in ts {
                    push_spi(&mut out, *s, *t, &inner[t]);
                }
            }
            out
        }
    }
}

fn canon_infos(v: &[ShortestPathInfo<i64>]) -> Vec<u64> {
    let mut items: Vec<Vec<u64>> = v
        .iter()
        .map(|spi| {
            let mut o = vec![];
            push_spi(&mut o, 0, 0, spi);
            o
        })
        .collect();
    items.sort();
    let mut out = vec![items.len() as u64];
    for i in items {
        out.extend(i);
    }
    out
}

fn canon_scores(r: &Result<HashMap<i64, f64>, Error>) -> Vec<u64> {
    match r {
        Err(e) => vec![u64::MAX, kind_code(&e.kind) as u64],
        Ok(m) => {
            let mut keys: Vec<&i64> = m.keys().collect();
            keys.sort();
            let mut out = vec![keys.len() as u64];
            for k in keys {
                out.push(*k as u64);
                out.push(m[k].to_bits());
            }
            out
        }
    }
}

fn fnv(v: &[u64]) -> u64 {
    let mut h: u64 = 0xcbf29ce484222325;
    for x in v {
        for b in x.to_le_bytes() {
            h ^= b as u64;
            h = h.wrapping_mul(0x100000001b3);
        }
    }
    h
}

#[derive(Clone)]
enum Call {
    AllPairs { weighted: bool, target: Option<i64>, cutoff: Option<f64>, first_only: bool, with_paths: bool },
    MultiSource { weighted: bool, target: Option<i64>, first_only: bool, with_paths: bool, sources: Vec<i64> },
    Involving { weighted: bool, node: i64 },
    Betweenness { weighted: bool, normalized: bool },
    Closeness { weighted: bool, wf: bool },
}

fn fn_id(c: &Call) -> i64 {
    match c {
        Call::AllPairs { .. } => 1,
        Call::MultiSource { .. } => 2,
        Call::Involving { .. } => 3,
        Call::Betweenness { .. } => 4,
        Call::Closeness { .. } => 5,
    }
}

/// the call through the public (possibly parallel) API, canonicalised; None when it panicked
fn run_call(g: &G, c: &Call) -> Option<Vec<u64>> {
    guard(|| match c {
        Call::AllPairs { weighted, target, cutoff, first_only, with_paths } => {
            canon_pairs(&dijkstra::all_pairs(g, *weighted, *target, *cutoff, *first_only, *with_paths))
        }
        Call::MultiSource { weighted, target, first_only, with_paths, sources } => canon_pairs(&dijkstra::multi_source(
            g,
            *weighted,
            sources.clone(),
            *target,
            None,
            *first_only,
            *with_paths,
        )),
        Call::Involving { weighted, node } => canon_infos(&dijkstra::get_all_shortest_paths_involving(g, *node, *weighted)),
        Call::Betweenness { weighted, normalized } => {
            canon_scores(&betweenness::betweenness_centrality(g, *weighted, *normalized))
        }
        Call::Closeness { weighted, wf } => canon_scores(&closeness::closeness_centrality(g, *weighted, *wf)),
    })
}

/// single-threaded reference assembled from the per-source public API (no rayon involved)
fn serial_reference(g: &G, c: &Call) -> Option<Vec<u64>> {
    let names: Vec<i64> = g.get_all_node_names().into_iter().cloned().collect();
    guard(|| match c {
        Call::AllPairs { weighted, target, cutoff, first_only, with_paths } => {
            if *weighted && !g.edges_have_weight() {
                return canon_pairs(&dijkstra::all_pairs(g, true, None, None, false, false).map(|_| HashMap::new()));
            }
            let mut m = HashMap::new();
            for s in &names {
                let r = dijkstra::single_source(g, *weighted, *s, *target, *cutoff, *first_only, *with_paths);
                match r {
                    Ok(x) => {
                        m.insert(*s, x);
                    }
                    Err(e) => return canon_pairs(&Err(e)),
                }
            }
            canon_pairs(&Ok(m))
        }
        Call::MultiSource { weighted, target, first_only, with_paths, sources } => {
            // an absent source: no per-source reference (which error is reported first is the entry point's own
            // business); the call is still compared across pool sizes
            if sources.iter().any(|s| !g.has_node(s)) {
                return vec![];
            }
            let mut m = HashMap::new();
            for s in sources {
                match dijkstra::single_source(g, *weighted, *s, *target, None, *first_only, *with_paths) {
                    Ok(x) => {
                        m.insert(*s, x);
                    }
                    Err(e) => return canon_pairs(&Err(e)),
                }
            }
            canon_pairs(&Ok(m))
        }
        Call::Involving { weighted, node } => {
            if *weighted && !g.edges_have_weight() {
                return canon_infos(&[]);
            }
            let mut v = vec![];
            for s in &names {
                match dijkstra::single_source(g, *weighted, *s, None, None, false, true) {
                    Ok(x) => {
                        for (_, spi) in x {
                            if spi.contains_path_through_node(*node) {
                                v.push(spi);
                            }
                        }
                    }
                    // a per-source error (ContradictoryPaths on a negative weight) is all_pairs' error, which
                    // get_all_shortest_paths_involving maps to the empty vector
                    Err(_) => return canon_infos(&[]),
                }
            }
            canon_infos(&v)
        }
        // no public per-source API: the reference is the pool-size-1 run (serial path)
        Call::Betweenness { .. } | Call::Closeness { .. } => vec![],
    })
}

fn parse_call(t: &mut Toks) -> Option<Call> {
    match t.s() {
        "all_pairs" => {
            let weighted = t.i() != 0;
            let has_c = t.i() != 0;
            let cb = u64::from_str_radix(t.s().trim_start_matches('x'), 16).unwrap();
            let first_only = t.i() != 0;
            let with_paths = t.i() != 0;
            // optional trailing `1 <target>`
            let rest = t.rest_i();
            let target = if rest.len() == 2 && rest[0] == 1 { Some(rest[1]) } else { None };
            Some(Call::AllPairs { weighted, target, cutoff: if has_c { Some(f64::from_bits(cb)) } else { None }, first_only, with_paths })
        }
        "multi_source" => {
            let weighted = t.i() != 0;
            let first_only = t.i() != 0;
            let with_paths = t.i() != 0;
            // sources...; a trailing `-1 <target>` selects a target
            let mut sources = t.rest_i();
            let mut target = None;
            if sources.len() >= 2 && sources[sources.len() - 2] == -1 {
                target = Some(sources[sources.len() - 1]);
                sources.truncate(sources.len() - 2);
            }
            Some(Call::MultiSource { weighted, target, first_only, with_paths, sources })
        }
        "involving" => {
            let weighted = t.i() != 0;
            Some(Call::Involving { weighted, node: t.i() })
        }
        "betweenness" => {
            let weighted = t.i() != 0;
            Some(Call::Betweenness { weighted, normalized: t.i() != 0 })
        }
        "closeness" => {
            let weighted = t.i() != 0;
            Some(Call::Closeness { weighted, wf: t.i() != 0 })
        }
        _ => None,
    }
}

fn hammer(g: &G, weighted: bool, iters: u64, o: &mut Out) {
    let names: Vec<i64> = g.get_all_node_names().into_iter().cloned().collect();
    if names.is_empty() {
        o.obs(52, &[vec![0, 0, 0]], &[]);
        return;
    }
    // references computed single-threaded, before any concurrency
    let single = |s: i64| -> Vec<u64> {
        let r = dijkstra::single_source(g, weighted, s, None, None, false, true);
        let mut m = HashMap::new();
        match r {
            Ok(x) => {
                m.insert(s, x);
                canon_pairs(&Ok(m))
            }
            Err(e) => canon_pairs(&Err(e)),
        }
    };
    let edge_rows = |s: i64| -> Vec<u64> {
        let mut v: Vec<u64> = match g.get_edges_for_node(s) {
            Ok(es) => es.iter().map(|e| ((e.u as u64) << 32) ^ (e.v as u64) ^ e.weight.to_bits().rotate_left(7)).collect(),
            Err(_) => vec![u64::MAX],
        };
        v.sort();
        let mut succ: Vec<u64> = match g.get_successor_node_names(s) {
            Ok(x) => x.into_iter().map(|a| *a as u64).collect(),
            Err(_) => vec![u64::MAX],
        };
        succ.sort();
        v.push(u64::MAX - 1);
        v.extend(succ);
        v.push(g.number_of_edges() as u64);
        v.push(g.number_of_nodes() as u64);
        v
    };
    let ref_single: Vec<Vec<u64>> = names.iter().map(|s| single(*s)).collect();
    let ref_edges: Vec<Vec<u64>> = names.iter().map(|s| edge_rows(*s)).collect();
    let calls = vec![
        Call::AllPairs { weighted, target: None, cutoff: None, first_only: false, with_paths: true },
        Call::MultiSource { weighted, target: None, first_only: false, with_paths: true, sources: names.clone() },
        Call::Involving { weighted, node: names[0] },
        Call::Betweenness { weighted, normalized: true },
        Call::Closeness { weighted, wf: true },
    ];
    let p1 = pool(1);
    let ref_calls: Vec<Option<Vec<u64>>> = calls.iter().map(|c| p1.install(|| run_call(g, c))).collect();
    let stop = AtomicBool::new(false);
    let bad = AtomicU64::new(0);
    let done = AtomicU64::new(0);
    let mut main_bad = 0i64;
    std::thread::scope(|sc| {
        for tid in 0..8u64 {
            let (names, ref_single, ref_edges, stop, bad, done) = (&names, &ref_single, &ref_edges, &stop, &bad, &done);
            let single = &single;
            let edge_rows = &edge_rows;
            sc.spawn(move || {
                let mut x = 0x9E3779B97F4A7C15u64.wrapping_mul(tid + 1);
                let mut n = 0u64;
                while n < iters || !stop.load(Ordering::Relaxed) {
                    x ^= x << 13;
                    x ^= x >> 7;
                    x ^= x << 17;
                    let i = (x % names.len() as u64) as usize;
                    let ok = std::panic::catch_unwind(std::panic::AssertUnwindSafe(|| {
                        single(names[i]) == ref_single[i] && edge_rows(names[i]) == ref_edges[i]
                    }))
                    .unwrap_or(false);
                    if !ok {
                        bad.fetch_add(1, Ordering::Relaxed);
                    }
                    n += 1;
                    if n > iters * 50 {
                        break;
                    }
                }
                done.fetch_add(n, Ordering::Relaxed);
            });
        }
        let p4 = pool(4);
        for _ in 0..3 {
            for (c, r) in calls.iter().zip(ref_calls.iter()) {
                let got = p4.install(|| run_call(g, c));
                if &got != r {
                    main_bad += 1;
                }
            }
        }
        stop.store(true, Ordering::Relaxed);
    });
    o.obs(52, &[vec![bad.load(Ordering::Relaxed) as i64, main_bad, done.load(Ordering::Relaxed) as i64]], &[]);
}

pub fn run_case(lines: &[Vec<String>], o: &mut Out) {
    let mut g: Option<G> = None;
    let mut directed = true;
    let mut pools: Vec<usize> = vec![1, 2, 3, 4, 8, 16];
    let mut reps = 2usize;
    let mut summary: Vec<Vec<i64>> = vec![];
    let mut detail: Vec<Vec<i64>> = vec![];
    let mut any_call = false;
    for l in lines {
        let mut t = Toks::new(l);
        match t.s() {
            "graph" => {
                directed = t.i() != 0;
                let _n = t.i();
                g = Some(G::new(if directed {
                    GraphSpecs::directed_create_missing()
                } else {
                    GraphSpecs::undirected_create_missing()
                }));
            }
            "nodes" => {
                let gg = g.as_mut().unwrap();
                for x in t.rest_i() {
                    gg.add_node(Node::from_name(x));
                }
            }
            "e" => {
                let u = t.i();
                let v = t.i();
                let w = f64::from_bits(u64::from_str_radix(t.s().trim_start_matches('x'), 16).unwrap());
                let _ = g.as_mut().unwrap().add_edge(Edge::with_weight(u, v, w));
            }
            "pools" => {
                pools = t.rest_i().into_iter().map(|x| x as usize).collect();
            }
            "reps" => {
                reps = t.i() as usize;
            }
            "call" => {
                let gg = g.as_ref().unwrap();
                let mut t2 = Toks::new(&l[1..]);
                if l[1] == "hammer" {
                    let _ = t2.s();
                    let weighted = t2.i() != 0;
                    let iters = t2.i() as u64;
                    hammer(gg, weighted, iters, o);
                    continue;
                }
                let c = match parse_call(&mut t2) {
                    Some(c) => c,
                    None => panic!("unknown call {}", l[1]),
                };
                any_call = true;
                let id = fn_id(&c);
                let mut first: Option<Option<Vec<u64>>> = None;
                let (mut runs, mut mism) = (0i64, 0i64);
                for &k in &pools {
                    let p = pool(k);
                    for rep in 0..reps {
                        let r = p.install(|| run_call(gg, &c));
                        runs += 1;
                        match &first {
                            None => first = Some(r),
                            Some(f) => {
                                if *f != r {
                                    mism += 1;
                                    detail.push(vec![id, k as i64, rep as i64]);
                                }
                            }
                        }
                    }
                }
                // the global pool (whatever the process has), no install
                let r = run_call(gg, &c);
                runs += 1;
                if first.as_ref().map(|f| *f != r).unwrap_or(false) {
                    mism += 1;
                    detail.push(vec![id, 0, 0]);
                }
                // the serial reference from the per-source API
                let sr = serial_reference(gg, &c);
                if sr.as_ref().map(|v| !v.is_empty()).unwrap_or(true) {
                    runs += 1;
                    if first.as_ref().map(|f| *f != sr).unwrap_or(false) {
                        mism += 1;
                        detail.push(vec![id, -1, 0]);
                    }
                }
                let (len, h, panicked) = match first.as_ref().unwrap() {
                    Some(v) => (v.len() as i64, fnv(v), 0),
                    None => (0, 0, 1),
                };
                summary.push(vec![id, runs, mism, len, (h >> 32) as i64, (h & 0xffff_ffff) as i64, panicked]);
            }
            "probe" => {
                let k = t.u();
                let xs: Vec<i64> = t.rest_i();
                let order: Mutex<Vec<i64>> = Mutex::new(vec![]);
                let f = |x: i64| 3 * x + 1;
                let p = pool(k);
                // a Vec source ...
                let idx: Vec<usize> = (0..xs.len()).collect();
                let res: Vec<i64> = p.install(|| {
                    idx.into_par_iter()
                        .map(|i| {
                            order.lock().unwrap().push(i as i64);
                            std::thread::yield_now();
                            f(xs[i])
                        })
                        .collect()
                });
                let sched = order.lock().unwrap().clone();
                // ... and a Range source, same items
                let order2: Mutex<Vec<i64>> = Mutex::new(vec![]);
                let res2: Vec<i64> = p.install(|| {
                    (0..xs.len())
                        .into_par_iter()
                        .map(|i| {
                            order2.lock().unwrap().push(i as i64);
                            f(xs[i])
                        })
                        .collect()
                });
                let sched2 = order2.lock().unwrap().clone();
                o.obs(60, &[sched, sched2], &[]);
                o.obs(61, &[res, res2], &[]);
                o.obs(62, &[vec![1, 1]], &[]);
                // failing items: which panic does the region re-raise?
                let n = xs.len();
                let item = |i: usize| -> i64 {
                    let mut acc = 0u64;
                    for k in 0..((n - i) * 400) {
                        acc = acc.wrapping_add(k as u64 ^ acc);
                    }
                    std::hint::black_box(acc);
                    if xs[i] % 7 == 0 {
                        panic!("{}", i)
                    } else {
                        f(xs[i])
                    }
                };
                let payload = |r: std::thread::Result<Vec<i64>>| -> i64 {
                    match r {
                        Ok(_) => -1,
                        Err(e) => e
                            .downcast_ref::<String>()
                            .and_then(|s| s.parse::<i64>().ok())
                            .unwrap_or(-2),
                    }
                };
                let idx3: Vec<usize> = (0..n).collect();
                let k_vec = payload(std::panic::catch_unwind(std::panic::AssertUnwindSafe(|| {
                    p.install(|| idx3.into_par_iter().map(item).collect::<Vec<i64>>())
                })));
                let k_range = payload(std::panic::catch_unwind(std::panic::AssertUnwindSafe(|| {
                    p.install(|| (0..n).into_par_iter().map(item).collect::<Vec<i64>>())
                })));
                o.obs(63, &[vec![k_vec, k_range]], &[]);
                // items that RETURN an error, collected into Result<Vec<_>, E> (the region of all_pairs /
                // multi_source since the repair of F22): item i returns Err(i) iff xs[i] is divisible by 7, low
                // indices made slow.  Which error does rayon keep?  (-1: Ok, and then the vector must be map f xs)
                let item_r = |i: usize| -> Result<i64, i64> {
                    let mut acc = 0u64;
                    for k in 0..((n - i) * 400) {
                        acc = acc.wrapping_add(k as u64 ^ acc);
                    }
                    std::hint::black_box(acc);
                    if xs[i] % 7 == 0 {
                        Err(i as i64)
                    } else {
                        Ok(f(xs[i]))
                    }
                };
                let want: Vec<i64> = xs.iter().map(|x| f(*x)).collect();
                let kept = |r: Option<Result<Vec<i64>, i64>>| -> i64 {
                    match r {
                        Some(Ok(v)) => {
                            if v == want {
                                -1
                            } else {
                                -3
                            }
                        }
                        Some(Err(i)) => i,
                        None => -2,
                    }
                };
                let idx4: Vec<usize> = (0..n).collect();
                let e_vec = kept(guard(|| p.install(|| idx4.into_par_iter().map(item_r).collect::<Result<Vec<i64>, i64>>())));
                let e_range = kept(guard(|| p.install(|| (0..n).into_par_iter().map(item_r).collect::<Result<Vec<i64>, i64>>())));
                // the serial collect keeps the error of the lowest index
                let e_serial = kept(guard(|| (0..n).map(item_r).collect::<Result<Vec<i64>, i64>>()));
                o.obs(65, &[vec![e_vec, e_range, e_serial]], &[]);
                o.obs(64, &[vec![1, 1, 1]], &[]);
            }
            other => panic!("unknown par case line {}", other),
        }
    }
    if any_call {
        o.obs(50, &summary, &[]);
        o.obs(53, &detail, &[]);
    }
}
