//! Shortest paths (C04, C08): one graph built with `new_from_nodes_and_edges`, then a
//! list of calls of dijkstra::{single_source, multi_source, all_pairs,
//! get_all_shortest_paths_involving}.  Lines:
//!   spec d m s dd ms slf
//!   graph kn <nodes> ke <edges>
//!   call <fn> <weighted> <level> <nsrc> <src..> <tflag> <t> <cflag> <cnum> <cden> <fo> <wp>
//! Per call: outcome code (kind 1); when Ok the answer (kind 1040 single source, 1041
//! pairs, 1042 involving: one row per reported entry `key.. npaths {len nodes..}*` with the
//! paths sorted, the distances as reals) and kind 45 = 1 (the model side prints there the
//! verdict of the verified checkers on its own answer).  The harness always prints the
//! complete answer; `level` is only read by the driver (what is compared with the model).
use crate::hist::{edge_row, node_row, parse_edge, parse_node, parse_specs, Toks, E, G, Nd};
use crate::obs::*;
use graphrs::algorithms::shortest_path::{dijkstra, ShortestPathInfo};
use graphrs::GraphSpecs;
use std::collections::HashMap;
use std::sync::atomic::{AtomicBool, Ordering};
use std::sync::Arc;

/// set when a call did not return within the watchdog limit: the thread running it is
/// abandoned (still consuming CPU / memory), so the rest of the run is cut short
static HUNG: AtomicBool = AtomicBool::new(false);
pub fn hung() -> bool {
    HUNG.load(Ordering::SeqCst)
}
const LIMIT_MS: u64 = 6000;

/// Some(r): returned; None after recording code 100 (panic) or 101 (no answer in time)
fn watched<R: Send + 'static, F: FnOnce() -> R + Send + 'static>(o: &mut Out, f: F) -> Option<R> {
    match guard_t(LIMIT_MS, f) {
        Some(Some(r)) => Some(r),
        Some(None) => {
            o.obs(1, &[vec![PANIC]], &[]);
            None
        }
        None => {
            o.obs(1, &[vec![HANG]], &[]);
            HUNG.store(true, Ordering::SeqCst);
            None
        }
    }
}

fn info_row(key: &[i64], i: &ShortestPathInfo<i64>) -> Vec<i64> {
    let mut r = key.to_vec();
    r.push(i.paths.len() as i64);
    let mut ps = i.paths.clone();
    ps.sort();
    for p in ps {
        r.push(p.len() as i64);
        r.extend(p);
    }
    r
}

fn single_obs(m: &HashMap<i64, ShortestPathInfo<i64>>, o: &mut Out, f: f64) {
    let mut rows = vec![];
    let mut fl = vec![];
    for (k, i) in m {
        rows.push(info_row(&[*k], i));
        fl.push(i.distance / f);
    }
    o.obs(1040, &rows, &fl);
}

fn pairs_obs(m: &HashMap<i64, HashMap<i64, ShortestPathInfo<i64>>>, o: &mut Out, f: f64) {
    let mut rows = vec![];
    let mut fl = vec![];
    for (s, mm) in m {
        for (k, i) in mm {
            rows.push(info_row(&[*s, *k], i));
            fl.push(i.distance / f);
        }
    }
    o.obs(1041, &rows, &fl);
}

fn involving_obs(l: &[ShortestPathInfo<i64>], o: &mut Out, f: f64) {
    let mut rows = vec![];
    let mut fl = vec![];
    for i in l {
        let key = match i.paths.first() {
            Some(p) if !p.is_empty() => vec![p[0], p[p.len() - 1]],
            _ => vec![-1, -1],
        };
        rows.push(info_row(&key, i));
        fl.push(i.distance / f);
    }
    o.obs(1042, &rows, &fl);
}

fn call(g: &Arc<G>, t: &mut Toks, o: &mut Out) {
    let f = t.s().to_string();
    let weighted = t.i() != 0;
    let _level = t.i();
    let ns = t.u();
    let sources: Vec<i64> = (0..ns).map(|_| t.i()).collect();
    let tf = t.i();
    let tv = t.i();
    let target = if tf != 0 { Some(tv) } else { None };
    let cf = t.i();
    let cn = t.i();
    let cd = t.i();
    // distances of a weighted search carry the case's dyadic weight scale: the cutoff is scaled
    // with the weights and the reported distances are scaled back (exact, see obs::WSCALE)
    let sc = if weighted { wfactor() } else { 1.0 };
    let cutoff = if cf != 0 { Some(cn as f64 / cd as f64 * sc) } else { None };
    let fo = t.i() != 0;
    let wp = t.i() != 0;
    let g = g.clone();
    match f.as_str() {
        "single" => {
            let s0 = sources[0];
            if let Some(r) = watched(o, move || dijkstra::single_source(&*g, weighted, s0, target, cutoff, fo, wp)) {
                o.obs(1, &[vec![code_of(&r)]], &[]);
                if let Ok(m) = r {
                    single_obs(&m, o, sc);
                    o.obs(45, &[vec![1]], &[]);
                }
            }
        }
        "multi" => {
            if let Some(r) = watched(o, move || dijkstra::multi_source(&*g, weighted, sources, target, cutoff, fo, wp)) {
                o.obs(1, &[vec![code_of(&r)]], &[]);
                if let Ok(m) = r {
                    pairs_obs(&m, o, sc);
                    o.obs(45, &[vec![1]], &[]);
                }
            }
        }
        "all_pairs" => {
            if let Some(r) = watched(o, move || dijkstra::all_pairs(&*g, weighted, target, cutoff, fo, wp)) {
                o.obs(1, &[vec![code_of(&r)]], &[]);
                if let Ok(m) = r {
                    pairs_obs(&m, o, sc);
                    o.obs(45, &[vec![1]], &[]);
                }
            }
        }
        "pathcount" => {
            // all shortest paths to ONE far node (target given): how many, how many distinct, how many are real
            // paths of the graph of exactly the reported length (completeness beyond any fixed count)
            let s0 = sources[0];
            let tgt = target.unwrap_or(s0);
            let g2 = g.clone();
            let r = watched(o, move || dijkstra::single_source(&*g2, weighted, s0, None, None, false, true));
            match r {
                Some(Ok(m)) => match m.get(&tgt) {
                    Some(info) => {
                        let mut set = std::collections::HashSet::new();
                        let mut valid = 0i64;
                        for p in &info.paths {
                            set.insert(p.clone());
                            let mut len = 0.0;
                            let mut ok = p.first() == Some(&s0) && p.last() == Some(&tgt);
                            for w2 in p.windows(2) {
                                let ws: Vec<f64> = g.get_all_edges().iter()
                                    .filter(|e| (e.u == w2[0] && e.v == w2[1]) || (!g.specs.directed && e.u == w2[1] && e.v == w2[0]))
                                    .map(|e| if weighted { e.weight } else { 1.0 }).collect();
                                match ws.iter().cloned().fold(None, |a: Option<f64>, b| Some(a.map_or(b, |x| x.min(b)))) {
                                    Some(x) => len += x,
                                    None => ok = false,
                                }
                            }
                            if ok && len == info.distance {
                                valid += 1;
                            }
                        }
                        o.obs(5084, &[vec![info.paths.len() as i64, set.len() as i64, valid]], &[info.distance / sc]);
                    }
                    None => o.obs(5084, &[vec![-1, 0, 0]], &[]),
                },
                _ => o.obs(5084, &[vec![-2, 0, 0]], &[]),
            }
        }
        "cutsweep" => {
            // C08's cutoff clause on the implementation's OWN distances (no recomputation, so inexact weights are
            // fine): for every distance d the unrestricted search reports, the search with cutoff = d must return
            // exactly the entries with distance <= d, with the same distances (bit for bit)
            let s0 = sources[0];
            let g2 = g.clone();
            let base = watched(o, move || dijkstra::single_source(&*g2, weighted, s0, None, None, false, true));
            let mut checks = 0i64;
            let mut bad: Vec<Vec<i64>> = vec![];
            if let Some(Ok(m0)) = base {
                let mut ds: Vec<f64> = m0.values().map(|i| i.distance).collect();
                ds.sort_by(|a, b| a.partial_cmp(b).unwrap());
                ds.dedup();
                for d in ds {
                    for (fo2, wp2) in [(false, true), (false, false), (true, true)] {
                        let g3 = g.clone();
                        let r = watched(o, move || dijkstra::single_source(&*g3, weighted, s0, None, Some(d), fo2, wp2));
                        checks += 1;
                        let ok = match r {
                            Some(Ok(m)) => {
                                let want: Vec<(i64, u64)> = {
                                    let mut v: Vec<(i64, u64)> =
                                        m0.iter().filter(|(_, i)| i.distance <= d).map(|(k, i)| (*k, i.distance.to_bits())).collect();
                                    v.sort();
                                    v
                                };
                                let mut got: Vec<(i64, u64)> = m.iter().map(|(k, i)| (*k, i.distance.to_bits())).collect();
                                got.sort();
                                got == want
                            }
                            _ => false,
                        };
                        if !ok && bad.len() < 3 {
                            bad.push(vec![s0, d.to_bits() as i64, fo2 as i64, wp2 as i64]);
                        }
                    }
                }
                o.obs(5080, &[vec![checks, bad.len() as i64]], &[]);
                // the unrestricted distances themselves (compared with a recomputation to 1e-9: inexact weights)
                let mut dv: Vec<(i64, f64)> = m0.iter().map(|(k, i)| (*k, i.distance)).collect();
                dv.sort_by(|a, b| a.0.cmp(&b.0));
                o.obs(5082, &dv.iter().map(|x| vec![s0, x.0]).collect::<Vec<_>>(), &dv.iter().map(|x| x.1).collect::<Vec<_>>());
                if !bad.is_empty() {
                    o.obs(5081, &bad, &[]);
                }
            } else {
                o.obs(5080, &[vec![-1, 0]], &[]);
            }
        }
        "involving" => {
            let x = sources[0];
            if let Some(l) = watched(o, move || dijkstra::get_all_shortest_paths_involving(&*g, x, weighted)) {
                o.obs(1, &[vec![0]], &[]);
                involving_obs(&l, o, sc);
                o.obs(45, &[vec![1]], &[]);
            }
        }
        _ => {
            eprintln!("unknown sp call {}", f);
            std::process::exit(2);
        }
    }
}

fn code_of<X>(r: &Result<X, graphrs::Error>) -> i64 {
    match r {
        Ok(_) => 0,
        Err(e) => kind_code(&e.kind),
    }
}

pub fn run_case(lines: &[Vec<String>], o: &mut Out) {
    let mut specs = GraphSpecs::directed();
    let mut g: Option<Arc<G>> = None;
    for l in lines {
        let mut t = Toks::new(l);
        match t.s() {
            "spec" => specs = parse_specs(&mut t),
            "graph" => {
                let kn = t.u();
                let ns: Vec<Nd> = (0..kn).map(|_| parse_node(&mut t)).collect();
                let ke = t.u();
                let es: Vec<E> = (0..ke).map(|_| parse_edge(&mut t)).collect();
                let r = guard(|| G::new_from_nodes_and_edges(ns, es, specs.clone()));
                o.obs(1, &[vec![res_code(&r)]], &[]);
                match r {
                    Some(Ok(h)) => {
                        let rows: Vec<Vec<i64>> = h.get_all_nodes().iter().map(|n| node_row(n)).collect();
                        o.obs(2, &rows, &[]);
                        let rows: Vec<Vec<i64>> = h.get_all_edges().iter().map(|e| edge_row(e)).collect();
                        o.obs(1003, &rows, &[]);
                        // model side: the hypotheses of the Coq theorems hold for this graph.  The first flag
                        // (weighted reading: well-formed adjacency AND non-negative costs) is 0 exactly when a
                        // stored weight is negative - never generated, only the corpus witness of F22
                        let nonneg = h.get_all_edges().iter().all(|e| !(e.weight < 0.0));
                        o.obs(46, &[vec![nonneg as i64, 1, 1]], &[]);
                        g = Some(Arc::new(h));
                    }
                    _ => return,
                }
            }
            "call" => {
                if let Some(gr) = &g {
                    call(gr, &mut t, o);
                    if hung() {
                        return;
                    }
                }
            }
            other => {
                eprintln!("unknown sp line {}", other);
                std::process::exit(2);
            }
        }
    }
}
