#!/bin/sh
# Builds the framework from files on disk only (offline): Coq development (full .vo) and
# the correspondence harness (debug + release) against /repo's current working tree.
set -e
cd "$(dirname "$0")"
export CARGO_NET_OFFLINE=true
mkdir -p work evidence replays
[ -f harness/Cargo.lock ] || cp /repo/Cargo.lock harness/Cargo.lock
(cd harness && cargo build --offline -q 2>&1 | tail -3; cargo build --offline -q --release 2>&1 | tail -3)
cd coq
rm -f Makefile Makefile.conf
coq_makefile -f _CoqProject $(find theories -name '*.v' | sort) -o Makefile > /dev/null
timeout 3000 make -j16 2>&1 | grep -v '^COQ\|^make\|^CLEAN' | tail -20
echo "setup done"
