#!/usr/bin/env python3
"""Runs the repository's own test suite with the verification guard OFF and
checks it against /root/.vp/BASELINE.json (207 stable passes, 3 known failures)."""
import json, re, subprocess, sys, os
env = dict(os.environ, CARGO_NET_OFFLINE="true")
env.pop("RUSTFLAGS", None)
REPO_DIR = os.environ.get("REPO_DIR", "/repo")
p = subprocess.run(["cargo", "test", "--workspace", "--no-fail-fast", "--offline"], cwd=REPO_DIR,
                   stdout=subprocess.PIPE, stderr=subprocess.STDOUT, text=True, env=env)
out = p.stdout
cur = None
res = {}
for line in out.splitlines():
    m = re.match(r"\s*Running (unittests )?(\S+)", line)
    if m:
        path = m.group(2)
        cur = "graphrs" if "src/lib.rs" in path else "graphrs::" + os.path.basename(path).replace(".rs", "")
        continue
    if re.match(r"\s*Doc-tests", line):
        cur = "doc"
        continue
    m = re.match(r"test (\S+) \.\.\. (\w+)", line)
    if m and cur and cur != "doc":
        res[cur + "::" + m.group(1)] = m.group(2)
base = json.load(open("/root/.vp/BASELINE.json"))
missing = [t for t in base["stable_pass"] if res.get(t) != "ok"]
print("passed %d, stable baseline %d, baseline tests not passing: %d" % (
    sum(1 for v in res.values() if v == "ok"), len(base["stable_pass"]), len(missing)))
for t in missing[:20]:
    print("  NOT OK:", t, res.get(t))
sys.exit(1 if missing else 0)
