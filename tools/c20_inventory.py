#!/usr/bin/env python3
"""c20_inventory.py — prints the C20 inventory table of DESIGN.md section 0.10.11 (markdown) and checks
that it has exactly one row per public function found by p_api.scan_pub_fns().

status: FULL   = a pinned theorem gives C20's statement for every WF graph and every argument value
        PART   = a pinned theorem with a hypothesis C20's quantifier does not grant (named _partial)
        TYPE   = the model is a plain Coq function without the outcome type (or `if .. then Ok else Err`):
                 there is no Panic site and no fuel in it, nothing to prove
        SWEEP  = no Coq model of the function itself: covered by the API sweep only
"""
import sys, os
sys.path.insert(0, os.path.dirname(os.path.abspath(__file__)))

Q = "C20_every_query_total (Proofs/QueryTotal.v; WF g)"
ROWS = [
    # (function, module, Coq model, theorem(s) today (file; hypotheses), what C20 needs / what is stated, status, gap)
    ("new", "graph/creation.rs (+ edge.rs, adjacent_node.rs value constructors)", "Creation.new / mkedge", "WF_new (C01)", "value", "TYPE", "-"),
    ("add_node", "graph/creation.rs", "Creation.add_node", "C20_add_node_never_panics (WF g)", "Ok", "FULL", "-"),
    ("add_nodes", "graph/creation.rs", "Creation.add_nodes", "C01_history_from_new (every step of every history: no Panic, no fuel)", "Ok", "FULL", "-"),
    ("add_edge", "graph/creation.rs", "Creation.add_edge", "C20_add_edge_never_panics (WF g); error kinds C01_model_add_edge_refines, C01_error_kinds", "Ok / Err by policy", "FULL", "-"),
    ("add_edges", "graph/creation.rs", "Creation.add_edges", "C01_history_from_new, C01_batch_prefix", "Ok / Err by policy", "FULL", "-"),
    ("add_edge_tuple", "graph/creation.rs", "Creation.add_edge_tuples (one pair)", "C01_history_from_new (tuples reduce to add_edge)", "Ok / Err by policy", "FULL", "-"),
    ("add_edge_tuples", "graph/creation.rs", "Creation.add_edge_tuples", "C01_history_from_new", "Ok / Err by policy", "FULL", "-"),
    ("new_from_nodes_and_edges", "graph/creation.rs", "Creation.new_from_nodes_and_edges", "C19_constructor_no_panic (EVERY input, no hypothesis), C19_constructor_refines_spec", "Ok / Err by policy", "FULL", "-"),
    ("get_all_edges", "graph/query.rs", "Query.get_all_edges (list)", "-", "value", "TYPE", "-"),
    ("get_all_nodes", "graph/query.rs", "Query.get_all_nodes (list)", "-", "value", "TYPE", "-"),
    ("get_all_node_names", "graph/query.rs", "Query.get_all_node_names (list)", "-", "value", "TYPE", "-"),
    ("edges_have_weight", "graph/query.rs", "Query.edges_have_weight (bool)", "-", "value", "TYPE", "-"),
    ("number_of_nodes", "graph/query.rs", "Query.number_of_nodes (nat)", "-", "value", "TYPE", "-"),
    ("number_of_edges", "graph/query.rs", "Query.number_of_edges (nat)", "C09 counts", "value", "TYPE", "-"),
    ("size", "graph/query.rs", "Query.size_unweighted / size_weighted (weight; None = NaN)", "C09_size_weighted", "value", "TYPE", "binary64 sum not modelled beyond exact integers"),
    ("get_node_by_index", "graph/query.rs", "Query.get_node_by_index (option)", "-", "Some / None", "TYPE", "-"),
    ("get_successors_map", "graph/query.rs", "field successors g", "C02_successors_map", "value", "TYPE", "-"),
    ("get_predecessors_map", "graph/query.rs", "field predecessors g", "C02_predecessors_map", "value", "TYPE", "-"),
    ("get_node", "graph/query.rs", "Query.get_node", Q, "Some / None on absent", "FULL", "-"),
    ("has_node", "graph/query.rs", "Query.has_node", Q, "bool", "FULL", "-"),
    ("has_nodes", "graph/query.rs", "Query.has_nodes", Q, "bool", "FULL", "-"),
    ("get_edge", "graph/query.rs", "Query.get_edge", Q + ", C20_get_edge_never_panics, kinds C02_get_edge", "Ok / WrongMethod (multi) / NodeNotFound / EdgeNotFound", "FULL", "-"),
    ("get_edges", "graph/query.rs", "Query.get_edges", Q + ", C20_get_edges_never_panics", "Ok / WrongMethod (single) / NodeNotFound / EdgeNotFound", "FULL", "-"),
    ("get_edges_for_node", "graph/query.rs", "Query.get_edges_for_node", Q + ", C20_edges_for_node_absent", "Ok / NodeNotFound", "FULL", "-"),
    ("get_edges_for_nodes", "graph/query.rs", "Query.get_edges_for_nodes", Q, "Ok / NodeNotFound", "FULL", "-"),
    ("get_in_edges_for_node", "graph/query.rs", "Query.get_in_edges_for_node", Q + ", C20_in_edges_absent, C20_directed_only_queries_refuse", "Ok / WrongMethod (undirected) / NodeNotFound", "FULL", "-"),
    ("get_in_edges_for_nodes", "graph/query.rs", "Query.get_in_edges_for_nodes", Q, "Ok / WrongMethod / NodeNotFound", "FULL", "-"),
    ("get_out_edges_for_node", "graph/query.rs", "Query.get_out_edges_for_node", Q + ", C20_out_edges_absent, C20_directed_only_queries_refuse", "Ok / WrongMethod / NodeNotFound", "FULL", "-"),
    ("get_out_edges_for_nodes", "graph/query.rs", "Query.get_out_edges_for_nodes", Q, "Ok / WrongMethod / NodeNotFound", "FULL", "-"),
    ("get_neighbor_nodes", "graph/query.rs", "Query.get_neighbor_nodes", Q + ", C20_neighbor_nodes_existing", "Ok / NodeNotFound", "FULL", "-"),
    ("get_predecessor_nodes", "graph/query.rs", "Query.get_predecessor_nodes", Q + ", C20_directed_only_queries_refuse", "Ok / WrongMethod / NodeNotFound", "FULL", "-"),
    ("get_predecessor_node_names", "graph/query.rs", "Query.get_predecessor_node_names", Q, "Ok / WrongMethod / NodeNotFound", "FULL", "-"),
    ("get_successor_nodes", "graph/query.rs", "Query.get_successor_nodes", Q + ", C20_directed_only_queries_refuse", "Ok / WrongMethod / NodeNotFound", "FULL", "-"),
    ("get_successor_node_names", "graph/query.rs", "Query.get_successor_node_names", Q, "Ok / WrongMethod / NodeNotFound", "FULL", "-"),
    ("get_successors_or_neighbors", "graph/query.rs", "Query.get_successors_or_neighbors", "C20_successors_or_neighbors_existing (WF g, x a node)", "no channel: Ok on names that exist", "FULL", "-"),
    ("breadth_first_search", "graph/query.rs", "Query.breadth_first_search (fuel n+2, passed by the model)", "NEW C20_total_breadth_first_search <- C10_bfs_wf (WF g, x a node)", "no channel: Ok on names that exist, fuel suffices", "FULL", "-"),
    ("get_node_degree", "graph/degree.rs", "Query.get_node_degree", Q + ", C20_degree_absent, C20_degree_existing", "Some / None on absent", "FULL", "-"),
    ("get_node_in_degree", "graph/degree.rs", "Query.get_node_in_degree", Q, "Some / None (absent, undirected)", "FULL", "-"),
    ("get_node_out_degree", "graph/degree.rs", "Query.get_node_out_degree", Q, "Some / None", "FULL", "-"),
    ("get_node_weighted_degree", "graph/degree.rs", "Query.get_node_weighted_degree", Q, "Some / None", "FULL", "-"),
    ("get_node_weighted_in_degree", "graph/degree.rs", "Query.get_node_weighted_in_degree", Q, "Some / None", "FULL", "-"),
    ("get_node_weighted_out_degree", "graph/degree.rs", "Query.get_node_weighted_out_degree", Q, "Some / None", "FULL", "-"),
    ("get_degree_for_all_nodes", "graph/degree.rs", "Query.get_degree_for_all_nodes", "C20_degree_maps_total (WF g)", "Ok, one entry per node", "FULL", "-"),
    ("get_in_degree_for_all_nodes", "graph/degree.rs", "Query.get_in_degree_for_all_nodes", "C20_degree_maps_total", "Ok / WrongMethod (undirected)", "FULL", "-"),
    ("get_out_degree_for_all_nodes", "graph/degree.rs", "Query.get_out_degree_for_all_nodes", "C20_degree_maps_total", "Ok / WrongMethod", "FULL", "-"),
    ("get_weighted_degree_for_all_nodes", "graph/degree.rs", "Query.get_weighted_degree_for_all_nodes", "C20_degree_maps_total", "Ok", "FULL", "-"),
    ("get_weighted_in_degree_for_all_nodes", "graph/degree.rs", "Query.get_weighted_in_degree_for_all_nodes", "C20_degree_maps_total", "Ok / WrongMethod", "FULL", "-"),
    ("get_weighted_out_degree_for_all_nodes", "graph/degree.rs", "Query.get_weighted_out_degree_for_all_nodes", "C20_degree_maps_total", "Ok / WrongMethod", "FULL", "-"),
    ("get_density", "graph/density.rs", "Derived.get_density (option Q; None = inf/NaN of n(n-1) = 0)", "C09_density", "value (never a panic: f64 division)", "TYPE", "-"),
    ("get_sparse_adjacency_matrix", "graph/matrix.rs", "Derived.matrix_triplets", "C20_matrix_total (multi = false); NEW C20_total_get_sparse_adjacency_matrix (both kinds)", "Ok / WrongMethod (multi)", "FULL", "-"),
    ("get_subgraph", "graph/subgraph.rs", "Derived.get_subgraph", "C20_get_subgraph_never_panics (WF g, ANY name list)", "no channel: Ok", "FULL", "-"),
    ("reverse", "graph/convert.rs", "Derived.reverse", Q + ", C15_reverse_wrong_kind, C15_reverse_content", "Ok / WrongMethod (undirected)", "FULL", "-"),
    ("to_single_edges", "graph/convert.rs", "Derived.to_single_edges", Q + ", C15_to_single_edges_wrong_kind", "Ok / WrongMethod (single)", "FULL", "-"),
    ("set_all_edge_weights", "graph/convert.rs", "Derived.set_all_edge_weights", "C20_set_all_edge_weights_never_panics (WF g, any weight)", "no channel: Ok", "FULL", "-"),
    ("ensure_directed", "graph/ensure.rs", "Components.ensure_directed (if .. then Ok else Err WrongMethod)", "-", "Ok / WrongMethod", "TYPE", "-"),
    ("ensure_undirected", "graph/ensure.rs", "Components.ensure_undirected", "-", "Ok / WrongMethod", "TYPE", "-"),
    ("ensure_not_multi_edges", "graph/ensure.rs", "Components.ensure_not_multi_edges", "-", "Ok / WrongMethod", "TYPE", "-"),
    ("ensure_weighted", "graph/ensure.rs", "ClusterW.ensure_weighted / Dijkstra.ensure_weighted", "-", "Ok / EdgeWeightNotSpecified", "TYPE", "-"),
    ("directed", "graph_specs.rs", "Classic.specs_directed (a record)", "-", "value", "TYPE", "-"),
    ("undirected", "graph_specs.rs", "Classic.specs_undirected", "-", "value", "TYPE", "-"),
    ("multi_directed", "graph_specs.rs", "mkspecs literal", "-", "value", "TYPE", "-"),
    ("multi_undirected", "graph_specs.rs", "mkspecs literal", "-", "value", "TYPE", "-"),
    ("directed_create_missing", "graph_specs.rs", "Classic.with_create specs_directed", "-", "value", "TYPE", "-"),
    ("undirected_create_missing", "graph_specs.rs", "Classic.with_create specs_undirected", "-", "value", "TYPE", "-"),
    ("from_name", "node.rs", "mknode x None", "-", "value", "TYPE", "-"),
    ("from_name_and_attributes", "node.rs", "mknode x (Some a)", "-", "value", "TYPE", "-"),
    ("with_weight", "edge.rs", "mkedge u v (Some w) None", "-", "value", "TYPE", "-"),
    ("ordered", "edge.rs", "Creation.ordered", "-", "value", "TYPE", "-"),
    ("reversed", "edge.rs", "Creation.reversed", "-", "value", "TYPE", "-"),
    ("contains_path_through_node", "shortest_path/shortest_path_info.rs", "Dijkstra.contains_path_through_node (bool)", "-", "value", "TYPE", "-"),
    ("verif_snapshot", "graph/verif.rs (cfg graphrs_verif hook)", "- (it IS the observation of the twelve fields)", "-", "-", "SWEEP", "hook, not part of the released API"),
    ("single_source", "shortest_path/dijkstra.rs", "Dijkstra.single_source (fuel passed by the model)", "C20_single_source_never_panics, C20_single_source_error_kinds (WF g, small_adj g)", "Ok / NodeNotFound / ContradictoryPaths, fuel suffices", "FULL", "small_adj: < 2^31-1 adjacency entries (i32 counter), true up to 46340 nodes"),
    ("multi_source", "shortest_path/dijkstra.rs", "Dijkstra.multi_source", "C20_multi_source_never_panics, C20_multi_source_error_kinds", "Ok / NodeNotFound / ContradictoryPaths", "FULL", "small_adj"),
    ("all_pairs", "shortest_path/dijkstra.rs", "Dijkstra.all_pairs", "C20_all_pairs_never_panics, C20_all_pairs_error_kinds", "Ok / EdgeWeightNotSpecified / NodeNotFound / ContradictoryPaths", "FULL", "small_adj"),
    ("get_all_shortest_paths_involving", "shortest_path/dijkstra.rs", "Dijkstra.get_all_shortest_paths_involving", "C20_involving_never_panics, C20_involving_of_error", "no channel: Ok (absent name: empty)", "FULL", "small_adj"),
    ("degree_centrality", "centrality/degree.rs", "Derived.degree_centrality", "NEW C20_total_degree_centrality <- C09_degree_centrality (n >= 2) + n <= 1 by definition", "no channel: Ok, one entry per node", "FULL", "-"),
    ("betweenness_centrality", "centrality/betweenness.rs", "Brandes.betweenness_centrality (fuel n+1 / 2+|E|+n passed by the model)", "NEW C20_total_betweenness_centrality_partial <- C05_stage_bfs_total, DijkstraFuelOk.bdijkstra_total (any costs), WF -> adj_ok / one entry per neighbour", "Ok (the Result is never Err), fuel suffices", "PART", "weighted = true on a graph with an edge WITHOUT weight: model-domain site_nan (no NaN arithmetic in the model)"),
    ("closeness_centrality", "centrality/closeness.rs", "Closeness.closeness_centrality", "NEW C20_total_closeness_centrality_partial <- C06_bfs_total, sssp_weighted_total, reverse_content / reverse_WF; C06_closeness_reachable gives the VALUE for positive weights", "Ok, fuel suffices", "PART", "as betweenness: NaN weight with weighted = true"),
    ("eigenvector_centrality", "centrality/eigenvector.rs", "Eigen.eigenvector_centrality (fuel = max_iter itself)", "NEW C20_total_eigenvector_centrality <- C18_multi_refused, C18_update_in_key_order (spread total, keys kept), new: l1_change total, iterate total; ANY Num instance", "Ok / WrongMethod (multi) / PowerIterationFailedConvergence", "FULL", "-"),
    ("triangles", "cluster/mod.rs", "Cluster.triangles", "NEW C20_total_triangles <- C11_total_wf, C11_refuses_multi / _directed, has_nodes_spec", "Ok / WrongMethod (directed or multi) / NodeNotFound", "FULL", "-"),
    ("generalized_degree", "cluster/mod.rs", "Cluster.generalized_degree", "NEW C20_total_generalized_degree (same sources)", "Ok / WrongMethod / NodeNotFound", "FULL", "-"),
    ("transitivity", "cluster/mod.rs", "Cluster.transitivity", "NEW C20_total_transitivity", "Ok / WrongMethod", "FULL", "-"),
    ("clustering", "cluster/mod.rs", "Cluster.clustering (weighted = false), ClusterW.clustering_weighted (weighted = true)", "NEW C20_total_clustering (weighted = false: FULL); NEW C20_total_clustering_weighted_partial (weighted = true: the guards only)", "Ok / WrongMethod (multi) / NodeNotFound / EdgeWeightNotSpecified", "PART", "weighted = true, all edges weighted, names present: the numeric body is modelled only where f64::cbrt is exact (perfect cubes) and max weight <> 0 - model-domain Panic sites otherwise"),
    ("average_clustering", "cluster/mod.rs", "Cluster.average_clustering / ClusterW.average_clustering_weighted", "NEW C20_total_average_clustering (weighted = false: FULL, both count_zeros); weighted = true: C20_total_clustering_weighted_partial", "as clustering", "PART", "as clustering, weighted = true"),
    ("square_clustering", "cluster/square.rs", "Square.square_clustering", "NEW C20_total_square_clustering (EVERY kind of graph; C11_square_total_wf had undirected only)", "no channel: Ok on names that exist", "FULL", "-"),
    ("connected_components", "components/connectivity.rs", "Components.connected_components", "NEW C20_total_connected_components <- C10_connected_wf, C10_wrong_kind", "Ok / WrongMethod (directed)", "FULL", "-"),
    ("number_of_connected_components", "components/connectivity.rs", "Components.number_of_connected_components", "NEW C20_total_number_of_connected_components <- C10_count_wf", "Ok / WrongMethod", "FULL", "-"),
    ("node_connected_component", "components/connectivity.rs", "Components.node_connected_component", "NEW C20_total_node_connected_component <- C10_node_component_wf", "Ok / WrongMethod / NodeNotFound", "FULL", "-"),
    ("weakly_connected_components", "components/weak_connectivity.rs", "Components.weakly_connected_components", "NEW C20_total_weakly_connected_components <- C10_weak_wf", "Ok / WrongMethod (undirected)", "FULL", "-"),
    ("strongly_connected_components", "components/strong_connectivity.rs", "Scc.strongly_connected_components (neighbour order = oracle ord)", "NEW C20_total_strongly_connected_components <- C10_scc_wf (ord permutes each set)", "Ok / WrongMethod (undirected)", "FULL", "-"),
    ("bfs_equal_size_partitions", "components/weak_connectivity.rs", "Components.bfs_equal_size_partitions", "NEW C20_total_bfs_equal_size_partitions <- C10_equal_size_total_wf (k >= 1, C20's own quantifier)", "no channel: Ok", "FULL", "k = 0 is outside C20's quantifier"),
    ("is_partition", "community/partitions.rs", "Partition.is_partition", "NEW C20_total_is_partition <- is_partition_WF (ANY family of lists)", "bool", "FULL", "-"),
    ("modularity", "community/partitions.rs", "Partition.modularity", "NEW C20_modularity_outcomes (ANY weights: Ok / NotAPartition / the one model-domain site), NEW C20_total_modularity_partial (no negative weight: Ok / NotAPartition) <- C12 state theorems", "Ok / NotAPartition", "PART", "weighted = true with a negative weight such that the total weight is 0 while a community term is not: the code computes with inf, the exact model reports a model-domain site"),
    ("louvain_partitions", "community/louvain.rs", "Louvain.louvain_partitions (level fuel, sweep fuel, shuffle table = arguments of the model; first statement = the guard of F23)", "C20_louvain_negative_weights_rejected (EVERY state, fuel, table: weighted and a weight < 0 -> InvalidArgument); C20_total_louvain_partial (WF g; all edges weighted when weighted; resolution >= 0: InvalidArgument if a weight is negative, else Ok) <- Proofs/LouvainTotal.v (convert_graph, generate_graph, modularity on level graphs, level loop, convert_back never reach a Panic site) + C13_never_out_of_fuel machinery (level_total, LInv_step); C20_louvain_invalid_argument_iff; C20_total_louvain_nonnegative_weights (previous statement)", "Ok / InvalidArgument (negative weight, weighted), never hangs", "PART", "hypotheses C20 does not grant: weighted = true needs every edge weighted (a NaN weight passes the guard as in the code, then a model-domain site: no NaN arithmetic in the exact model), resolution >= 0 (a negative one returns in the evaluated example). Negative weights are no longer excluded (guard). Fuel: level > N, sweep >= N^N; shuffle oracle well formed"),
    ("louvain_communities", "community/louvain.rs", "Louvain.louvain_communities", "C20_louvain_negative_weights_rejected, C20_total_louvain_partial (InvalidArgument inherited from louvain_partitions; otherwise returns the last level: never NoPartitions)", "Ok / InvalidArgument", "PART", "as louvain_partitions"),
    ("complete_graph", "generators/classic.rs", "Classic.complete_graph", "NEW C20_total_complete_graph <- C16_generators_wf_total (EVERY i32 n)", "no channel: Ok, result WF", "FULL", "-"),
    ("karate_club_graph", "generators/social.rs", "Classic.karate_club_graph on the re-extracted literal", "NEW C20_total_karate_club_graph <- C16_karate_graph", "Ok, result WF", "FULL", "-"),
    ("fast_gnp_random_graph", "generators/random.rs", "Gnp.fast_gnp_random_graph (the seed's skips = the stream gaps, its length = the fuel)", "NEW C20_total_fast_gnp_random_graph <- C16_rejects_p, gnp_pairs_total, gnp_graph_ok + n < 0 (EVERY i32 n, EVERY f64 p)", "Ok / InvalidArgument, no Panic site; Ok once the stream has gnp_slots + 1 entries", "FULL", "gaps >= 0 is a property of the oracle (quotient of two non-positive logarithms)"),
    ("read_graphml_string", "readwrite/graphml.rs", "GraphML.read_events (EVERY quick-xml event sequence, EVERY parse oracle)", "NEW C20_total_read_graphml_string <- C19_total, C19_error_kinds, C19_ok_valid", "Ok (a WF graph) / ReadError / SelfLoopsFound / NodeNotFound / DuplicateEdge", "FULL", "quick-xml itself is outside the model"),
    ("write_graphml_string", "readwrite/graphml.rs", "GraphML.write_events (a function into event lists, no outcome type)", "NEW C20_total_write_graphml_string (its output is always readable without panic) <- C19_total; C14_roundtrip_reachable", "Ok", "FULL", "-"),
    ("read_graphml_file", "readwrite/graphml.rs", "- (std::fs::read_to_string + read_graphml_string)", "-", "Ok / ReadError", "SWEEP", "file I/O not modelled (C14 overwrite-longer-file probe)"),
    ("write_graphml_file", "readwrite/graphml.rs", "- (write_graphml_string + std::fs::write)", "-", "Ok / io::Error", "SWEEP", "file I/O not modelled"),
]


def table():
    out = ["| function | module (src/...) | Coq model | totality theorem today (hypotheses) | C20 needs | status | gap |",
           "|---|---|---|---|---|---|---|"]
    for r in ROWS:
        out.append("| `%s` | %s | %s | %s | %s | %s | %s |" % r)
    return "\n".join(out)


def counts():
    c = {}
    for r in ROWS:
        c[r[5]] = c.get(r[5], 0) + 1
    return c


if __name__ == "__main__":
    import p_api
    have = [r[0] for r in ROWS]
    assert len(have) == len(set(have)), "duplicate row"
    src = p_api.scan_pub_fns()
    missing, extra = sorted(src - set(have)), sorted(set(have) - src)
    if missing or extra:
        print("inventory does not match the source: missing %s extra %s" % (missing, extra))
        sys.exit(1)
    print(table())
    print()
    print("%d public functions: %s" % (len(ROWS), ", ".join("%s %d" % kv for kv in sorted(counts().items()))))
