"""Graph cases for the centrality family (C05 betweenness, C06 closeness, C18 eigenvector):
generator, the two serialisations (harness `cent` mode / Coq `RunGraph.gcase`), and the
*effective* simple weighted graph an edge list denotes under a GraphSpecs value (used by
the property oracles, which are written independently of the Coq model)."""
from fractions import Fraction

import hist

# spec tuple = (directed, multi, selfloops, dedupe 0 Err|1 KeepFirst|2 KeepLast, missing 0 Create|1 Err, slf 0 Err|1 Drop)


def gen_names(r, n):
    pool = r.shuffle([1, 3, 5, 7, 9, -2, 12, 4, 20, -7, 15, 6, 30, 31, 32, 33, 34, 35, 36, 37, 38, 39, 40, 41,
                      42, 43])
    return pool[:n]


def gen_graph(r, n, directed, multi, wmode, dense=False, allow_dups=True):
    """wmode: 'real' (all weights in {1,2,3}), 'nan' (all unweighted), 'mixed'.
    Returns (spec, nodes, edges)."""
    names = gen_names(r, n)
    selfloops = 0 if r.below(6) == 0 else 1
    dd = r.pick([0, 1, 2, 2, 1]) if not multi else r.pick([0, 1, 2])
    spec = (1 if directed else 0, 1 if multi else 0, selfloops, dd, 0, 1)
    # shape
    shape = r.below(10)
    m_max = {0: 0, 1: max(0, n - 1)}.get(shape, (3 * n if dense else 2 * n + 1))
    m = r.below(m_max + 1) if m_max else 0
    # listed nodes: usually all (so isolated nodes exist), sometimes a prefix (rest auto-created by edges)
    listed = names if r.below(4) else names[:r.below(n + 1)]
    used = list(listed)
    edges, pairs = [], []
    # disconnected: restrict edges to two blocks
    blocks = None
    if n >= 4 and r.below(4) == 0:
        k = 1 + r.below(n - 1)
        blocks = (names[:k], names[k:])
    for _ in range(m):
        if pairs and allow_dups and r.below(100) < (25 if (multi or dd != 0) else 0):
            u, v = r.pick(pairs)
            if r.below(3) == 0:
                u, v = v, u
        else:
            src = names if blocks is None else r.pick(blocks)
            u, v = r.pick(src), r.pick(src)
            if r.below(10) == 0:
                v = u
            tries = 0
            while dd == 0 and not multi and _same(directed, (u, v), pairs) and tries < 20:
                u, v = r.pick(src), r.pick(src)
                tries += 1
            if dd == 0 and not multi and _same(directed, (u, v), pairs):
                continue
        if wmode == "real":
            w = r.pick([1, 2, 3, 1, 2])
        elif wmode == "nan":
            w = None
        else:
            w = r.pick([None, 1, 2, 3])
        edges.append((u, v, w))
        pairs.append((u, v))
    if r.below(7) == 0 and edges:   # chain/cycle-like structured graphs: many equal-length ties
        edges = []
        ring = names[:]
        for i in range(len(ring) - (0 if r.below(2) else 1)):
            a, b = ring[i], ring[(i + 1) % len(ring)]
            edges.append((a, b, None if wmode == "nan" else 1))
        if n >= 4:
            edges.append((ring[0], ring[2], None if wmode == "nan" else 2))
            edges.append((ring[1], ring[3], None if wmode == "nan" else 2))
    return spec, list(listed), edges


def gadget_tie_then_improve(r, names):
    """a target first reached along two tied paths and later along a strictly shorter one (the branch of
    the weighted Brandes stage that must reset the path count), embedded among a few random extra edges"""
    s_, a, b_, c_, x, t = names[:6]
    w1 = r.pick([1, 1, 2])
    wa = r.pick([2, 3])
    wc = w1 + r.pick([0, 1])
    wx = max(1, (w1 + wa) - wc - r.pick([1, 1, 2]))
    if wc + wx >= w1 + wa:
        wx = 1
        wc = w1
    es = [(s_, a, w1), (s_, b_, w1), (a, x, wa), (b_, x, wa), (s_, c_, wc), (c_, x, wx), (x, t, r.pick([1, 2]))]
    es = r.shuffle(es) if r.below(2) else es
    for _ in range(r.below(3)):
        u, v = r.pick(names), r.pick(names)
        if u != v and not _same(True, (u, v), [(e[0], e[1]) for e in es]) and \
                not _same(True, (v, u), [(e[0], e[1]) for e in es]):
            es.append((u, v, 3))
    return es


def gadget_decrease_key(r, names):
    """a node discovered over a heavy edge and improved later, with a further node whose best route runs through it
    while its direct edge lies between the improved and the stale distance (weights up to 10): the search must
    re-queue the improved node"""
    s_, a, b_, c_ = names[:4]
    es = [(s_, a, 8 + r.below(3)), (s_, b_, 1), (b_, a, 1 + r.below(2)), (s_, c_, 5 + r.below(2)), (a, c_, 1)]
    for _ in range(r.below(3)):
        u, v = r.pick(names), r.pick(names)
        if u != v and not _same(True, (u, v), [(e[0], e[1]) for e in es]) and \
                not _same(True, (v, u), [(e[0], e[1]) for e in es]):
            es.append((u, v, 1 + r.below(10)))
    return es


def _same(directed, p, pairs):
    for q in pairs:
        if q == p or (not directed and q == (p[1], p[0])):
            return True
    return False


def h_wdiv(w, wdiv):
    """harness weight token; with wdiv != 1 the weight is w/wdiv (a dyadic rational, exact in binary64)
    passed as the bit pattern of the f64 (flag 2)"""
    if w is None or wdiv == 1:
        return hist.h_w(w)
    import struct
    bits = struct.unpack(">q", struct.pack(">d", float(Fraction(w, wdiv))))[0]
    return "2 %d" % bits


def to_harness_graph(c):
    wdiv = c.get("wdiv", 1)
    lines = (["wscale %d" % c["wscale"]] if c.get("wscale") else []) + [
             "spec %d %d %d %d %d %d" % tuple(c["spec"]),
             "nodes %d %s" % (len(c["nodes"]), " ".join(str(x) for x in c["nodes"])),
             "edges %d %s" % (len(c["edges"]),
                              " ".join("%d %d %s" % (u, v, h_wdiv(w, wdiv)) for u, v, w in c["edges"]))]
    if c.get("readd"):
        lines.append("readd %s" % " ".join(str(x) for x in c["readd"]))
    return lines


# dyadic weight scale: the harness multiplies every weight of the case by 2^k on input and divides the
# weight-valued observations by 2^k on output (exact in binary64), so a correct implementation yields the
# observations of the unscaled case bit for bit and the Coq model / the oracles run on the unscaled integers.
# k = -60: path-length differences far below f64::EPSILON (absolute-tolerance comparisons show);
# k = -3: all weights below 1 (clamps / max(1.0, .) normalisers show); k = -1: halves, so that the weights
# of a graph often SUM to its number of edges without being 1 (sum-based 'unit weight' shortcuts show);
# k = 40: large magnitudes.
WSCALES = [-60, -3, -1, 40]
BIGODD = 1 << 24     # weights 2^24 + {1,2,3}: exact in binary64, not representable in binary32


def weight_variant(r2, c, pct_scale=20, pct_big=8):
    """decorates a weighted case (drawn from the separate stream r2 so that the base cases stay the same)"""
    x = r2.below(100)
    if x < pct_scale:
        c["wscale"] = r2.pick(WSCALES)
    elif x < pct_scale + pct_big:
        c["edges"] = [(u, v, (w + BIGODD if w else w)) for (u, v, w) in c["edges"]]
    return c


def to_coq_graph(c):
    return "(mkgc %s %s [%s])" % (
        hist.coq_spec(c["spec"]), hist.zl(c["nodes"]),
        "; ".join("(%s, %s, %s)" % (hist.z(u), hist.z(v), hist.oz(w)) for u, v, w in c["edges"]))


def b(x):
    return "true" if x else "false"


def effective(c):
    """-> (ok, node list in creation order, {(u,v): weight or None}) : the simple graph stored by
    new_from_nodes_and_edges; for undirected graphs both orientations are present.
    ok=False when construction must fail (self-loop / duplicate under an Error policy)."""
    directed, multi, selfloops, dd, ms, slf = c["spec"]
    wdiv = c.get("wdiv", 1)
    nodes = []
    for x in c["nodes"]:
        if x not in nodes:
            nodes.append(x)
    w = {}
    for (u, v, wt) in c["edges"]:
        if wt is not None and wdiv != 1:
            wt = Fraction(wt, wdiv)
        if not selfloops and u == v:
            if slf == 0:
                return False, nodes, w
            continue
        if ms == 1 and (u not in nodes or v not in nodes):
            return False, nodes, w
        for x in (u, v):
            if x not in nodes:
                nodes.append(x)
        present = (u, v) in w
        if present and not multi:
            if dd == 0:
                return False, nodes, w
            if dd == 1:
                continue
            new = wt
        elif present:
            old = w[(u, v)]
            new = wt if (wt is not None and old is not None and wt < old) else old   # traversal keeps the lightest
        else:
            new = wt
        w[(u, v)] = new
        if not directed:
            w[(v, u)] = new
    return True, nodes, w


def shrink_graph(c):
    out = []
    es = c["edges"]
    for i in range(len(es)):
        d = dict(c)
        d["edges"] = es[:i] + es[i + 1:]
        out.append(d)
    ns = c["nodes"]
    for i in range(len(ns)):
        d = dict(c)
        d["nodes"] = ns[:i] + ns[i + 1:]
        out.append(d)
    for i, (u, v, wt) in enumerate(es):
        if wt not in (None, 1):
            d = dict(c)
            d["edges"] = es[:i] + [(u, v, 1)] + es[i + 1:]
            out.append(d)
    return out


def graph_from_json(j):
    c = {"spec": tuple(j["spec"]), "nodes": list(j["nodes"]),
         "edges": [(e[0], e[1], e[2]) for e in j["edges"]]}
    if j.get("wdiv", 1) != 1:
        c["wdiv"] = j["wdiv"]
        c["nomodel"] = True
    if j.get("wscale"):
        c["wscale"] = j["wscale"]
    if j.get("readd"):
        c["readd"] = list(j["readd"])
        c["nomodel"] = True
    return c


def close(impl, exact, tol=1e-9):
    import math
    if isinstance(impl, float) and (math.isnan(impl) or math.isinf(impl)):
        return False
    # relative to the exact value (absolute only at 0): values may be tiny (closeness over weights ~2^24)
    ex = Fraction(exact)
    return abs(Fraction(impl) - ex) <= Fraction(tol) * (abs(ex) if ex != 0 else 1)


def all_pairs(nodes, w, weighted):
    """exact all-pairs distances and numbers of shortest paths (node sequences) by
    Floyd-Warshall style relaxation on distances and a DP for the counts."""
    INF = None
    idx = {x: i for i, x in enumerate(nodes)}
    n = len(nodes)
    cost = {}
    for (u, v), wt in w.items():
        if u == v:
            continue
        cost[(idx[u], idx[v])] = Fraction(wt) if weighted else Fraction(1)
    d = [[INF] * n for _ in range(n)]
    for i in range(n):
        d[i][i] = Fraction(0)
    for (i, j), cst in cost.items():
        if d[i][j] is None or cst < d[i][j]:
            d[i][j] = cst
    for k in range(n):
        for i in range(n):
            if d[i][k] is None:
                continue
            for j in range(n):
                if d[k][j] is None:
                    continue
                nd = d[i][k] + d[k][j]
                if d[i][j] is None or nd < d[i][j]:
                    d[i][j] = nd
    # sigma[s][t]: number of shortest s-t paths, by increasing distance from s (positive costs)
    sig = [[0] * n for _ in range(n)]
    for s in range(n):
        order = sorted([t for t in range(n) if d[s][t] is not None], key=lambda t: d[s][t])
        sig[s][s] = 1
        for t in order:
            if t == s:
                continue
            tot = 0
            for (i, j), cst in cost.items():
                if j == t and d[s][i] is not None and d[s][i] + cst == d[s][t]:
                    tot += sig[s][i]
            sig[s][t] = tot
    return d, sig


# ---------------------------------------------------------------- large graphs (above 1024 nodes)
def _sssp_counts(adj, s, weighted):
    """Dijkstra from s over adj {u: [(v, cost)]} (cost 1 in hop-count mode): distances, numbers of shortest
    paths, predecessor lists and the settle order"""
    import heapq
    dist, sigma, pred, order = {s: 0}, {s: 1}, {s: []}, []
    done = set()
    heap = [(0, s)]
    while heap:
        d, u = heapq.heappop(heap)
        if u in done:
            continue
        done.add(u)
        order.append(u)
        for v, c in adj.get(u, ()):
            nd = d + (c if weighted else 1)
            if v not in dist or nd < dist[v]:
                dist[v], sigma[v], pred[v] = nd, sigma[u], [u]
                heapq.heappush(heap, (nd, v))
            elif nd == dist[v] and v not in done:
                sigma[v] += sigma[u]
                pred[v].append(u)
    return dist, sigma, pred, order


def _adj_of(nodes, w):
    adj = {}
    for (u, v), wt in w.items():
        if u != v:
            adj.setdefault(u, []).append((v, wt))
    return adj


def brandes_fast(nodes, w, weighted, directed, normalized):
    """betweenness by Brandes' algorithm in Python (integer costs, float dependencies): the definitional
    oracle for graphs too large for the exact all-pairs enumeration"""
    adj = _adj_of(nodes, w)
    bc = {x: 0.0 for x in nodes}
    for s in nodes:
        dist, sigma, pred, order = _sssp_counts(adj, s, weighted)
        delta = {x: 0.0 for x in order}
        for x in reversed(order):
            for p_ in pred[x]:
                delta[p_] += sigma[p_] / sigma[x] * (1.0 + delta[x])
            if x != s:
                bc[x] += delta[x]
    n = len(nodes)
    out = {}
    for x in nodes:
        if normalized:
            out[x] = bc[x] / ((n - 1) * (n - 2)) if n > 2 else bc[x]
        else:
            out[x] = bc[x] if directed else bc[x] / 2
    return out


def closeness_fast(nodes, w, weighted, wf):
    """closeness from INCOMING distances (search on the transposed adjacency), large graphs"""
    radj = {}
    for (u, v), wt in w.items():
        if u != v:
            radj.setdefault(v, []).append((u, wt))
    n = len(nodes)
    out = {}
    for x in nodes:
        dist, _, _, _ = _sssp_counts(radj, x, weighted)
        r_ = len(dist)
        tot = sum(dist.values())
        if r_ <= 1 or n <= 1:
            out[x] = 0.0
        else:
            val = (r_ - 1) / tot
            if wf:
                val *= (r_ - 1) / (n - 1)
            out[x] = val
    return out


def diamond_chain(r2, cid, k=70):
    """k two-way diamonds in series: 2^k equal-length shortest paths between the ends (path counts beyond 2^64)"""
    directed = r2.below(2)
    edges, names, cur, nxt = [], [0], 0, 1
    for _ in range(k):
        a, b, t = nxt, nxt + 1, nxt + 2
        nxt += 3
        names += [a, b, t]
        edges += [(cur, a, 1), (cur, b, 1), (a, t, 1), (b, t, 1)]
        cur = t
    return {"id": cid, "spec": (directed, 0, 1, 2, 0, 1), "nodes": names, "edges": edges, "nomodel": True}


def huge_case(r2, cid):
    """one graph above 1024 nodes (a size no other generator reaches): ring or path plus a few chords"""
    n = 1025 + r2.below(80)
    directed = r2.below(2)
    names = r2.shuffle(list(range(1, n + 1)))
    edges = [(names[j], names[j + 1], 1 + r2.below(3)) for j in range(n - 1)]
    if r2.below(2):
        edges.append((names[-1], names[0], 1 + r2.below(3)))
    for _ in range(20):
        a, b = r2.pick(names), r2.pick(names)
        if a != b:
            edges.append((a, b, 1 + r2.below(3)))
    return {"id": cid, "spec": (directed, 0, 1, 2, 0, 1), "nodes": names, "edges": edges, "nomodel": True}

