#!/usr/bin/env python3
"""coqdbg.py <file.v> <line> : compile the file truncated just before <line> and show the open goals"""
import sys, subprocess, os
f, line = sys.argv[1], int(sys.argv[2])
src = open(f).read().splitlines()
tmp = "/tmp/dbg_%d.v" % os.getpid()
open(tmp, "w").write("\n".join(src[:line - 1]) + "\nShow.\n")
p = subprocess.run(["coqc", "-Q", "/verif/coq/theories", "GV", tmp], stdout=subprocess.PIPE, stderr=subprocess.STDOUT, text=True)
out = p.stdout
n = int(sys.argv[3]) if len(sys.argv) > 3 else 120
print("\n".join(out.splitlines()[:n]))
for e in (".v", ".vo", ".glob", ".vok", ".vos"):
    try: os.remove(tmp[:-2] + e)
    except OSError: pass
