#!/bin/sh
# build and show the first error compactly: location + message without the hypothesis context
cd /verif/coq && make -j8 2>&1 | grep -v "^COQ\|^make" > /tmp/cq.out
if ! grep -q "^File" /tmp/cq.out; then echo "BUILD OK"; tail -3 /tmp/cq.out; exit 0; fi
grep -m1 "^File" /tmp/cq.out
awk '/^Error/{p=1} p' /tmp/cq.out | grep -v "^ *[A-Za-z0-9_'\'', ]* :\|^ *:= \| : " | tail -25
F=$(grep -m1 -o '"[^"]*"' /tmp/cq.out | tr -d '"'); L=$(grep -m1 -o 'line [0-9]*' /tmp/cq.out | cut -d' ' -f2)
[ -n "$F" ] && [ -n "$L" ] && sed -n "${L}p" "$F" < /dev/null
