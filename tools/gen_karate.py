#!/usr/bin/env python3
"""Extractor for C16: regenerates coq/theories/Gen/KarateData.v from the CURRENT
src/generators/social.rs of the graphrs tree the harness is built from.  Tokenizer level: the
adjacency literal is the longest string literal of the file; rows are its '\\n'-separated lines,
entries its ' '-separated tokens (exactly what the Rust code splits on); the node range bound is
the literal N of `(0..N)`; the specs are read from the GraphSpecs struct expression."""
import os
import re
import sys

sys.path.insert(0, os.path.dirname(os.path.abspath(__file__)))
import genlib  # noqa: E402


def extract(repo=None):
    path = os.path.join(repo or genlib.repo_path(), "src", "generators", "social.rs")
    info = {"rows": [], "clean": False, "bound": -1, "keep_last": False, "undirected": False,
            "source": path, "error": ""}
    try:
        toks = genlib.tokenize(open(path).read())
    except Exception as e:  # unreadable / untokenizable source: the theorem must fail, not the tool
        info["error"] = "cannot read %s: %s" % (path, e)
        return info
    strs = [t[1] for t in toks if t[0] == "str"]
    if strs:
        dat = max(strs, key=len)
        rows = [line.split(" ") for line in dat.split("\n")]
        info["rows"] = [[tok == "1" for tok in r] for r in rows]
        info["clean"] = all(tok in ("0", "1") for r in rows for tok in r)
    # (0..N)
    for i in range(len(toks) - 2):
        if toks[i][1] == "0" and toks[i + 1][1] == ".." and toks[i + 2][0] == "num":
            info["bound"] = int(re.match(r"[0-9_]+", toks[i + 2][1]).group(0).replace("_", "") or "-1")
            break
    ids = [t[1] for t in toks]
    for i in range(len(ids) - 3):
        if ids[i] == "edge_dedupe_strategy" and ids[i + 1] == ":":
            j = i + 2
            while j < len(ids) and ids[j] not in (",", "}"):
                j += 1
            info["keep_last"] = ids[j - 1] == "KeepLast"
        if ids[i] == ".." and ids[i + 1] == "GraphSpecs" and ids[i + 2] == "::":
            info["undirected"] = ids[i + 3] == "undirected"
    return info


def render(info):
    def b(x):
        return "true" if x else "false"
    rows = ";\n  ".join("[" + ";".join(b(x) for x in r) + "]" for r in info["rows"])
    return (
        "(* GENERATED on every ./check run by tools/gen_karate.py from\n"
        "   src/generators/social.rs of the graphrs tree the harness is built from.  Do not edit. *)\n"
        "From Coq Require Import List ZArith.\nImport ListNotations.\n\n"
        "(* the adjacency literal: one row per line, true iff the token is \"1\" *)\n"
        "Definition karate_rows : list (list bool) :=\n [%s].\n\n"
        "(* every token of the literal is \"0\" or \"1\" *)\n"
        "Definition karate_tokens_clean : bool := %s.\n"
        "(* N of the node range `(0..N)` *)\n"
        "Definition karate_node_bound : Z := (%d)%%Z.\n"
        "(* GraphSpecs { edge_dedupe_strategy: KeepLast, ..GraphSpecs::undirected() } *)\n"
        "Definition karate_spec_keep_last : bool := %s.\n"
        "Definition karate_spec_undirected : bool := %s.\n"
        % (rows, b(info["clean"]), info["bound"], b(info["keep_last"]), b(info["undirected"])))


def regenerate(repo=None):
    info = extract(repo)
    out = os.path.join(genlib.GEN_DIR, "KarateData.v")
    changed = genlib.write_if_changed(out, render(info))
    return out, changed, info


if __name__ == "__main__":
    out, changed, info = regenerate(sys.argv[1] if len(sys.argv) > 1 else None)
    print("%s: %d rows, bound %d, %s%s" % (out, len(info["rows"]), info["bound"],
                                           "changed" if changed else "unchanged",
                                           (" ERROR " + info["error"]) if info["error"] else ""))
