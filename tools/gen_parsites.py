#!/usr/bin/env python3
"""Extractor for C07: regenerates coq/theories/Gen/ParSites.v from the CURRENT source tree of the
graphrs crate the harness is built from (path of harness/Cargo.toml).

Tokenizer level (tools/genlib.py: comments and string contents never match; renaming variables or
reformatting does not change the result).  For the files that belong to the crate (module walk from
src/lib.rs; `#[cfg(test)]` modules are skipped) it records

 * every rayon call site — a method call `.into_par_iter() | .par_iter() | .par_iter_mut() |
   .par_bridge() | .par_<anything>()` — as a record {file; function; entry method; source kind;
   adaptor chain; sink; what is done with the result; does a closure of the chain touch shared
   mutable state}.  A chain that is returned from a helper function (all_pairs_par_iter) is followed
   to the call sites of that helper;
 * the node-count thresholds guarding the parallel path (`number_of_nodes() > K`);
 * crate-wide booleans no_unsafe / no_interior_mutability with the offending tokens.
"""
import os
import re
import sys

sys.path.insert(0, os.path.dirname(os.path.abspath(__file__)))
import genlib  # noqa: E402

PAR_RE = re.compile(r"^(into_par_iter|par_iter|par_iter_mut|par_bridge|par_[a-z0-9_]+)$")
SINKS = {"collect", "collect_into_vec", "collect_vec_list", "reduce", "reduce_with", "sum", "product", "for_each",
         "for_each_with", "for_each_init", "count", "min", "max", "min_by", "max_by", "min_by_key", "max_by_key",
         "any", "all", "find_any", "find_first", "find_last", "find_map_any", "find_map_first", "find_map_last",
         "position_any", "position_first", "position_last", "unzip", "unzip_into_vecs", "partition", "partition_map",
         "try_for_each", "try_for_each_with", "try_for_each_init", "try_reduce", "try_reduce_with", "extend",
         "par_extend", "drive", "drive_unindexed", "opt_len"}
INTERIOR = {"Mutex", "RwLock", "RefCell", "Cell", "UnsafeCell", "OnceCell", "OnceLock", "LazyLock", "Lazy",
            "thread_local", "Condvar", "SyncUnsafeCell"}
SHARED_IN_CLOSURE = {"lock", "try_lock", "borrow_mut", "get_mut", "fetch_add", "fetch_sub", "fetch_or", "fetch_and",
                     "fetch_max", "fetch_min", "fetch_update", "compare_exchange", "swap", "unsafe", "static"} | INTERIOR
OPEN, CLOSE = "([{", ")]}"


# ---------------------------------------------------------------------------------------
# crate files
# ---------------------------------------------------------------------------------------

def has_cfg_test_attr(toks, i):
    """is token i (the `mod` / `pub` keyword of an item) directly preceded by #[cfg(test)] ?"""
    j = i
    while j > 0 and toks[j - 1][1] in ("pub", ")", "crate", "(", "super", "in"):
        j -= 1
    # attributes end with ']'
    while j > 0 and toks[j - 1][1] == "]":
        k, depth = j - 1, 0
        while k >= 0:
            if toks[k][1] == "]":
                depth += 1
            elif toks[k][1] == "[":
                depth -= 1
                if depth == 0:
                    break
            k -= 1
        attr = [t[1] for t in toks[k:j]]
        if "cfg" in attr and "test" in attr and "not" not in attr:
            return True
        j = k - 1 if k > 0 and toks[k - 1][1] == "#" else k
    return False


def crate_files(repo):
    src = os.path.join(repo, "src")
    root = os.path.join(src, "lib.rs")
    if not os.path.exists(root):
        return genlib.rust_files(repo)
    seen, todo = [], [root]
    while todo:
        f = todo.pop()
        if f in seen or not os.path.exists(f):
            continue
        seen.append(f)
        toks = genlib.tokenize(open(f, errors="replace").read())
        base = os.path.basename(f)
        d = os.path.dirname(f) if base in ("lib.rs", "mod.rs", "main.rs") else os.path.join(os.path.dirname(f), base[:-3])
        for i, t in enumerate(toks):
            if t[1] == "mod" and t[0] == "id" and i + 2 < len(toks) and toks[i + 1][0] == "id" and toks[i + 2][1] == ";":
                if has_cfg_test_attr(toks, i):
                    continue
                name = toks[i + 1][1]
                for cand in (os.path.join(d, name + ".rs"), os.path.join(d, name, "mod.rs")):
                    if os.path.exists(cand):
                        todo.append(cand)
    return sorted(seen)


# ---------------------------------------------------------------------------------------
# token helpers
# ---------------------------------------------------------------------------------------

def match_fwd(toks, i):
    """i at an opening bracket -> index of the matching closing one"""
    depth = 0
    for j in range(i, len(toks)):
        t = toks[j][1]
        if toks[j][0] == "p" and t in OPEN:
            depth += 1
        elif toks[j][0] == "p" and t in CLOSE:
            depth -= 1
            if depth == 0:
                return j
    return len(toks) - 1


def match_back(toks, i):
    depth = 0
    for j in range(i, -1, -1):
        t = toks[j][1]
        if toks[j][0] == "p" and t in CLOSE:
            depth += 1
        elif toks[j][0] == "p" and t in OPEN:
            depth -= 1
            if depth == 0:
                return j
    return 0


def skip_turbofish(toks, i):
    """i just after a method name; if `::<...>` follows return (index after it, text) else (i, '')"""
    if i + 1 < len(toks) and toks[i][1] == "::" and toks[i + 1][1] == "<":
        depth, j = 0, i + 1
        while j < len(toks):
            if toks[j][1] == "<":
                depth += 1
            elif toks[j][1] == ">":
                depth -= 1
                if depth == 0:
                    break
            elif toks[j][1] == "->":
                pass
            j += 1
        return j + 1, "".join(t[1] for t in toks[i + 2:j])
    return i, ""


def turbofish_back(toks, i):
    """i at the '(' of a call; returns (index of the method/function name token, turbofish text)"""
    j = i - 1
    if toks[j][1] == ">":
        depth, k = 0, j
        while k >= 0:
            if toks[k][1] == ">":
                depth += 1
            elif toks[k][1] == "<":
                depth -= 1
                if depth == 0:
                    break
            k -= 1
        text = "".join(t[1] for t in toks[k + 1:j])
        if k >= 2 and toks[k - 1][1] == "::":
            return k - 2, text
        return k - 1, text
    return j, ""


def functions(toks):
    """[(name, body_start, body_end, is_pub)] for every fn with a body; cfg(test) inline modules skipped"""
    skip = []
    for i, t in enumerate(toks):
        if t[0] == "id" and t[1] == "mod" and i + 2 < len(toks) and toks[i + 2][1] == "{" and has_cfg_test_attr(toks, i):
            skip.append((i, match_fwd(toks, i + 2)))
    out = []
    for i, t in enumerate(toks):
        if t[0] == "id" and t[1] == "fn" and i + 1 < len(toks) and toks[i + 1][0] == "id":
            if any(a <= i <= b for a, b in skip):
                continue
            j, depth = i + 2, 0
            while j < len(toks):
                x = toks[j][1]
                if toks[j][0] == "p" and x in "([":
                    depth += 1
                elif toks[j][0] == "p" and x in ")]":
                    depth -= 1
                elif x == "{" and depth == 0:
                    break
                elif x == ";" and depth == 0:
                    j = None
                    break
                j += 1
            if j is None or j >= len(toks):
                continue
            k = i - 1
            is_pub = False
            while k >= 0 and toks[k][1] in ("pub", ")", "crate", "(", "const", "async", "unsafe", "extern", "super", "in"):
                if toks[k][1] == "pub":
                    is_pub = True
                k -= 1
            out.append((toks[i + 1][1], j, match_fwd(toks, j), is_pub, i))
    return out


def enclosing_fn(fns, i):
    best = None
    for f in fns:
        if f[1] <= i <= f[2] and (best is None or f[1] > best[1]):
            best = f
    return best


def enclosing_let(toks, k, lo):
    """nearest `let` whose statement contains token k (see the module doc of the design: a `;` at
    the current nesting level closes the statements before it; leaving a bracket re-opens)"""
    i, depth, blocked = k, 0, False
    while i > lo:
        i -= 1
        t = toks[i]
        if t[0] != "p" and not (t[0] == "id" and t[1] == "let"):
            continue
        x = t[1]
        if x in CLOSE and t[0] == "p":
            depth += 1
        elif x in OPEN and t[0] == "p":
            if depth == 0:
                blocked = False
            else:
                depth -= 1
        elif depth == 0:
            if x == ";":
                blocked = True
            elif x == "let" and not blocked:
                return i
    return None


def let_name_type(toks, i):
    """i at `let` -> (name, type text or '')"""
    j = i + 1
    if toks[j][1] == "mut":
        j += 1
    name = toks[j][1] if toks[j][0] == "id" else "?"
    ty = ""
    if toks[j + 1][1] == ":":
        k, depth, parts = j + 2, 0, []
        while k < len(toks):
            x = toks[k][1]
            if x in "<([":
                depth += 1
            elif x in ">)]":
                depth -= 1
            elif x == "=" and depth <= 0:
                break
            elif x == ";" and depth <= 0:
                break
            parts.append(x)
            k += 1
        ty = "".join(parts)
    return name, ty


def declared_type(toks, fn, name, before):
    """type text of a parameter / annotated let `name` of function fn, else ''"""
    fn_kw = fn[4]
    # parameters: between the '(' after the fn name (and generics) and its match
    j = fn_kw + 2
    if toks[j][1] == "<":
        depth = 0
        while j < len(toks):
            if toks[j][1] == "<":
                depth += 1
            elif toks[j][1] == ">":
                depth -= 1
                if depth == 0:
                    break
            j += 1
        j += 1
    if toks[j][1] == "(":
        end = match_fwd(toks, j)
        k = j + 1
        while k < end:
            if toks[k][0] == "id" and toks[k][1] == name and toks[k + 1][1] == ":":
                depth, parts, m = 0, [], k + 2
                while m < end:
                    x = toks[m][1]
                    if x in "<([":
                        depth += 1
                    elif x in ">)]":
                        depth -= 1
                    elif x == "," and depth <= 0:
                        break
                    parts.append(x)
                    m += 1
                return "".join(parts)
            k += 1
    for k in range(fn[1], before):
        if toks[k][0] == "id" and toks[k][1] == "let":
            nm, ty = let_name_type(toks, k)
            if nm == name and ty:
                return ty
    return ""


def classify_type(ty):
    t = ty.lstrip("&").replace("mut", "", 1) if ty.startswith("&mut") else ty.lstrip("&")
    if t.startswith("Vec<") or t == "Vec" or t.startswith("[") or t.startswith("Box<["):
        return ("vec", ty)
    if t.startswith("Range<") or t.startswith("RangeInclusive<") or t.startswith("std::ops::Range"):
        return ("range", ty)
    if re.match(r"(std::collections::)?(Hash|BTree|Int)(Map|Set)", t) or t.startswith("LinkedList") \
            or t.startswith("BinaryHeap") or t.startswith("VecDeque"):
        return ("unindexed", ty)
    return ("unknown", ty)


# ---------------------------------------------------------------------------------------
# sites
# ---------------------------------------------------------------------------------------

def source_kind(toks, fn, dot):
    """dot: index of the '.' before the entry method"""
    r = toks[dot - 1]
    if r[1] == ")":
        m = match_back(toks, dot - 1)
        prev = toks[m - 1]
        if prev[0] == "id" or prev[1] == ">":
            name_i, tf = turbofish_back(toks, m)
            meth = toks[name_i][1]
            if meth == "collect" and tf.startswith("Vec"):
                return ("vec", "collect::<%s>()" % tf)
            if meth in ("to_vec", "into_vec", "to_owned", "clone") and toks[name_i - 1][1] == ".":
                return ("unknown", meth + "()")
            if meth == "collect":
                return ("unknown", "collect::<%s>()" % tf)
            return ("unknown", meth + "(..)")
        inner = toks[m + 1:dot - 1]
        depth, has_range = 0, False
        for t in inner:
            if t[0] == "p" and t[1] in OPEN:
                depth += 1
            elif t[0] == "p" and t[1] in CLOSE:
                depth -= 1
            elif t[1] in ("..", "..=") and depth == 0:
                has_range = True
        if has_range:
            return ("range", "(a..b)")
        return ("unknown", "(expr)")
    if r[0] == "id":
        ty = declared_type(toks, fn, r[1], dot)
        if ty:
            return classify_type(ty)
        # `let name = <expr>;` without a type: look at the initialiser
        for k in range(dot - 1, fn[1], -1):
            if toks[k][0] == "id" and toks[k][1] == "let":
                nm, _ = let_name_type(toks, k)
                if nm != r[1]:
                    continue
                e = stmt_end(toks, fn, k)
                eq = k
                while eq < e and toks[eq][1] != "=":
                    eq += 1
                init = toks[eq + 1:e]
                if not init:
                    break
                if init[-1][1] == ")":
                    m = match_back(toks, e - 1)
                    name_i, tf = turbofish_back(toks, m)
                    meth = toks[name_i][1]
                    if meth == "collect" and tf.startswith("Vec"):
                        return ("vec", "collect::<%s>()" % tf)
                    if meth in ("new", "with_capacity") and toks[name_i - 1][1] == "::" and toks[name_i - 2][1] == "Vec":
                        return ("vec", "Vec::" + meth)
                    if m == eq + 1:      # a parenthesised expression
                        if any(t[1] in ("..", "..=") for t in init):
                            return ("range", "(a..b)")
                if init[0][1] == "vec" and init[1][1] == "!":
                    return ("vec", "vec![..]")
                depth, rng = 0, False
                for t in init:
                    if t[0] == "p" and t[1] in OPEN:
                        depth += 1
                    elif t[0] == "p" and t[1] in CLOSE:
                        depth -= 1
                    elif t[1] in ("..", "..=") and depth == 0:
                        rng = True
                if rng:
                    return ("range", "a..b")
                break
        return ("unknown", "untyped local")
    return ("unknown", r[1])


def parse_chain(toks, i):
    """i: index just after the ')' of a call.  Returns (methods[(name, turbofish, arg_lo, arg_hi)], next index)"""
    out = []
    while i + 2 < len(toks) and toks[i][1] == "." and toks[i + 1][0] == "id":
        name = toks[i + 1][1]
        j, tf = skip_turbofish(toks, i + 2)
        if toks[j][1] != "(":
            break
        e = match_fwd(toks, j)
        out.append((name, tf, j, e))
        i = e + 1
        if toks[i][1] == "?":
            i += 1
    return out, i


def closure_shared(toks, lo, hi):
    hits = []
    for t in toks[lo:hi + 1]:
        if t[0] == "id" and (t[1] in SHARED_IN_CLOSURE or re.match(r"^Atomic[A-Z]", t[1])):
            hits.append(t[1])
    return hits


def scope_end(toks, fn, name, after):
    """end of the region in which the local `name` bound just before `after` is visible: the closing
    bracket of its block, or a later `let name` that shadows it"""
    depth = 0
    for k in range(after, fn[2] + 1):
        x = toks[k]
        if x[0] == "p" and x[1] in OPEN:
            depth += 1
        elif x[0] == "p" and x[1] in CLOSE:
            depth -= 1
            if depth < 0:
                return k
        elif x[0] == "id" and x[1] == "let" and depth == 0:
            nm, _ = let_name_type(toks, k)
            if nm == name:
                return k
    return fn[2]


def stmt_end(toks, fn, li):
    """index of the ';' that ends the let statement starting at token li"""
    k, depth = li, 0
    while k < fn[2]:
        x = toks[k]
        if x[0] == "p" and x[1] in OPEN:
            depth += 1
        elif x[0] == "p" and x[1] in CLOSE:
            depth -= 1
        elif x[1] == ";" and depth == 0:
            break
        k += 1
    return k


def value_uses(toks, fn, pos, depth=0):
    """how the value of the expression containing token `pos` is consumed: through the let that
    binds it (possibly as the tail of nested blocks / match arms), or as the function's result"""
    li = enclosing_let(toks, pos, fn[1])
    if li is None:
        return ["returned"]
    var, _ = let_name_type(toks, li)
    return uses_of(toks, fn, var, stmt_end(toks, fn, li), depth) or ["unused"]


def uses_of(toks, fn, name, after, depth=0):
    """how a local vector is consumed after index `after`"""
    uses = []
    for k in range(after, scope_end(toks, fn, name, after)):
        if toks[k][0] == "id" and toks[k][1] == name and toks[k - 1][1] != "." and toks[k - 1][1] != "let" \
                and toks[k - 1][1] != "mut":
            prev, nxt = toks[k - 1][1], toks[k + 1][1]
            if prev == "in" and toks[k + 1][1] == "{":
                uses.append("seq_for")
            elif nxt == "." and toks[k + 2][0] == "id":
                m = toks[k + 2][1]
                if PAR_RE.match(m):
                    uses.append("par:" + m)
                elif m in ("into_iter", "iter", "len", "is_empty", "first", "last", "get"):
                    uses.append("seq_iter")
                else:
                    uses.append("method:" + m)
            elif nxt == "}" and k + 1 == fn[2]:
                uses.append("returned")
            elif nxt == "}" and prev in (";", "{", "=>") and depth < 4:
                # tail expression of a block / match arm: the value flows to whatever binds the block
                uses += value_uses(toks, fn, k, depth + 1)
            elif nxt in (",", "}") and prev == "=>" and depth < 4:
                uses += value_uses(toks, fn, k, depth + 1)
            elif prev in ("(", ",") and nxt in (")", ","):
                uses.append("passed")
            elif nxt == ":":
                pass      # a type ascription / struct field of the same name
            else:
                uses.append("other:" + prev + "_" + nxt)
    return uses


def finish_site(toks, fn, fns, rel, entry, src, chain_methods, end_i, via, files_toks, depth=0):
    """classify adaptors/sink/post for a chain; follow a returned / let-bound iterator"""
    adaptors, sink, shared = [], None, []
    for (name, tf, lo, hi) in chain_methods:
        if sink is None and name in SINKS:
            sink = (name, tf, lo, hi)
        elif sink is None:
            adaptors.append(name)
            shared += closure_shared(toks, lo, hi)
        # methods after the sink belong to the result's consumption (handled through `post`)
    rec = {"file": rel, "fn": fn[0], "entry": entry, "src": src, "adaptors": adaptors, "shared": sorted(set(shared)),
           "via": via, "line": toks[chain_methods[0][2]][2] if chain_methods else toks[end_i - 1][2]}
    if sink is None:
        # the iterator value itself flows on: bound by a let, or returned
        li = enclosing_let(toks, end_i, fn[1])
        var = None
        if li is not None and toks[end_i][1] == ";":
            var, _ = let_name_type(toks, li)
        returned = False
        conts = []
        if var:
            for k in range(end_i + 1, scope_end(toks, fn, var, end_i + 1)):
                if toks[k][0] == "id" and toks[k][1] == var and toks[k - 1][1] not in (".", "let"):
                    if toks[k + 1][1] == "." and toks[k + 2][0] == "id":
                        conts.append(k + 1)
                    elif toks[k + 1][1] == "}" and k + 1 == fn[2]:
                        returned = True
        elif toks[end_i][1] == "}" and end_i == fn[2]:
            returned = True
        out = []
        pre = [(m, "", 0, -1) for m in adaptors]
        for c in conts:
            more, e2 = parse_chain(toks, c)
            sub = finish_site(toks, fn, fns, rel, entry, src, pre + more, e2, via, files_toks, depth + 1)
            for r in sub:
                r["shared"] = sorted(set(r["shared"]) | set(rec["shared"]))
            out += sub
        if returned and depth < 3:
            # follow the helper to its call sites
            for rel2, (toks2, fns2) in files_toks.items():
                for k, t in enumerate(toks2):
                    if t[0] == "id" and t[1] == fn[0] and toks2[k + 1][1] == "(" and toks2[k - 1][1] != "fn":
                        f2 = enclosing_fn(fns2, k)
                        if f2 is None:
                            continue
                        e = match_fwd(toks2, k + 1)
                        more, e2 = parse_chain(toks2, e + 1)
                        sub = finish_site(toks2, f2, fns2, rel2, entry, src, pre + more, e2, fn[0], files_toks, depth + 1)
                        for r in sub:
                            r["shared"] = sorted(set(r["shared"]) | set(rec["shared"]))
                            if not more:
                                r["line"] = toks2[k][2]
                        out += sub
        if not out:
            rec.update({"sink": ("none", ""), "post": ["iterator escapes"]})
            out = [rec]
        return out
    name, tf, lo, hi = sink
    target = tf
    li = enclosing_let(toks, lo, fn[1])
    var, vty = (None, "")
    if li is not None:
        var, vty = let_name_type(toks, li)
    if name == "collect":
        if not target:
            target = vty
        if target.startswith("Vec<") or target == "Vec":
            kind = "collect_vec"
        elif re.match(r"^Result<Vec(<|,)", target):
            kind = "collect_result_vec"      # collect::<Result<Vec<_>, E>>() of Result items
        else:
            kind = "collect_other"
        rec["sink"] = (kind, target)
    else:
        rec["sink"] = ("other", name)
    # what happens to the gathered value
    if var:
        rec["post"] = uses_of(toks, fn, var, stmt_end(toks, fn, li)) or ["unused"]
    else:
        rec["post"] = ["returned"] if toks[hi + 1][1] == "}" and hi + 1 == fn[2] else ["expression"]
    return [rec]


def thresholds(toks, fns, consts):
    out = []
    for i, t in enumerate(toks):
        if t[0] == "id" and t[1] == "number_of_nodes" and toks[i + 1][1] == "(" and toks[i + 2][1] == ")" \
                and toks[i + 3][1] in (">", ">="):
            v = toks[i + 4]
            val = None
            if v[0] == "num":
                val = int(re.match(r"[0-9_]+", v[1]).group(0).replace("_", ""))
            elif v[0] == "id" and v[1] in consts:
                val = consts[v[1]]
            f = enclosing_fn(fns, i)
            if val is not None and f is not None:
                out.append((f[0], val + (0 if toks[i + 3][1] == ">" else -1)))
    return out


def extract(repo=None):
    repo = repo or genlib.repo_path()
    info = {"sites": [], "thresholds": [], "unsafe": [], "interior": [], "files": 0, "error": "", "callers": []}
    try:
        files = crate_files(repo)
        files_toks = {}
        for f in files:
            toks = genlib.tokenize(open(f, errors="replace").read())
            rel = os.path.relpath(f, os.path.join(repo, "src"))
            files_toks[rel] = (toks, functions(toks))
    except Exception as e:
        info["error"] = "cannot read the crate: %s" % e
        return info
    info["files"] = len(files_toks)
    for rel, (toks, fns) in sorted(files_toks.items()):
        consts = {}
        for i, t in enumerate(toks):
            if t[0] == "id" and t[1] in ("const", "static") and toks[i + 1][0] == "id" and toks[i + 2][1] == ":":
                k = i + 3
                while k < len(toks) and toks[k][1] not in ("=", ";"):
                    k += 1
                if toks[k][1] == "=" and toks[k + 1][0] == "num":
                    consts[toks[i + 1][1]] = int(re.match(r"[0-9_]+", toks[k + 1][1]).group(0).replace("_", ""))
            if t[0] == "id" and t[1] == "unsafe":
                info["unsafe"].append("%s:%d" % (rel, t[2]))
            if t[0] == "id" and (t[1] in INTERIOR or re.match(r"^Atomic[A-Z]", t[1])):
                info["interior"].append("%s:%d:%s" % (rel, t[2], t[1]))
            if t[0] == "id" and t[1] == "static" and toks[i + 1][1] == "mut":
                info["interior"].append("%s:%d:static mut" % (rel, t[2]))
        site_fns = set()
        for i, t in enumerate(toks):
            if t[0] == "id" and PAR_RE.match(t[1]) and i > 0 and toks[i - 1][1] == "." and \
                    toks[i + 1][1] in ("(", "::"):
                fn = enclosing_fn(fns, i)
                if fn is None:
                    continue
                j, _tf = skip_turbofish(toks, i + 1)
                e = match_fwd(toks, j)
                src = ("unindexed", "par_bridge") if t[1] == "par_bridge" else source_kind(toks, fn, i - 1)
                chain, end_i = parse_chain(toks, e + 1)
                for rec in finish_site(toks, fn, fns, rel, t[1], src, chain, end_i, "", files_toks):
                    rec.setdefault("line", t[2])
                    info["sites"].append(rec)
                    site_fns.add(rec["fn"])
            if t[0] == "id" and t[1] == "rayon" and toks[i + 1][1] == "::" and toks[i + 2][0] == "id" and \
                    toks[i + 2][1] in ("join", "join_context", "scope", "scope_fifo", "in_place_scope", "in_place_scope_fifo",
                                       "spawn", "spawn_fifo", "broadcast", "spawn_broadcast", "yield_now", "yield_local"):
                fn = enclosing_fn(fns, i)
                if fn is not None:
                    info["sites"].append({"file": rel, "fn": fn[0], "entry": "rayon::" + toks[i + 2][1],
                                          "src": ("unknown", "task parallelism"), "adaptors": [], "shared": [], "via": "",
                                          "line": t[2], "sink": ("none", ""), "post": ["task parallelism"]})
        info["thresholds"] += [(rel, f, v) for (f, v) in thresholds(toks, fns, consts)]
    info["sites"].sort(key=lambda r: (r["file"], r["fn"], r["entry"], r["line"]))
    # keep only the thresholds of functions that contain (or reach) a parallel site
    fnset = set(r["fn"] for r in info["sites"])
    info["thresholds"] = sorted(set((f, v) for (_, f, v) in info["thresholds"] if f in fnset))
    # functions of the crate that call a function with a parallel site (one level)
    callers = set()
    for rel, (toks, fns) in files_toks.items():
        for k, t in enumerate(toks):
            if t[0] == "id" and t[1] in fnset and toks[k + 1][1] == "(" and toks[k - 1][1] != "fn":
                f = enclosing_fn(fns, k)
                if f is not None and f[0] != t[1]:
                    callers.add((f[0], t[1]))
    info["callers"] = sorted(callers)
    return info


def render(info):
    q = genlib.coq_string

    def src(s):
        return {"range": "SrcRange", "vec": "SrcVec"}.get(s[0]) or \
            ("(SrcUnindexed %s)" % q(s[1]) if s[0] == "unindexed" else "(SrcUnknown %s)" % q(s[1]))

    def sink(s):
        if s[0] == "collect_vec":
            return "SinkCollectVec"
        if s[0] == "collect_result_vec":
            return "SinkCollectResultVec"
        if s[0] == "collect_other":
            return "(SinkCollectOther %s)" % q(s[1])
        if s[0] == "none":
            return "SinkNone"
        return "(SinkOther %s)" % q(s[1])

    def post(p):
        m = {"seq_for": "PostSeqFor", "seq_iter": "PostSeqIter", "returned": "PostReturned"}
        return "[" + "; ".join(m.get(x) or "(PostOther %s)" % q(x) for x in p) + "]"

    recs = []
    for r in info["sites"]:
        recs.append("  {| ps_file := %s; ps_fn := %s; ps_via := %s; ps_entry := %s;\n     ps_src := %s; "
                    "ps_adaptors := [%s]; ps_sink := %s;\n     ps_post := %s; ps_shared := [%s] |}"
                    % (q(r["file"]), q(r["fn"]), q(r["via"]), q(r["entry"]), src(r["src"]),
                       "; ".join(q(a) for a in r["adaptors"]), sink(r["sink"]), post(r["post"]),
                       "; ".join(q(a) for a in r["shared"])))
    return (
        "(* GENERATED on every ./check run by tools/gen_parsites.py from the src/ tree of the graphrs\n"
        "   crate the harness is built from.  Do not edit. *)\n"
        "From Coq Require Import String List ZArith.\nFrom GV Require Import Spec.ParSiteDef.\n"
        "Import ListNotations.\nOpen Scope string_scope.\n\n"
        "(* number of crate files scanned (module walk from lib.rs) *)\n"
        "Definition par_files_scanned : nat := %d.\n"
        "Definition par_extractor_error : string := %s.\n\n"
        "(* every rayon call site *)\nDefinition par_sites : list par_site :=\n [%s].\n\n"
        "(* node-count thresholds `number_of_nodes() > K` of the functions with a parallel path *)\n"
        "Definition par_thresholds : list (string * Z) := [%s].\n\n"
        "(* (caller, callee): crate functions calling a function that has a parallel site *)\n"
        "Definition par_callers : list (string * string) := [%s].\n\n"
        "(* crate-wide scans *)\n"
        "Definition unsafe_hits : list string := [%s].\n"
        "Definition interior_mutability_hits : list string := [%s].\n"
        % (info["files"], q(info["error"]), ";\n".join(recs),
           "; ".join("(%s, %d%%Z)" % (q(f), v) for (f, v) in info["thresholds"]),
           "; ".join("(%s, %s)" % (q(a), q(b)) for (a, b) in info["callers"]),
           "; ".join(q(x) for x in info["unsafe"]), "; ".join(q(x) for x in info["interior"])))


def regenerate(repo=None):
    info = extract(repo)
    out = os.path.join(genlib.GEN_DIR, "ParSites.v")
    changed = genlib.write_if_changed(out, render(info))
    return out, changed, info


if __name__ == "__main__":
    out, changed, info = regenerate(sys.argv[1] if len(sys.argv) > 1 and not sys.argv[1].startswith("-") else None)
    print("%s: %d files, %d sites, %s" % (out, info["files"], len(info["sites"]), "changed" if changed else "unchanged"))
    if "-v" in sys.argv:
        for r in info["sites"]:
            print(r)
        print(info["thresholds"], info["unsafe"], info["interior"])
