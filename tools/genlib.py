"""Shared helpers of the source extractors (tools/gen_*.py): where the Rust source tree is,
a Rust tokenizer that is good enough to skip comments / strings, and write-if-changed."""
import os
import re

ROOT = os.path.dirname(os.path.dirname(os.path.abspath(__file__)))
GEN_DIR = os.path.join(ROOT, "coq", "theories", "Gen")


def repo_path():
    """the graphrs tree the harness is built from (harness/Cargo.toml: graphrs = { path = "..." })"""
    txt = open(os.path.join(ROOT, "harness", "Cargo.toml")).read()
    m = re.search(r'^\s*graphrs\s*=\s*\{[^}]*\bpath\s*=\s*"([^"]+)"', txt, flags=re.M)
    return m.group(1) if m else "/repo"


def write_if_changed(path, text):
    os.makedirs(os.path.dirname(path), exist_ok=True)
    try:
        if open(path).read() == text:
            return False
    except OSError:
        pass
    with open(path, "w") as f:
        f.write(text)
    return True


def coq_string(s):
    return '"' + s.replace('"', '""') + '"'


# ---------------------------------------------------------------------------------------
# Rust tokenizer: identifiers, numbers, string/char literals (kept as one token with their
# decoded value), lifetimes, punctuation.  Comments (line, nested block, doc) are dropped.
# ---------------------------------------------------------------------------------------

def _decode_str(body):
    out, i = [], 0
    while i < len(body):
        c = body[i]
        if c == "\\" and i + 1 < len(body):
            d = body[i + 1]
            if d == "\n":                      # line continuation: skip the newline and leading blanks
                i += 2
                while i < len(body) and body[i] in " \t\r\n":
                    i += 1
                continue
            if d == "\r" and body[i + 2:i + 3] == "\n":
                i += 3
                while i < len(body) and body[i] in " \t\r\n":
                    i += 1
                continue
            m = {"n": "\n", "t": "\t", "r": "\r", "0": "\0", "\\": "\\", '"': '"', "'": "'"}
            if d in m:
                out.append(m[d])
                i += 2
                continue
            if d == "x":
                out.append(chr(int(body[i + 2:i + 4], 16)))
                i += 4
                continue
            if d == "u":
                j = body.index("}", i)
                out.append(chr(int(body[i + 3:j], 16)))
                i = j + 1
                continue
        out.append(c)
        i += 1
    return "".join(out)


def tokenize(src):
    """-> list of (kind, text, line); kind in {'id','num','str','char','life','p'}"""
    toks, i, n, line = [], 0, len(src), 1
    while i < n:
        c = src[i]
        if c == "\n":
            line += 1
            i += 1
        elif c in " \t\r":
            i += 1
        elif src.startswith("//", i):
            j = src.find("\n", i)
            i = n if j < 0 else j
        elif src.startswith("/*", i):
            depth, i = 1, i + 2
            while i < n and depth:
                if src.startswith("/*", i):
                    depth += 1
                    i += 2
                elif src.startswith("*/", i):
                    depth -= 1
                    i += 2
                else:
                    if src[i] == "\n":
                        line += 1
                    i += 1
        elif c == '"' or (c in "br" and re.match(r'b?r?#*"', src[i:i + 8]) and not re.match(r"[A-Za-z0-9_]", src[i - 1:i] or " ")):
            m = re.match(r'(b?)(r?)(#*)"', src[i:])
            raw, hashes = m.group(2) == "r", m.group(3)
            j = i + m.end()
            if raw:
                end = src.index('"' + hashes, j)
                body = src[j:end]
                val = body
                k = end + 1 + len(hashes)
            else:
                k = j
                while src[k] != '"':
                    k += 2 if src[k] == "\\" else 1
                body = src[j:k]
                val = _decode_str(body)
                k += 1
            toks.append(("str", val, line))
            line += src[i:k].count("\n")
            i = k
        elif c == "'":
            m = re.match(r"'(\\.[^']*|[^'\\])'", src[i:])
            if m:
                toks.append(("char", m.group(0), line))
                i += m.end()
            else:
                m = re.match(r"'[A-Za-z_][A-Za-z0-9_]*", src[i:])
                toks.append(("life", m.group(0) if m else "'", line))
                i += m.end() if m else 1
        elif c.isalpha() or c == "_":
            m = re.match(r"[A-Za-z_][A-Za-z0-9_]*", src[i:])
            toks.append(("id", m.group(0), line))
            i += m.end()
        elif c.isdigit():
            m = re.match(r"[0-9][0-9A-Za-z_]*(\.[0-9][0-9A-Za-z_]*)?", src[i:])
            toks.append(("num", m.group(0), line))
            i += m.end()
        else:
            two = src[i:i + 2]
            if two in ("::", "->", "=>", "..", "==", "!=", "<=", ">=", "&&", "||", "+=", "-=", "*=", "/="):
                toks.append(("p", two, line))
                i += 2
            else:
                toks.append(("p", c, line))
                i += 1
    return toks


def rust_files(repo=None):
    src = os.path.join(repo or repo_path(), "src")
    out = []
    for d, _, fs in os.walk(src):
        for f in sorted(fs):
            if f.endswith(".rs"):
                out.append(os.path.join(d, f))
    return sorted(out)
