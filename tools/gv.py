"""Shared machinery of the /verif checks: proof gate, harness build/run,
model evaluation inside Coq, observation diff, verdict and evidence."""
import hashlib
import json
import os
import re
import subprocess
import sys
import time
from concurrent.futures import ThreadPoolExecutor
from fractions import Fraction

ROOT = os.path.dirname(os.path.dirname(os.path.abspath(__file__)))
COQ = os.path.join(ROOT, "coq")
HARNESS = os.path.join(ROOT, "harness")
WORK = os.path.join(ROOT, "work")
REPO = "/repo"
ENV = dict(os.environ, CARGO_NET_OFFLINE="true")

ALLOWED_AXIOMS = {
    # stdlib-declared axioms that may appear under Reals-based theorems (C18, C11 cube root)
    "ClassicalDedekindReals.sig_forall_dec",
    "ClassicalDedekindReals.sig_not_dec",
    "FunctionalExtensionality.functional_extensionality_dep",
    "Classical_Prop.classic",
}
FORBIDDEN = re.compile(
    r"\b(Admitted|admit|Axiom|Axioms|Parameter|Parameters|Conjecture|Conjectures|"
    r"Unset\s+Guard|Unset\s+Positivity|Unset\s+Universe|bypass_check|type-in-type|"
    r"impredicative-set|Admit\s+Obligations)\b")

TRUSTED_BASE = [
    "Coq 8.16.1 kernel (coqc) incl. vm_compute; no native_compute",
    "hand-written Gallina model tied to /repo by the differential correspondence check (harness/ + tools/)",
    "Rust harness printers, Coq Run/ printers, Python diff (sorting of hash-ordered output, 1e-9 relative float tolerance)",
    "modelled not verified: IEEE-754 rounding, std HashMap/BinaryHeap, rayon indexed collect, quick-xml tokenizer, rand/ChaCha streams",
]


def sh(cmd, cwd=None, timeout=3600, env=None, check=False):
    p = subprocess.run(cmd, cwd=cwd, shell=isinstance(cmd, str), stdout=subprocess.PIPE,
                       stderr=subprocess.STDOUT, timeout=timeout, env=env or ENV, text=True,
                       errors="replace")
    if check and p.returncode != 0:
        raise RuntimeError("command failed: %s\n%s" % (cmd, p.stdout[-4000:]))
    return p.returncode, p.stdout


# --------------------------------------------------------------------------
# proof gate
# --------------------------------------------------------------------------

def coq_build(targets=None, timeout=3000):
    """full .vo build of the development (dependency driven, cached)."""
    if not os.path.exists(os.path.join(COQ, "Makefile")):
        vs = []
        for d, _, fs in os.walk(os.path.join(COQ, "theories")):
            for f in fs:
                if f.endswith(".v"):
                    vs.append(os.path.relpath(os.path.join(d, f), COQ))
        vs.sort()
        sh(["coq_makefile", "-f", "_CoqProject"] + vs + ["-o", "Makefile"], cwd=COQ, check=True)
    tg = " ".join(targets) if targets else ""
    rc, out = sh("timeout %d make -j16 %s" % (timeout, tg), cwd=COQ, timeout=timeout + 60)
    return rc, out


def regen_makefile():
    p = os.path.join(COQ, "Makefile")
    if os.path.exists(p):
        os.remove(p)


def forbidden_scan():
    bad = []
    for d, _, fs in os.walk(os.path.join(COQ, "theories")):
        for f in fs:
            if not f.endswith(".v"):
                continue
            path = os.path.join(d, f)
            txt = open(path, errors="replace").read()
            # strip comments (nested)
            out, depth, i = [], 0, 0
            while i < len(txt):
                if txt.startswith("(*", i):
                    depth += 1
                    i += 2
                elif txt.startswith("*)", i) and depth > 0:
                    depth -= 1
                    i += 2
                else:
                    if depth == 0:
                        out.append(txt[i])
                    i += 1
            code = "".join(out)
            for m in FORBIDDEN.finditer(code):
                bad.append("%s: %s" % (os.path.relpath(path, COQ), m.group(0)))
            # Variable / Hypothesis outside a Section
            depth = 0
            for line in code.splitlines():
                ls = line.strip()
                if re.match(r"^(Section|Module)\b", ls) and not re.match(r"^Module\s+\w+\s*:=", ls):
                    depth += 1
                elif re.match(r"^End\b", ls):
                    depth = max(0, depth - 1)
                elif depth == 0 and re.match(r"^(Variable|Variables|Hypothesis|Hypotheses|Context)\b", ls):
                    bad.append("%s: %s outside a section" % (os.path.relpath(path, COQ), ls.split()[0]))
    return bad


def proof_gate(prop, pins_file=None):
    """Returns dict(ok, obligations, discharged, failures[], axioms{}, log)."""
    res = {"ok": False, "obligations": 0, "discharged": 0, "failures": [], "axioms": {}, "log": ""}
    t0 = time.time()
    rc, out = coq_build()
    if rc != 0:
        # A file that belongs to ANOTHER property may be broken (e.g. a theorem re-proved on data
        # regenerated from the source, theories/Gen/*.v): that must fail that property's gate, not
        # this one.  Retry with just what this property needs: its pinned statements and the Run
        # modules (make -k: independent targets are still built).
        import glob as _glob
        runs = [os.path.relpath(p[:-2] + ".vo", COQ)
                for p in sorted(_glob.glob(os.path.join(COQ, "theories", "Run", "*.v")))]
        rc2, out2 = coq_build(targets=["-k", "theories/Properties/%s.vo" % prop] + runs)
        rc3, _ = sh("make -q theories/Properties/%s.vo" % prop, cwd=COQ, timeout=600)
        if rc3 == 0:
            rc, out = 0, out2
    res["log"] = out[-6000:]
    if rc != 0:
        # find the failing file
        m = re.findall(r'File "([^"]+)", line (\d+)', out)
        res["failures"].append("coq build failed" + (": %s line %s" % m[-1] if m else ""))
        res["build_failed"] = True
    bad = forbidden_scan()
    if bad:
        res["failures"].append("forbidden constructs: " + "; ".join(bad[:10]))
    pins = pins_file or os.path.join(COQ, "pins", prop + ".v")
    if not os.path.exists(pins):
        res["failures"].append("no pins file for " + prop)
        return res
    txt = open(pins).read()
    names = re.findall(r"^Print Assumptions\s+([\w.']+)\s*\.", txt, flags=re.M)
    res["obligations"] = len(names)
    wd = os.path.join(WORK, prop)
    os.makedirs(wd, exist_ok=True)
    # compile every pinned theorem separately so that one broken statement is named
    blocks = split_pins(txt)
    header = blocks[0]

    def one(idx_block):
        idx, (name, body) = idx_block
        fn = os.path.join(wd, "pin_%s_%d.v" % (prop, idx))
        open(fn, "w").write(header + "\n" + body + "\n")
        rc1, o1 = sh(["timeout", "600", "coqc", "-Q", os.path.join(COQ, "theories"), "GV",
                      "-w", "-notation-overridden", fn], cwd=wd, timeout=700)
        for ext in (".vo", ".vok", ".vos", ".glob"):
            try:
                os.remove(fn[:-2] + ext)
            except OSError:
                pass
        try:
            os.remove(os.path.join(wd, ".pin_%s_%d.aux" % (prop, idx)))
        except OSError:
            pass
        return name, rc1, o1

    with ThreadPoolExecutor(max_workers=16) as ex:
        outs = list(ex.map(one, enumerate(blocks[1:])))
    for name, rc1, o1 in outs:
        if rc1 != 0:
            res["failures"].append("theorem %s no longer checks: %s" % (name, o1.strip()[-400:]))
            continue
        if "Closed under the global context" in o1:
            ax = []
        else:
            ax = re.findall(r"^([\w.']+)\s*:", o1[o1.find("Axioms:") + len("Axioms:"):], flags=re.M) if "Axioms:" in o1 else None
        if ax is None:
            res["failures"].append("theorem %s: cannot read Print Assumptions output" % name)
            continue
        extra = [a for a in ax if a not in ALLOWED_AXIOMS]
        res["axioms"][name] = ax
        if extra:
            res["failures"].append("theorem %s depends on non-allow-listed axioms %s" % (name, extra))
        else:
            res["discharged"] += 1
    res["ok"] = not res["failures"] and res["discharged"] == res["obligations"] and res["obligations"] > 0
    res["wall_s"] = time.time() - t0
    return res


def coqchk(prop, timeout=1500):
    """thorough tier: re-check the property's compiled theorems (and everything they depend on) with
    Coq's independent checker and read the axioms / unsafe features it reports"""
    rc, out = sh(["timeout", str(timeout), "coqchk", "-o", "-silent", "-Q", "theories", "GV",
                  "GV.Properties." + prop], cwd=COQ, timeout=timeout + 60)
    res = {"ran": True, "ok": rc == 0, "axioms": [], "problems": []}
    m = re.search(r"\* Axioms:(.*?)\n\s*\n\* Constants/Inductives relying on type-in-type:(.*?)\n\s*\n"
                  r"\* Constants/Inductives relying on unsafe \(co\)fixpoints:(.*?)\n\s*\n"
                  r"\* Inductives whose positivity is assumed:(.*?)\n", out + "\n\n", flags=re.S)
    if rc != 0 or not m:
        res["ok"] = False
        res["problems"].append("coqchk failed or its summary could not be read: " + out[-500:])
        return res
    ax = [a.strip() for a in m.group(1).strip().splitlines() if a.strip() and a.strip() != "<none>"]
    res["axioms"] = ax
    for a in ax:
        if not any(a.endswith(k.split(".")[-1]) or k in a for k in ALLOWED_AXIOMS):
            res["problems"].append("coqchk reports an axiom outside the allow-list: " + a)
    for idx, what in ((2, "type-in-type"), (3, "unsafe fixpoints"), (4, "assumed positivity")):
        if m.group(idx).strip() != "<none>":
            res["problems"].append("coqchk reports %s: %s" % (what, m.group(idx).strip()[:200]))
    res["ok"] = not res["problems"]
    return res


def split_pins(txt):
    """pins file: header (Require lines) up to the first '(* PIN name *)' marker, then
    blocks 'Check name : stmt.  Print Assumptions name.'"""
    parts = re.split(r"^\(\* PIN ([\w.']+) \*\)\s*$", txt, flags=re.M)
    header = parts[0]
    blocks = [header]
    for i in range(1, len(parts), 2):
        blocks.append((parts[i], parts[i + 1]))
    return blocks


# --------------------------------------------------------------------------
# harness
# --------------------------------------------------------------------------

def harness_build(release=False, timeout=1800):
    lock = os.path.join(HARNESS, "Cargo.lock")
    if not os.path.exists(lock):
        import shutil
        shutil.copy(os.path.join(REPO, "Cargo.lock"), lock)
    cmd = ["cargo", "build", "--offline", "-q"] + (["--release"] if release else [])
    rc, out = sh(cmd, cwd=HARNESS, timeout=timeout)
    return rc, out


def harness_bin(release=False):
    return os.path.join(HARNESS, "target", "release" if release else "debug", "gvharness")


MAX_HANG_RESTARTS = 25


def _harness_limits():
    """resource limits of one harness process: a change that makes the library allocate without bound is
    stopped at 8 GB of address space instead of exhausting the machine"""
    import resource
    resource.setrlimit(resource.RLIMIT_AS, (8 << 30, 8 << 30))


STALL_LIMIT = 100        # seconds without a byte of output (the harness flushes after every case)
STALL_AGAIN = 40         # ... once a process of this run has been killed for it, and for small files (shrinking, replay)
MAX_STALLS = 3


def _run_watch(cmd, timeout, stall):
    """subprocess.run with two clocks: the wall-clock limit and a limit on the time WITHOUT OUTPUT. The harness
    flushes after every case, so a process that prints nothing for `stall` seconds is inside a call that does not
    return (modes without a per-call watchdog): it is killed then, not after the wall-clock limit.
    -> (rc, stdout, stderr, reason or None)"""
    import threading
    p = subprocess.Popen(cmd, stdout=subprocess.PIPE, stderr=subprocess.PIPE, env=ENV, preexec_fn=_harness_limits)
    bufs = {"o": [], "e": []}
    last = [time.time()]

    def rd(f, k):
        while True:
            chunk = f.read1(1 << 16)
            if not chunk:
                break
            bufs[k].append(chunk)
            last[0] = time.time()
    ths = [threading.Thread(target=rd, args=(p.stdout, "o"), daemon=True),
           threading.Thread(target=rd, args=(p.stderr, "e"), daemon=True)]
    for t in ths:
        t.start()
    t0, reason = time.time(), None
    while p.poll() is None:
        time.sleep(0.05)
        now = time.time()
        if now - t0 > timeout:
            reason = "harness killed after %d s" % timeout
        elif now - last[0] > stall:
            reason = "harness killed after %d s without output (a call does not return)" % stall
        if reason:
            p.kill()
            break
    p.wait()
    for t in ths:
        t.join(10)
    dec = lambda k: b"".join(bufs[k]).decode("utf-8", "replace")
    return (-9 if reason else p.returncode), dec("o"), dec("e"), reason


def _confirm_alone(mode, cases_file, block, release, extra):
    """one case in a fresh process -> (rc, its output) ; rc 0 only if the process ended normally with the case complete"""
    cf = cases_file + ".confirm"
    open(cf, "w").write(block + "\n")
    rc, out, _err, reason = _run_watch([harness_bin(release), mode, cf] + (extra or []), 600, STALL_AGAIN)
    if reason or rc != 0 or len(re.findall(r"^end$", out, flags=re.M)) != 1:
        return (rc if rc != 0 else -1), ""
    keep = re.findall(r"^case .*?^end$", out, flags=re.S | re.M)
    return 0, (keep[0] + "\n" if keep else "")


def harness_run(mode, cases_file, release=False, timeout=1800, extra=None):
    """runs the harness; exit status 3 means "a watchdog expired in the last case printed": the process
    is restarted on the remaining cases so that abandoned (spinning) threads do not accumulate"""
    all_out, all_err = [], []
    text = open(cases_file).read()
    blocks = re.findall(r"^case .*?^end$", text, flags=re.S | re.M)
    pending = blocks
    rounds = stalls = 0
    while True:
        rounds += 1
        cf = cases_file if rounds == 1 else cases_file + ".rest"
        if rounds > 1:
            open(cf, "w").write("\n".join(pending) + "\n")
        cmd = [harness_bin(release), mode, cf] + (extra or [])
        rc, out, err, reason = _run_watch(cmd, timeout, STALL_AGAIN if (stalls or len(blocks) <= 40) else STALL_LIMIT)
        if reason:
            err += "\n[driver] " + reason
            stalls += 1
        if rc in (0, 2, 3) or rounds > 2000:
            done = len(re.findall(r"^end$", out, flags=re.M))
            if rc == 3 and 0 < done <= len(pending):
                # a watchdog expired in the last case printed. Before that is believed the case is run once more, alone,
                # in a fresh process: on a loaded machine a call can exceed its time limit without hanging, and an alarm
                # must not depend on the load. A call that really does not return fails the second time as well.
                rc1, out1 = _confirm_alone(mode, cases_file, pending[done - 1], release, extra)
                if rc1 == 0:
                    blocks_out = re.findall(r"^case .*?^end$", out, flags=re.S | re.M)
                    out = "\n".join(blocks_out[:done - 1]) + ("\n" if done > 1 else "") + out1
                    err += "\n[driver] a watchdog expiry in case %s was not reproduced when the case ran alone\n" % pending[done - 1].split()[1]
            all_out.append(out)
            all_err.append(err)
            if rc != 3 or rounds > 2000:
                return rc, "".join(all_out), "".join(all_err)
            pending = pending[done:]
            if not pending:
                return 0, "".join(all_out), "".join(all_err)
            if rounds > MAX_HANG_RESTARTS:
                # every restart is one expired watchdog: with this many hangs the verdict is settled and the rest
                # of the sweep would only cost hours (each hanging call burns its full time limit)
                all_err.append("\n[driver] %d watchdog expiries: the remaining %d cases were not run\n"
                               % (rounds, len(pending)))
                return 0, "".join(all_out), "".join(all_err)
            continue
        # the process died (memory limit, abort, signal, wall-clock limit) inside one case: keep the complete
        # cases, report the interrupted one as "did not return" (outcome 101 + the exit status, kind 9) and go on
        done = len(re.findall(r"^end$", out, flags=re.M))
        keep = re.findall(r"^case .*?^end$", out, flags=re.S | re.M)
        all_out.append("\n".join(keep[:done]) + "\n")
        all_err.append(err)
        if done < len(pending):
            cid = pending[done].split()[1]
            rc1, out1 = _confirm_alone(mode, cases_file, pending[done], release, extra)
            if rc1 == 0:
                all_out.append(out1)
                all_err.append("\n[driver] the death of the harness in case %s (status %d) was not reproduced when the case ran alone\n" % (cid, rc))
                if reason:
                    stalls -= 1
            else:
                all_out.append("case %s\nO 1 1 1 101 F 0\nO 9 1 1 %d F 0\nend\n" % (cid, rc))
        pending = pending[done + 1:]
        if pending and stalls >= MAX_STALLS:
            # as MAX_HANG_RESTARTS: the verdict is settled, the rest would cost STALL_LIMIT seconds per hanging case
            all_err.append("\n[driver] %d processes killed for not returning: the remaining %d cases were not run\n"
                           % (stalls, len(pending)))
            return 0, "".join(all_out), "".join(all_err)
        if not pending:
            return 0, "".join(all_out), "".join(all_err)


def parse_harness(out):
    """-> {case_id: [ (kind, rows, floats) ]}"""
    res, cur, cid = {}, None, None
    for line in out.splitlines():
        t = line.split()
        if not t:
            continue
        if t[0] == "case":
            cid, cur = t[1], []
        elif t[0] == "end":
            res[cid] = cur
        elif t[0] == "O":
            kind, nrows = int(t[1]), int(t[2])
            i, rows = 3, []
            for _ in range(nrows):
                ln = int(t[i])
                rows.append([int(x) for x in t[i + 1:i + 1 + ln]])
                i += 1 + ln
            assert t[i] == "F", line
            nf = int(t[i + 1])
            fl = [dec_float(x) for x in t[i + 2:i + 2 + nf]]
            cur.append((kind, rows, fl))
    return res


def dec_float(tok):
    import struct
    if tok.startswith("x"):
        f = struct.unpack(">d", bytes.fromhex(tok[1:]))[0]
        return f
    return float(tok)


# --------------------------------------------------------------------------
# model evaluation inside Coq
# --------------------------------------------------------------------------

COQ_HEADER = """From Coq Require Import List ZArith QArith String.
From GV Require Import Base.Outcome Model.GState %s.
Import ListNotations.
Open Scope Z_scope.
Set Printing Depth 100000000.
Set Printing Width 100000.
"""


def coq_eval(run_module, terms, wd, tag="shard", shards=16, timeout=1500, run_fn="run"):
    """terms: list of (case_id, coq_term).  Returns ({case_id: [[int]]}, errors[])."""
    os.makedirs(wd, exist_ok=True)
    n = len(terms)
    if n == 0:
        return {}, []
    shards = max(1, min(shards, (n + 7) // 8))
    chunks = [terms[i::shards] for i in range(shards)]

    def one(ic):
        i, chunk = ic
        fn = os.path.join(wd, "%s_%d.v" % (tag, i))
        with open(fn, "w") as f:
            f.write(COQ_HEADER % run_module)
            for cid, term in chunk:
                f.write("Eval vm_compute in (%s (%s)).\n" % (run_fn, term))
        rc, out = sh(["timeout", str(timeout), "coqc", "-Q", os.path.join(COQ, "theories"), "GV",
                      "-w", "-notation-overridden", fn], cwd=wd, timeout=timeout + 60)
        for ext in (".vo", ".vok", ".vos", ".glob"):
            try:
                os.remove(fn[:-2] + ext)
            except OSError:
                pass
        try:
            os.remove(os.path.join(wd, ".%s_%d.aux" % (tag, i)))
        except OSError:
            pass
        return chunk, rc, out

    results, errors = {}, []
    with ThreadPoolExecutor(max_workers=16) as ex:
        for chunk, rc, out in ex.map(one, enumerate(chunks)):
            blocks = re.findall(r"=\s*(\[.*?\])\s*:\s*list \(list Z\)", out, flags=re.S)
            if rc != 0 or len(blocks) != len(chunk):
                errors.append("coqc rc=%d, %d/%d results: %s" % (rc, len(blocks), len(chunk), out[-600:]))
                continue
            for (cid, _), b in zip(chunk, blocks):
                b = re.sub(r"\s+", "", b).replace(";", ",")
                results[cid] = json.loads(b)
    return results, errors


def decode_model(rows):
    """inverse of Run/Obs.v enc_all -> [(kind, rows, [Fraction])]"""
    out, i = [], 0
    while i < len(rows):
        kind, nr, nf = rows[i]
        body = rows[i + 1:i + 1 + nr]
        i += 1 + nr
        fl = []
        if nf > 0:
            fr = rows[i]
            i += 1
            fl = [Fraction(fr[2 * k], fr[2 * k + 1]) for k in range(nf)]
        out.append((kind, body, fl))
    return out


# --------------------------------------------------------------------------
# diff
# --------------------------------------------------------------------------

def canon(obs):
    kind, rows, fl = obs
    if kind >= 1000:
        if fl and len(fl) == len(rows):
            pr = sorted(zip(rows, fl), key=lambda x: x[0])
            rows, fl = [p[0] for p in pr], [p[1] for p in pr]
        else:
            rows = sorted(rows)
    return kind, rows, fl


def float_close(impl, model, tol=1e-9):
    import math
    if isinstance(impl, float) and (math.isnan(impl) or math.isinf(impl)):
        return False
    a, b = Fraction(impl), Fraction(model)
    return abs(a - b) <= Fraction(tol) * max(1, abs(b))


def diff_case(impl_obs, model_obs):
    """returns None when equal, else a short description of the first difference"""
    if len(impl_obs) != len(model_obs):
        k = min(len(impl_obs), len(model_obs))
        for j in range(k):
            d = diff_one(impl_obs[j], model_obs[j])
            if d:
                return "obs #%d: %s" % (j, d)
        return "number of observations: impl %d model %d" % (len(impl_obs), len(model_obs))
    for j, (a, b) in enumerate(zip(impl_obs, model_obs)):
        d = diff_one(a, b)
        if d:
            return "obs #%d: %s" % (j, d)
    return None


def diff_one(a, b):
    a, b = canon(a), canon(b)
    if a[0] != b[0]:
        return "kind impl %d model %d (impl %s model %s)" % (a[0], b[0], a[1][:3], b[1][:3])
    if a[1] != b[1]:
        return "kind %d rows impl %s model %s" % (a[0], a[1], b[1])
    if len(a[2]) != len(b[2]):
        return "kind %d number of reals impl %d model %d" % (a[0], len(a[2]), len(b[2]))
    for x, y in zip(a[2], b[2]):
        if not float_close(x, y):
            return "kind %d real impl %r model %s" % (a[0], x, y)
    return None


HP = (1 << 63) - 1


def _mix(h, x):
    return (h * 1000003 + x + 12345) & HP


def digest(obs_list):
    """same polynomial hash as Run/Obs.v digest_all; returns (hash, [float lists])"""
    h, fl = 1, []
    for o in obs_list:
        k, rows, fs = canon(o)
        h = _mix(_mix(_mix(h, k), len(rows)), len(fs))
        for r in rows:
            h = _mix(h, len(r) + 7777)
            for x in r:
                h = _mix(h, x)
        if fs:
            fl.append(fs)
    return h, fl


def compare_digest(impl_obs, model_rows):
    """model_rows: output of run_digest.  None when they agree."""
    h, fl = digest(impl_obs)
    if model_rows[0][0] != h:
        return "integer content differs"
    mf = [[Fraction(r[2 * k], r[2 * k + 1]) for k in range(len(r) // 2)] for r in model_rows[1:]]
    if len(mf) != len(fl):
        return "number of real-valued observations differs"
    for a, b in zip(fl, mf):
        if len(a) != len(b):
            return "real-valued observation length differs"
        for x, y in zip(a, b):
            if not float_close(x, y):
                return "real impl %r model %s" % (x, y)
    return None


def correspond(run_module, cases, impl, wd, to_coq, shards=12):
    """cases: list of dicts with 'id'.  impl: {id: obs list}.  Two passes: digests for
    all cases, full printing for the ones that differ.  Returns (ndone, diffs[(case, descr)], errors)."""
    terms = [(c["id"], to_coq(c)) for c in cases]
    res, errs = coq_eval(run_module, terms, wd, tag="dg", shards=shards, run_fn="run_digest")
    bad = []
    for c in cases:
        if c["id"] not in res or c["id"] not in impl:
            continue
        d = compare_digest(impl[c["id"]], res[c["id"]])
        if d:
            bad.append(c)
    diffs = []
    if bad:
        full, errs2 = coq_eval(run_module, [(c["id"], to_coq(c)) for c in bad[:200]], wd, tag="full",
                               shards=shards, run_fn="run")
        errs += errs2
        for c in bad[:200]:
            if c["id"] in full:
                d = diff_case(impl[c["id"]], decode_model(full[c["id"]]))
                diffs.append((c, d or "digest differs but full comparison agrees (hash bug?)"))
            else:
                diffs.append((c, "digest differs; full model evaluation unavailable"))
        for c in bad[200:]:
            diffs.append((c, "digest differs"))
    return len(res), diffs, errs


# --------------------------------------------------------------------------
# evidence / verdict
# --------------------------------------------------------------------------

def load_known():
    p = os.path.join(ROOT, "known_findings.json")
    if os.path.exists(p):
        return json.load(open(p))
    return []


def write_replay(prop, payload):
    d = os.path.join(ROOT, "replays", prop)
    os.makedirs(d, exist_ok=True)
    s = json.dumps(payload, sort_keys=True, indent=1, default=str)
    h = hashlib.sha1(s.encode()).hexdigest()[:12]
    p = os.path.join(d, h + ".json")
    open(p, "w").write(s)
    return p


def write_evidence(prop, tier, seed, coverage, wall_s, violations, assumptions=None):
    os.makedirs(os.path.join(ROOT, "evidence"), exist_ok=True)
    ev = {
        "property_id": prop,
        "tier": tier,
        "seed": seed,
        "level": "proof",
        "coverage": coverage,
        "assumptions": assumptions or [],
        "wall_s": round(wall_s, 2),
        "violations": violations,
    }
    json.dump(ev, open(os.path.join(ROOT, "evidence", prop + ".json"), "w"), indent=1, default=str)


class SplitMix:
    """single PRNG all generators draw from (deterministic for a seed)"""

    def __init__(self, seed):
        self.s = (seed * 0x9E3779B97F4A7C15 + 0x1234567) & 0xFFFFFFFFFFFFFFFF

    def next(self):
        self.s = (self.s + 0x9E3779B97F4A7C15) & 0xFFFFFFFFFFFFFFFF
        z = self.s
        z = ((z ^ (z >> 30)) * 0xBF58476D1CE4E5B9) & 0xFFFFFFFFFFFFFFFF
        z = ((z ^ (z >> 27)) * 0x94D049BB133111EB) & 0xFFFFFFFFFFFFFFFF
        return z ^ (z >> 31)

    def below(self, n):
        return self.next() % n

    def chance(self, num, den):
        return self.below(den) < num

    def pick(self, l):
        return l[self.below(len(l))]

    def shuffle(self, l):
        l = list(l)
        for i in range(len(l) - 1, 0, -1):
            j = self.below(i + 1)
            l[i], l[j] = l[j], l[i]
        return l
