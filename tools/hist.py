"""Histories of mutation calls + read queries on Graph<i64,i64>: generator and the
two serialisations (harness line protocol, Coq term of type RunHist.hcase)."""
from gv import SplitMix

ALL_SPECS = [(d, m, s, dd, ms, slf) for d in (0, 1) for m in (0, 1) for s in (0, 1)
             for dd in (0, 1, 2) for ms in (0, 1) for slf in (0, 1)]


def z(x):
    return "(%d)" % x


def zl(xs):
    return "[" + "; ".join(z(x) for x in xs) + "]"


def oz(a):
    return "None" if a is None else "(Some %s)" % z(a)


def coq_spec(sp):
    d, m, s, dd, ms, slf = sp
    return "(mkspecs %s %s %s %s %s %s)" % (
        "true" if d else "false", ["DErr", "DKeepFirst", "DKeepLast"][dd], ["MCreate", "MErr"][ms],
        "true" if m else "false", "true" if s else "false", ["SErr", "SDrop"][slf])


def coq_node(n):
    return "(N_ %s %s)" % (z(n[0]), oz(n[1]))


def coq_edge(e):
    return "(E_ %s %s %s %s)" % (z(e[0]), z(e[1]), oz(e[2]), oz(e[3]))


def h_node(n):
    return "%d %d %d" % (n[0], 0 if n[1] is None else 1, n[1] or 0)


def h_w(w):
    if isinstance(w, float):
        import struct
        return "2 %d" % struct.unpack(">q", struct.pack(">d", w))[0]
    return "0 0" if w is None else "1 %d" % w


def h_edge(e):
    return "%d %d %s %d %d" % (e[0], e[1], h_w(e[2]), 0 if e[3] is None else 1, e[3] or 0)


Q1 = {  # one-name queries: harness name -> Coq constructor
    "get_edges_for_node": "QEdgesForNode", "get_in_edges_for_node": "QInEdgesForNode",
    "get_out_edges_for_node": "QOutEdgesForNode", "get_neighbor_nodes": "QNeighborNodes",
    "get_node": "QGetNode", "get_predecessor_nodes": "QPredNodes",
    "get_predecessor_node_names": "QPredNames", "get_successor_nodes": "QSuccNodes",
    "get_successor_node_names": "QSuccNames", "get_successors_or_neighbors": "QSuccOrNeigh",
    "has_node": "QHasNode", "breadth_first_search": "QBfs",
    "get_node_degree": "QDegree", "get_node_in_degree": "QInDegree", "get_node_out_degree": "QOutDegree",
    "get_node_weighted_degree": "QWDegree", "get_node_weighted_in_degree": "QWInDegree",
    "get_node_weighted_out_degree": "QWOutDegree", "get_node_by_index": "QNodeByIndex",
}
Q2 = {"get_edge": "QGetEdge", "get_edges": "QGetEdges"}
QL = {"get_edges_for_nodes": "QEdgesForNodes", "get_in_edges_for_nodes": "QInEdgesForNodes",
      "get_out_edges_for_nodes": "QOutEdgesForNodes", "has_nodes": "QHasNodes", "get_subgraph": "QSubgraph"}
Q0 = {"counts": "QCounts", "get_all_node_names": "QAllNames", "all_degrees": "QAllDegrees",
      "density": "QDensity", "degree_centrality": "QDegreeCentrality", "matrix": "QMatrix",
      "reverse": "QReverse", "to_single_edges": "QToSingle"}


def coq_op(op):
    k = op[0]
    if k == "add_node":
        return "MAddNode %s" % coq_node(op[1])
    if k == "add_nodes":
        return "MAddNodes [%s]" % "; ".join(coq_node(n) for n in op[1])
    if k == "add_edge":
        return "MAddEdge %s" % coq_edge(op[1])
    if k == "add_edge_tuple":
        return "MAddEdgeTuple %s %s" % (z(op[1][0]), z(op[1][1]))
    if k == "add_edges":
        return "MAddEdges [%s]" % "; ".join(coq_edge(e) for e in op[1])
    if k == "add_edge_tuples":
        return "MAddEdgeTuples [%s]" % "; ".join("(%s, %s)" % (z(a), z(b)) for a, b in op[1])
    if k == "new_from":
        return "MNewFrom [%s] [%s]" % ("; ".join(coq_node(n) for n in op[1][0]),
                                       "; ".join(coq_edge(e) for e in op[1][1]))
    if k == "snap":
        return "MSnap"
    if k == "view":
        return "MView"
    if k == "q":
        q, a = op[1], op[2]
        if q in Q1:
            return "MQ (%s %s)" % (Q1[q], z(a[0]))
        if q in Q2:
            return "MQ (%s %s %s)" % (Q2[q], z(a[0]), z(a[1]))
        if q in QL:
            return "MQ (%s %s)" % (QL[q], zl(a))
        if q in Q0:
            return "MQ %s" % Q0[q]
        if q == "set_all_edge_weights":
            return "MQ (QSetWeights %s)" % oz(a[0])
    raise ValueError(op)


def h_op(op):
    k = op[0]
    if k == "add_node":
        return "add_node " + h_node(op[1])
    if k == "add_nodes":
        return "add_nodes %d %s" % (len(op[1]), " ".join(h_node(n) for n in op[1]))
    if k == "add_edge":
        return "add_edge " + h_edge(op[1])
    if k == "add_edge_tuple":
        return "add_edge_tuple %d %d" % op[1]
    if k == "add_edges":
        return "add_edges %d %s" % (len(op[1]), " ".join(h_edge(e) for e in op[1]))
    if k == "add_edge_tuples":
        return "add_edge_tuples %d %s" % (len(op[1]), " ".join("%d %d" % p for p in op[1]))
    if k == "new_from":
        return "new_from %d %s %d %s" % (len(op[1][0]), " ".join(h_node(n) for n in op[1][0]),
                                         len(op[1][1]), " ".join(h_edge(e) for e in op[1][1]))
    if k in ("snap", "view"):
        return k
    if k == "q":
        q, a = op[1], op[2]
        if q == "set_all_edge_weights":
            return "q set_all_edge_weights " + h_w(a[0])
        return "q %s %s" % (q, " ".join(str(x) for x in a))
    raise ValueError(op)


def to_harness(c):
    lines = ["case %s" % c["id"]] + (["wscale %d" % c["wscale"]] if c.get("wscale") else []) + [
             "spec %d %d %d %d %d %d" % tuple(c["spec"]), "snap_each %d" % (1 if c["snap_each"] else 0)]
    lines += [h_op(o) for o in c["ops"]]
    lines.append("end")
    return "\n".join(lines)


def oracle_only(op):
    """calls whose observations (kinds 5000-5999) are decided by the Python oracle alone: not part of the model term"""
    return op[0] == "q" and str(op[1]).startswith("alg_")


def to_coq(c):
    return "mkcase %s %s [%s]" % (coq_spec(c["spec"]), "true" if c["snap_each"] else "false",
                                  "; ".join(coq_op(o) for o in c["ops"] if not oracle_only(o)))


# ---------------------------------------------------------------- generators

def gen_universe(r):
    """4 or 5 names whose sort order is a random permutation of insertion order"""
    pool = r.shuffle([1, 3, 5, 7, 9, -2, 12])
    return pool[:4 + r.below(2)]


def gen_weight(r, mode):
    if mode == "nan":
        return None
    if mode == "real":
        return r.pick([1, 2, 3, 5])
    if mode == "zero":
        return r.pick([0, 0, 1, 2])
    return r.pick([None, 1, 2, 3])


def gen_edge(r, names, wmode, existing=None, collide=0):
    if existing and r.below(100) < collide:
        u, v = r.pick(existing)
        if r.below(3) == 0:
            u, v = v, u
    else:
        u, v = r.pick(names), r.pick(names)
        if r.below(8) == 0:
            v = u
    a = r.pick([None, None, r.below(50)])
    return (u, v, gen_weight(r, wmode), a)


def gen_mutations(r, names, nops, wmode="mixed", collide=35, allow_new_from=True):
    ops, existing = [], []
    for _ in range(nops):
        k = r.below(100)
        if wmode in ("real", "zero") and (62 <= k < 72 or 86 <= k < 93):
            k = 30  # tuple calls add unweighted edges: not in a uniformly weighted history
        if k < 14:
            ops.append(("add_node", (r.pick(names), r.pick([None, r.below(50)]))))
        elif k < 20:
            ops.append(("add_nodes", [(r.pick(names), r.pick([None, r.below(50)])) for _ in range(r.below(4))]))
        elif k < 62:
            e = gen_edge(r, names, wmode, existing, collide)
            existing.append((e[0], e[1]))
            ops.append(("add_edge", e))
        elif k < 72:
            u, v = r.pick(names), r.pick(names)
            existing.append((u, v))
            ops.append(("add_edge_tuple", (u, v)))
        elif k < 86:
            es = [gen_edge(r, names, wmode, existing, collide) for _ in range(r.below(5))]
            existing += [(e[0], e[1]) for e in es]
            ops.append(("add_edges", es))
        elif k < 93:
            ps = [(r.pick(names), r.pick(names)) for _ in range(r.below(4))]
            existing += ps
            ops.append(("add_edge_tuples", ps))
        elif allow_new_from:
            ns = [(r.pick(names), r.pick([None, r.below(50)])) for _ in range(r.below(4))]
            es = [gen_edge(r, names, wmode, existing, collide) for _ in range(r.below(5))]
            existing = [(e[0], e[1]) for e in es]
            ops.append(("new_from", (ns, es)))
    return ops


def spec_for(r, i):
    """cycle through all 96 combinations, then random"""
    return ALL_SPECS[i % 96]


def subsets(names, absent, r, k):
    out = [[], [names[0]], list(names), [absent], [names[0], absent]]
    for _ in range(k):
        out.append([x for x in names + [absent] if r.below(2)])
    return out


def query_battery(r, names, full=True):
    absent = 99
    qs = [("q", "counts", ()), ("q", "get_all_node_names", ())]
    allnames = names + [absent]
    for u in allnames:
        for q in ("get_edges_for_node", "get_in_edges_for_node", "get_out_edges_for_node", "get_neighbor_nodes",
                  "get_node", "get_predecessor_nodes", "get_predecessor_node_names", "get_successor_nodes",
                  "get_successor_node_names", "has_node"):
            qs.append(("q", q, (u,)))
        for v in allnames:
            qs.append(("q", "get_edge", (u, v)))
            qs.append(("q", "get_edges", (u, v)))
    for u in names:
        qs.append(("q", "get_successors_or_neighbors", (u,)))
        qs.append(("q", "breadth_first_search", (u,)))
    for i in range(len(names) + 2):
        qs.append(("q", "get_node_by_index", (i,)))
    # lists with REPEATED names (longer than the node list): a slice is not a set
    reps = [[names[0], names[0]], list(names) + [names[0]], [names[-1]] * (len(names) + 1)]
    for s in subsets(names, absent, r, 4 if full else 1) + reps:
        for q in ("get_edges_for_nodes", "get_in_edges_for_nodes", "get_out_edges_for_nodes", "has_nodes"):
            qs.append(("q", q, tuple(s)))
    return qs


def degree_battery(r, names):
    absent = 99
    qs = [("q", "counts", ()), ("q", "all_degrees", ()), ("q", "density", ()), ("q", "degree_centrality", ()),
          ("q", "matrix", ())]
    for u in names + [absent]:
        for q in ("get_node_degree", "get_node_in_degree", "get_node_out_degree", "get_node_weighted_degree",
                  "get_node_weighted_in_degree", "get_node_weighted_out_degree"):
            qs.append(("q", q, (u,)))
    return qs


def derived_battery(r, names):
    absent = 99
    qs = [("q", "reverse", ()), ("q", "to_single_edges", ()),
          ("q", "set_all_edge_weights", (r.pick([None, 0, 2]),))]
    for s in subsets(names, absent, r, 2):
        qs.append(("q", "get_subgraph", tuple(s)))
    qs.append(("snap",))  # source unchanged
    return qs


def gen_cases(kind, seed, n):
    """kind in {c01, c02, c03, c09, c15}"""
    r = SplitMix(seed * 1000003 + {"c01": 1, "c02": 2, "c03": 3, "c09": 9, "c15": 15}[kind])
    # dyadic weight scale (applied inside the harness to every weight read and undone on every weight-valued
    # observation, exact in binary64; see tools/centgen.py): only for histories whose weights are all real
    r2 = SplitMix(seed * 7919 + {"c01": 101, "c02": 202, "c03": 303, "c09": 909, "c15": 1515}[kind])

    def scaled(c, wmode):
        if wmode == "real" and r2.below(100) < 30:
            c["wscale"] = r2.pick([-60, -3, -1, -1, 40])
        if kind in ("c09", "c15") and r2.below(100) < 20:
            # the same edge VALUE several times in one batch: the harness hands equal edges of a batch over as clones
            # of one Arc (hist::share_equal), so the library sees the same allocation more than once
            c["ops"] = dup_in_batches(r2, c["ops"])
        return c
    cases = []
    for i in range(n):
        sp = spec_for(r, i + r.below(96) * (i >= 96))
        names = gen_universe(r)
        if kind == "c01":
            ops = gen_mutations(r, names, 1 + r.below(10))
            cases.append({"id": "h%d" % i, "spec": sp, "snap_each": True, "ops": ops})
        elif kind == "c02":
            ops = gen_mutations(r, names, 2 + r.below(9))
            cases.append({"id": "h%d" % i, "spec": sp, "snap_each": False,
                          "ops": ops + [("snap",)] + query_battery(r, names, full=(i % 4 == 0))})
        elif kind == "c03" and i % 50 == 49:
            # a graph above the serial/parallel threshold (21-24 nodes): the algorithms' rayon arms must
            # traverse the stored edges just like the serial arms.  One construction call that every GraphSpecs
            # accepts (all nodes listed, no self-loop, no repeated pair), then colliding add_edge calls.
            wmode = "real"
            big = r2.shuffle(list(range(1, 60)))[:21 + r2.below(4)]
            pairs = [(big[j], big[j + 1]) for j in range(len(big) - 1) if r2.below(8)]
            for _ in range(len(big)):
                a, b = r2.pick(big), r2.pick(big)
                if a != b and (a, b) not in pairs and (b, a) not in pairs:
                    pairs.append((a, b))
            es = [(a, b, 1 + r2.below(3), None) for (a, b) in pairs]
            ops = [("new_from", ([(x, None) for x in big], es))]
            for _ in range(2):
                a, b = r2.pick(pairs)
                ops.append(("add_edge", ((b, a) if r2.below(2) else (a, b)) + (1 + r2.below(3), None)))
            ops += [("q", "alg_sssp", [x, 1, k % 6]) for k, x in enumerate(big[:3])] + [("q", "alg_cc", [1]), ("q", "alg_bc", [1])]
            cases.append({"id": "h%d" % i, "spec": sp, "snap_each": True, "ops": ops, "wmode": wmode})
        elif kind == "c03" and i % 25 == 7:
            # weights that SUM to the number of edges without being 1 (halves of 1,1,3,3 through the dyadic scale)
            # and a light two-hop route beating a heavier direct edge: weighted and hop-count answers differ
            a, b, c_, d = names[:4]
            es = r2.shuffle([(a, b, 1, None), (b, c_, 1, None), (a, c_, 3, None), (c_, d, 3, None)])
            ops = [("add_nodes", [(x, None) for x in r2.shuffle([a, b, c_, d])]), ("add_edges", es)]
            ops += [("q", "alg_sssp", [x, 1, k % 6]) for k, x in enumerate((a, b, c_, d))] + [("q", "alg_cc", [1]), ("q", "alg_bc", [1])]
            cases.append({"id": "h%d" % i, "spec": sp, "snap_each": True, "ops": ops, "wmode": "real", "wscale": -1})
        elif kind == "c03":
            wmode = "nan" if r.below(4) == 0 else "real"
            if i % 10 == 4:
                wmode = "zero"      # uniformly weighted with zero-weight edges (non-negative weights)
            ops = gen_mutations(r, names, 2 + r.below(9), wmode=wmode, collide=60)
            # the consequence clause: what the algorithms report for the graph this history produced
            wf = 1 if wmode in ("real", "zero") else 0
            ops = ops + [("q", "alg_nbrs", [x]) for x in names]
            ops = ops + [("q", "alg_sssp", [x, wf, (k + i) % 6]) for k, x in enumerate(names)]
            ops = ops + [("q", "alg_sssp", [x, wf, 5]) for x in names[:3]]      # a target, distances only
            if wmode != "zero":     # closeness / betweenness are defined for positive weights
                ops += [("q", "alg_cc", [wf]), ("q", "alg_bc", [wf])]
            ops += [("q", "alg_ev", [wf])]
            cases.append(scaled({"id": "h%d" % i, "spec": sp, "snap_each": True, "ops": ops, "wmode": wmode}, wmode))
        elif kind == "c09":
            wmode = r.pick(["nan", "real", "real"])
            ops = gen_mutations(r, names, 2 + r.below(9), wmode=wmode, collide=45)
            if wmode == "real" and r2.below(100) < 25:
                # weights that cancel (negative and zero weights): a node whose adjacent weights sum to exactly 0
                ops, wmode = resign(r2, ops), "signed"
            if len(ops) >= 2 and r2.below(100) < 35:
                # query, grow, query again: every degree map and count is asked in the MIDDLE of the history as well
                # (an answer must describe the graph as it is now, not as it was when first asked)
                k = 1 + r2.below(len(ops) - 1)
                ops = ops[:k] + [("q", "counts", ()), ("q", "all_degrees", ())] + ops[k:]
            cases.append(scaled({"id": "h%d" % i, "spec": sp, "snap_each": False,
                                 "ops": ops + [("view",)] + degree_battery(r, names)}, wmode))
        elif kind == "c15":
            wmode = r.pick(["nan", "real", "mixed"])
            ops = gen_mutations(r, names, 2 + r.below(8), wmode=wmode)
            if wmode != "nan" and r2.below(100) < 30:
                # weights that cancel: zero and negative weights, so that a group of parallel edges (or a lone
                # edge) sums to exactly 0 - the collapsed edge must still be there, with weight 0
                ops, wmode = resign(r2, ops), "signed"
            cases.append(scaled({"id": "h%d" % i, "spec": sp, "snap_each": False,
                                 "ops": ops + [("snap",)] + derived_battery(r, names)}, wmode))
    return cases


def dup_in_batches(r2, ops):
    out = []
    for op in ops:
        if op[0] == "add_edges" and op[1]:
            es = list(op[1])
            e = r2.pick(es)
            for _ in range(1 + r2.below(3)):
                es.insert(r2.below(len(es) + 1), e)
            out.append((op[0], es))
        elif op[0] == "new_from" and op[1][1]:
            es = list(op[1][1])
            e = r2.pick(es)
            es.insert(r2.below(len(es) + 1), e)
            out.append((op[0], (op[1][0], es)))
        elif op[0] == "add_edge_tuples" and op[1]:
            ps = list(op[1])
            k = r2.below(len(ps))
            for _ in range(1 + r2.below(2)):
                ps.insert(k, ps[k])         # the same tuple several times IN A ROW (parallel edges on a multigraph)
            out.append((op[0], ps))
        else:
            out.append(op)
    return out


def resign(r2, ops):
    """replaces every real weight of a history by one of -2..2 (drawn from the separate stream)"""
    def rw(e):
        return e if e[2] is None else (e[0], e[1], r2.pick([-2, -1, 0, 0, 1, 2]), e[3])
    out = []
    for op in ops:
        if op[0] == "add_edge":
            out.append((op[0], rw(op[1])))
        elif op[0] == "add_edges":
            out.append((op[0], [rw(e) for e in op[1]]))
        elif op[0] == "new_from":
            out.append((op[0], (op[1][0], [rw(e) for e in op[1][1]])))
        else:
            out.append(op)
    return out
