"""Static text of MANIFEST.json entries (see tools/mkmanifest.py)."""
HOOK_COMMITS = ["d7a7d3b"]
NOTES = ("Every check = proof gate (full .vo build, pinned statements re-checked with Print Assumptions, "
         "forbidden-construct scan) + correspondence (Coq model vs implementation on generated inputs) + "
         "property oracle on the implementation. Genuine defects found on the pinned tree were repaired by "
         "'fix:' commits in /repo and are listed as fixed in known_findings.json.")
NOT_APPLICABLE = {}
CLAIMED = {}
