"""Static text of MANIFEST.json entries (see tools/mkmanifest.py)."""
HOOK_COMMITS = ["d7a7d3b"]
NOTES = ("Every check = proof gate (full .vo build, pinned statements re-checked with Print Assumptions, "
         "forbidden-construct scan) + correspondence (Coq model vs implementation on generated inputs) + "
         "property oracle on the implementation. Genuine defects found on the pinned tree were repaired by "
         "'fix:' commits in /repo and are listed as fixed in known_findings.json.")
NOT_APPLICABLE = {}
CLAIMED = {}

# properties whose checks are registered in MANIFEST.json (a check is registered only once it
# exits 0 on the tree as it stands; see DESIGN.md section 7, last paragraph)
REGISTERED = ["C01", "C02", "C03", "C04", "C05", "C06", "C07", "C08", "C09", "C10", "C11", "C12", "C13", "C14", "C15", "C16", "C17", "C18", "C19", "C20"]
