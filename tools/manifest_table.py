"""Static text of MANIFEST.json entries (see tools/mkmanifest.py)."""
HOOK_COMMITS = ["d7a7d3b"]
NOTES = ("Every check = proof gate (full .vo build, pinned statements re-checked with Print Assumptions, "
         "forbidden-construct scan) + correspondence (Coq model vs implementation on generated inputs) + "
         "property oracle on the implementation. Genuine defects found on the pinned tree were repaired by "
         "'fix:' commits in /repo and are listed as fixed in known_findings.json.")
NOT_APPLICABLE = {}
CLAIMED = {
 "C01": {
  "text": "Unbounded theorems (all specs, all histories, all names/weights, generic name type) about the spec-level "
          "mutation ladder: error => graph unchanged, only the three error kinds, self-loop / missing-node / duplicate "
          "policies sentence by sentence, source-first creation, either orientation when undirected, re-add keeps "
          "position and replaces attributes, batch add applies exactly the prefix before the first failing edge, "
          "never panics. The spec and the faithful twelve-field model are tied to the code by a per-call "
          "correspondence (outcome, node list, edge multiset, all private indexes via the hook).",
  "note": "Trusted: Coq kernel + vm_compute; harness/printers/diff; the refinement twelve-field-model -> spec is "
          "validated per generated history (flag kind 5), its unbounded proof is in progress (DESIGN.md 6/C01). "
          "Axioms: none (Closed under the global context).",
  "technique": "Coq proof (induction over op lists) + differential correspondence vs vm_compute model",
 },
}
