#!/usr/bin/env python3
"""Regenerates /verif/MANIFEST.json from tools/manifest_table.py (one entry per claimed property)."""
import json, os, sys
ROOT = os.path.dirname(os.path.dirname(os.path.abspath(__file__)))
sys.path.insert(0, os.path.join(ROOT, "tools"))
import manifest_table as mt
import props
for _pid, _P in props.REGISTRY.items():
    if getattr(_P, 'manifest', None) and _pid in mt.REGISTERED:
        mt.CLAIMED[_pid] = _P.manifest
ids = [json.loads(l)["id"] for l in open(os.path.join(ROOT, "properties.jsonl"))]
checks = []
for pid in ids:
    if pid in mt.CLAIMED:
        e = mt.CLAIMED[pid]
        checks.append({
            "property_id": pid,
            "quick_cmd": "./check %s --tier quick" % pid,
            "thorough_cmd": "./check %s --tier thorough" % pid,
            "evidence_file": "/verif/evidence/%s.json" % pid,
            "replay_cmd_template": "./check %s --replay {path}" % pid,
            "engine": "coq-proof+correspondence",
            "level_claimed": {"category": "proof", "text": e["text"], "design_ref": e.get("design_ref", "DESIGN.md section 6, " + pid)},
            "level_note": e["note"],
            "technique": e["technique"],
        })
na = [{"property_id": pid, "reason": mt.NOT_APPLICABLE.get(pid, "check not yet registered at this commit (work in progress; see DESIGN.md section 8 build order)")}
      for pid in ids if pid not in mt.CLAIMED]
m = {
    "version": 1,
    "setup_cmd": "./setup.sh",
    "hooks": {
        "guard": "graphrs_verif",
        "enable": "RUSTFLAGS=\"--cfg graphrs_verif\" (set in /verif/harness/.cargo/config.toml; the harness depends on /repo by path)",
        "baseline_off_cmd": "python3 /verif/tools/baseline.py",
        "source_commits": mt.HOOK_COMMITS,
        "add_only": True,
    },
    "engines": [{
        "name": "coq-proof+correspondence",
        "path": "/verif/check",
        "serves_properties": sorted(mt.CLAIMED.keys()),
        "kind_free_text": "machine-checked proof in Coq 8.16.1 about a hand-written executable model; the model is tied to /repo on every run by a differential correspondence check (model evaluated by vm_compute inside Coq vs the implementation built from the working tree with --cfg graphrs_verif)",
    }],
    "checks": checks,
    "not_applicable": na,
    "notes": mt.NOTES,
}
json.dump(m, open(os.path.join(ROOT, "MANIFEST.json"), "w"), indent=1)
print("MANIFEST.json: %d checks, %d not claimed" % (len(checks), len(na)))
