#!/usr/bin/env python3
"""prints the markdown table of seeded changes (seeded/*/meta.json) for DESIGN.md section 0.7"""
import glob, json, os
ROOT = os.path.dirname(os.path.dirname(os.path.abspath(__file__)))
print("| seed | property | what was changed | needs | confirmed (demo -/+, suite) | checks run -> caught |")
print("|---|---|---|---|---|---|")
for f in sorted(glob.glob(os.path.join(ROOT, "seeded", "*", "meta.json"))):
    m = json.load(open(f))
    r = m.get("confirmed_by_integrator", {})
    conf = "%s/%s, %s" % ("pass" if r.get("demo_passes_without") else "FAIL", "fail" if r.get("demo_fails_with") else "PASS",
                          "207 ok" if r.get("suite_still_passes") else "SUITE BROKEN")
    chk = "; ".join("%s -> %s" % (k, "caught" if v.get("caught") else "MISSED") for k, v in r.get("checks", {}).items())
    hist = m.get("history", "")
    print("| %s | %s | %s | %s | %s | %s%s |" % (m.get("seed_id"), m.get("property"), m.get("summary", "").replace("|", "/")[:260],
                                          m.get("needs", "").replace("|", "/")[:200], conf, chk, (" (" + hist + ")") if hist else ""))
