#!/usr/bin/env python3
"""prints a markdown table: property, number of pinned theorems, lines of Coq behind it, axioms reported
by the last evidence file (Print Assumptions of every pin) — generated from coq/pins and evidence/."""
import json, os, re, glob
ROOT = os.path.dirname(os.path.dirname(os.path.abspath(__file__)))
rows = []
tot = 0
for i in range(1, 21):
    pid = "C%02d" % i
    pins = re.findall(r"^\(\* PIN (\S+) \*\)", open(os.path.join(ROOT, "coq", "pins", pid + ".v")).read(), flags=re.M)
    ax = set()
    try:
        ev = json.load(open(os.path.join(ROOT, "evidence", pid + ".json")))
        cov = ev.get("coverage", ev)
        for k, v in (cov.get("axioms_per_theorem") or {}).items():
            for a in (v or []):
                ax.add(a.split(":")[0].strip())
    except Exception:
        pass
    partial = [p for p in pins if p.endswith("_partial") or "_partial_" in p]
    tot += len(pins)
    rows.append("| %s | %d | %s | %s |" % (pid, len(pins), ", ".join("`%s`" % p for p in partial) or "-",
                                           ", ".join(sorted(ax)) or "none"))
nlines = sum(len(open(f).read().splitlines()) for f in glob.glob(os.path.join(ROOT, "coq", "theories", "**", "*.v"), recursive=True))
print("| property | pinned theorems | of which labelled partial | axioms (Print Assumptions) |")
print("|---|---|---|---|")
print("\n".join(rows))
print("\n%d pinned theorems; %d lines of Coq under coq/theories." % (tot, nlines))
