"""C20 — valid calls on degenerate graphs return values or errors, never panic.
Harness mode `api` calls every public function of the crate on one graph; this module generates the
graphs (8 kinds x degenerate shapes) and evaluates the property on the outcome classes."""
import gv
import props

# code -> (name, channel, requirement)   channel: plain | res | opt
# requirement: which graph kinds the function supports; on any other kind a function with an
# error channel must answer WrongMethod (12) (or None (50) for Option-returning degree functions)
D, U, S, M = "directed", "undirected", "single", "multi"
TABLE = {
    1: ("get_all_edges", "plain", ()), 2: ("get_all_nodes", "plain", ()), 3: ("get_all_node_names", "plain", ()),
    4: ("edges_have_weight", "plain", ()), 5: ("number_of_nodes", "plain", ()), 6: ("number_of_edges", "plain", ()),
    7: ("size(false)", "plain", ()), 8: ("size(true)", "plain", ()), 9: ("get_density", "plain", ()),
    10: ("get_degree_for_all_nodes", "plain", ()), 11: ("get_in_degree_for_all_nodes", "res", (D,)),
    12: ("get_out_degree_for_all_nodes", "res", (D,)), 13: ("get_weighted_degree_for_all_nodes", "plain", ()),
    14: ("get_weighted_in_degree_for_all_nodes", "res", (D,)), 15: ("get_weighted_out_degree_for_all_nodes", "res", (D,)),
    16: ("ensure_directed", "res", (D,)), 17: ("ensure_undirected", "res", (U,)), 18: ("ensure_not_multi_edges", "res", (S,)),
    19: ("ensure_weighted", "res", ()), 20: ("get_sparse_adjacency_matrix", "res", (S,)), 21: ("reverse", "res", (D,)),
    22: ("to_single_edges", "res", (M,)), 23: ("set_all_edge_weights", "plain", ()), 24: ("get_successors_map", "plain", ()),
    25: ("get_predecessors_map", "plain", ()), 26: ("degree_centrality", "plain", ()),
    27: ("betweenness_centrality", "res", ()), 28: ("closeness_centrality", "res", ()),
    29: ("eigenvector_centrality", "res", (S,)), 30: ("clustering", "res", (S,)), 31: ("average_clustering", "res", (S,)),
    32: ("average_clustering", "res", (S,)), 33: ("transitivity", "res", (U, S)), 34: ("triangles", "res", (U, S)),
    35: ("generalized_degree", "res", (U, S)), 36: ("square_clustering", "plain", ()),
    37: ("connected_components", "res", (U,)), 38: ("number_of_connected_components", "res", (U,)),
    39: ("strongly_connected_components", "res", (D,)), 40: ("weakly_connected_components", "res", (D,)),
    41: ("bfs_equal_size_partitions", "plain", ()), 42: ("all_pairs", "res", ()), 43: ("all_pairs(cutoff)", "res", ()),
    44: ("louvain_partitions", "res", ()), 45: ("louvain_communities", "res", ()), 46: ("is_partition", "plain", ()),
    47: ("modularity", "res", ()), 48: ("modularity", "res", ()), 49: ("modularity(foreign name)", "res", ()),
    50: ("write_graphml_string", "res", ()),
    51: ("get_node", "opt", ()), 52: ("has_node", "plain", ()), 53: ("get_edges_for_node", "res", ()),
    54: ("get_in_edges_for_node", "res", (D,)), 55: ("get_out_edges_for_node", "res", (D,)),
    56: ("get_neighbor_nodes", "res", ()), 57: ("get_predecessor_nodes", "res", (D,)),
    58: ("get_predecessor_node_names", "res", (D,)), 59: ("get_successor_nodes", "res", (D,)),
    60: ("get_successor_node_names", "res", (D,)), 61: ("get_node_degree", "opt", ()),
    62: ("get_node_in_degree", "opt", (D,)), 63: ("get_node_out_degree", "opt", (D,)),
    64: ("get_node_weighted_degree", "opt", ()), 65: ("get_node_weighted_in_degree", "opt", (D,)),
    66: ("get_node_weighted_out_degree", "opt", (D,)), 67: ("get_edges_for_nodes", "res", ()),
    68: ("get_in_edges_for_nodes", "res", (D,)), 69: ("get_out_edges_for_nodes", "res", (D,)),
    70: ("has_nodes", "plain", ()), 71: ("get_subgraph", "plain", ()), 72: ("node_connected_component", "res", (U,)),
    73: ("single_source", "res", ()), 74: ("single_source(cutoff,first_only)", "res", ()), 75: ("multi_source", "res", ()),
    76: ("all_pairs(target)", "res", ()), 77: ("single_source(target)", "res", ()), 78: ("get_edge(f,x)", "res", (S,)),
    79: ("get_edge(x,f)", "res", (S,)), 80: ("get_edges(f,x)", "res", (M,)), 81: ("get_edges(x,f)", "res", (M,)),
    82: ("clustering(Some)", "res", (S,)), 83: ("clustering(weighted,Some)", "res", (S,)),
    84: ("average_clustering(Some)", "res", (S,)), 85: ("triangles(Some)", "res", (U, S)),
    86: ("generalized_degree(Some)", "res", (U, S)), 87: ("get_successors_or_neighbors", "plain", ()),
    88: ("breadth_first_search", "plain", ()), 89: ("square_clustering(Some)", "plain", ()),
    90: ("get_all_shortest_paths_involving", "plain", ()), 91: ("get_all_shortest_paths_involving(weighted)", "plain", ()),
    92: ("get_node_by_index(0)", "opt", ()), 93: ("get_node_by_index(1000)", "opt", ()),
    94: ("single_source(option sweep)", "res", ()), 95: ("multi_source(option sweep)", "res", ()),
    96: ("all_pairs(option sweep)", "res", ()),
    97: ("eigenvector_centrality(option values)", "res", (S,)), 98: ("louvain(option values)", "res", ()),
    99: ("average_clustering(count_zeros=false)", "res", (S,)), 100: ("single_source(cutoff 0)", "res", ()),
    101: ("modularity(foreign name swapped in)", "res", ()), 102: ("is_partition(foreign name swapped in)", "plain", ()),
    # every name of the graph, the first one listed twice (a list longer than the node list; all names exist)
    103: ("get_edges_for_nodes(all names, one repeated)", "res", ()),
    104: ("get_in_edges_for_nodes(all names, one repeated)", "res", (D,)),
    105: ("get_out_edges_for_nodes(all names, one repeated)", "res", (D,)),
    106: ("multi_source(all names, one repeated)", "res", ()), 107: ("multi_source(weighted, all names)", "res", ()),
    108: ("multi_source(weighted, all names, target, first_only)", "res", ()),
    109: ("has_nodes(all names, one repeated)", "plain", ()),
}


def supported(req, directed, multi):
    for r in req:
        if r == D and not directed:
            return False
        if r == U and directed:
            return False
        if r == S and multi:
            return False
        if r == M and not multi:
            return False
    return True


WMODES = ["nan", "real", "mixed", "zero", "neg"]
SHAPES = ["empty", "one", "one_loop", "edgeless", "isolated_plus", "path", "star", "triangle_tail", "parallel",
          "two_components", "k4", "loops_everywhere", "cycle", "random", "ring25"]


def shape_edges(r, shape, loops, multi):
    n, es = 0, []
    if shape == "empty":
        n = 0
    elif shape == "one":
        n = 1
    elif shape == "one_loop":
        n, es = 1, ([(0, 0)] if loops else [])
    elif shape == "edgeless":
        n = 3
    elif shape == "isolated_plus":
        n, es = 4, [(0, 1), (1, 2)]
    elif shape == "path":
        n, es = 5, [(0, 1), (1, 2), (2, 3), (3, 4)]
    elif shape == "star":
        n, es = 5, [(0, 1), (0, 2), (0, 3), (0, 4)]
    elif shape == "triangle_tail":
        n, es = 4, [(0, 1), (1, 2), (2, 0), (2, 3)]
    elif shape == "parallel":
        n, es = 3, [(0, 1), (0, 1), (1, 0), (1, 2)] if multi else [(0, 1), (1, 0), (1, 2)]
    elif shape == "two_components":
        n, es = 6, [(0, 1), (1, 2), (3, 4), (4, 5), (5, 3)]
    elif shape == "k4":
        n, es = 4, [(i, j) for i in range(4) for j in range(4) if i < j]
    elif shape == "loops_everywhere":
        n, es = 3, ([(0, 0), (1, 1), (2, 2)] if loops else []) + [(0, 1), (1, 2)]
    elif shape == "cycle":
        n, es = 5, [(i, (i + 1) % 5) for i in range(5)]
    elif shape == "ring25":
        # above the 20-node threshold of the rayon arms (all_pairs, multi_source, the centralities)
        n = 25
        es = [(i, (i + 1) % 25) for i in range(25)] + [(r.below(25), r.below(25)) for _ in range(12)]
        es = [(u, v) for (u, v) in es if u != v or loops]
    else:
        n = 2 + r.below(5)
        for _ in range(r.below(2 * n + 1)):
            u, v = r.below(n), r.below(n)
            if u == v and not loops:
                continue
            es.append((u, v))
    return n, es


class ApiProp(props.BaseProp):
    id = "C20"
    run_module = None
    harness_mode = "api"
    profiles = ["debug", "release"]
    quick_n, thorough_n = 600, 3600
    rule = ("all 8 graph kinds (directed x multi-edge x self-loops) x 15 shapes (a 25-node ring with chords - above the 20-node threshold of the rayon arms -, empty, one node, one node with a "
            "self-loop, edgeless, isolated node + component, path with degree-1 tails, star, triangle with a tail, "
            "parallel / antiparallel edges, two components, K4, self-loops on every node, cycle, random) x weights "
            "{unweighted, 1..3, mixed, 0..2 with many zeros, NEGATIVE: drawn from -2,-1,1,2}, names whose sort order differs from insertion order "
            "(quick tier: 15 x 8 x 5 = 600 graphs, every shape x kind x weight-mode combination once); a negative weight is a graph "
            "the structure can represent: on it a Result-returning function may answer Err (the shortest-path entry points: "
            "ContradictoryPaths) or a value but must not panic (F22: all_pairs / multi_source did), and "
            "get_all_shortest_paths_involving - no error channel, called like everywhere else with weighted = false AND true, "
            "nothing is skipped on these graphs - must not panic either (it maps an Err of all_pairs to the empty vector); on each graph every public "
            "function of the crate (100 call shapes incl. every option combination of the shortest-path entry points) is called with names of the graph and, for functions with a "
            "Result/Option channel, one absent name, in a debug AND a release build, each under a 4 s watchdog; "
            "non-trivial = the graph has at least one node; distinct = distinct case text")
    trusted_extra = ["C20 has no model diff of its own: the outcome classes of the algorithm families are compared with "
                     "their Coq models in C04-C06, C10-C13, C18; this check sweeps the whole public API for panics/hangs"]
    assumptions = ["function table harness/src/api.rs covers every reachable `pub fn` (checked against the source list "
                   "by tools/gen_pubfns.py on every run)"]

    def gen(self, seed, n):
        r = gv.SplitMix(seed * 7919 + 20)
        cases = []
        i = 0
        while len(cases) < n:
            kind = i % 8
            d, m, s = kind & 1, (kind >> 1) & 1, (kind >> 2) & 1
            shape = SHAPES[(i // 8) % len(SHAPES)]
            wmode = WMODES[(i // (8 * len(SHAPES))) % len(WMODES)]
            nn, es = shape_edges(r, shape, s, m)
            names = r.shuffle([3, 11, 5, 7, 2, 13, 1][:nn]) if nn <= 7 else list(range(nn))
            edges = []
            for (u, v) in es:
                w = None if wmode == "nan" else (1 + r.below(3) if wmode == "real" else
                                                 (r.pick([0, 0, 1, 2]) if wmode == "zero" else
                                                  (r.pick([-2, -1, 1, 2]) if wmode == "neg" else r.pick([None, 1, 2]))))
                edges.append((names[u], names[v], w, None))
            spec = (d, m, s, 2 if not m else 0, 0, 1)
            cases.append({"id": "a%d" % i, "spec": spec, "nodes": [(x, None) for x in names], "edges": edges,
                          "shape": shape, "wmode": wmode})
            i += 1
        return cases

    def to_harness(self, c):
        import hist
        lines = ["case %s" % c["id"], "spec %d %d %d %d %d %d" % tuple(c["spec"])]
        lines += ["node " + hist.h_node(n) for n in c["nodes"]]
        lines += ["edge " + hist.h_edge(e) for e in c["edges"]]
        lines.append("end")
        return "\n".join(lines)

    def to_coq(self, c):
        return ""

    def case_from_json(self, j):
        j = dict(j)
        j["spec"] = tuple(j["spec"])
        j["nodes"] = [tuple(x) for x in j["nodes"]]
        j["edges"] = [tuple(x) for x in j["edges"]]
        return j

    def nontrivial(self, c, o):
        return len(c["nodes"]) >= 1

    def stats_key(self, c, o):
        return ["shape_" + c["shape"], "kind_d%d_m%d_s%d" % tuple(c["spec"][:3])]

    def oracle(self, c, o):
        msgs = []
        d, m = c["spec"][0], c["spec"][1]
        rows = None
        for kind, rws, _ in o:
            if kind == 2001 and rws[0][0] != 0:
                return ["the graph itself could not be built: outcome %d" % rws[0][0]]
            if kind == 2000:
                rows = rws
        if rows is None:
            return ["no answer from the API sweep"]
        for code, cls, out in rows:
            name, chan, req = TABLE.get(code, ("fn#%d" % code, "res", ()))
            what = "%s [%s]" % (name, {0: "no name argument", 1: "existing name", 2: "absent name"}[cls])
            if out == 100:
                msgs.append("PANIC in " + what)
            elif out == 101:
                msgs.append("NO ANSWER within 4 s (hang) in " + what)
            elif chan in ("res", "opt") and not supported(req, d, m):
                ok = (out in (12, 4)) if chan == "res" else (out in (50,))
                if cls != 2:
                    ok = (out == 12) if chan == "res" else (out == 50)
                if not ok:
                    msgs.append("%s on an unsupported graph kind returned outcome %d instead of %s" % (
                        what, out, "WrongMethod" if chan == "res" else "None"))
            elif chan in ("res", "opt") and cls == 2 and out == 0 and code not in (93,):
                msgs.append("%s returned a value instead of NodeNotFound/None" % what)
            elif chan == "res" and cls != 2 and out in (4, 12):
                # the error channel says something false: every name given exists / the kind is supported
                msgs.append("%s answered %s although %s" % (
                    what, "NodeNotFound" if out == 4 else "WrongMethod",
                    "every name it was given is a node of the graph" if out == 4 else "it supports this kind of graph"))
        return msgs[:4]

    def shrink_candidates(self, c):
        out = []
        for i in range(len(c["edges"])):
            d = dict(c)
            d["edges"] = c["edges"][:i] + c["edges"][i + 1:]
            out.append(d)
        used = set([e[0] for e in c["edges"]] + [e[1] for e in c["edges"]])
        for i, n in enumerate(c["nodes"]):
            if n[0] not in used:
                d = dict(c)
                d["nodes"] = c["nodes"][:i] + c["nodes"][i + 1:]
                out.append(d)
        return out

    manifest = {
        "text": "Proved (unbounded, under the coherence invariant WF that holds after every history; generic name type): "
                "add_node/add_edge never reach one of the Rust code's unwrap/index/lookup sites (each is a Panic site in the "
                "model); EVERY modelled query of query.rs / degree.rs and the Result-returning constructors of convert.rs is "
                "total for every argument - present or absent names, any graph kind: the outcome is Ok or Err, never a Panic "
                "site, never out of fuel (C20_every_query_total: 16 per-node functions, get_edge/get_edges, the four node-set "
                "functions, reverse, to_single_edges; C20_every_query_total_after_any_history); the six *_for_all_nodes degree "
                "maps never hit their inner unwrap and have one entry per node, the directed-only ones answer WrongMethod on "
                "undirected graphs (C20_degree_maps_total); get_subgraph / set_all_edge_weights never hit their unwrap; the "
                "sparse adjacency matrix never indexes an empty group (C20_matrix_total); functions without an error channel "
                "(get_successors_or_neighbors) are total on existing names; existing names yield Ok, absent names "
                "NodeNotFound/None. "
                "Shortest paths (dijkstra.rs), for every WF graph with fewer "
                "than 2^31-1 adjacency entries (the i32 counter; true up to 46340 nodes): dijkstra, dijkstra_basic and "
                "single_source never panic and never exhaust their fuel for ANY weights, names, options and cutoff "
                "(negative weights may give Err ContradictoryPaths, absent names Err NodeNotFound: "
                "C20_dijkstra_never_panics, C20_dijkstra_basic_never_panics, C20_single_source_never_panics); "
                "since the repair of F22 (the per-source Result is propagated with `?` instead of unwrapped) the same holds, "
                "in full, for multi_source, all_pairs and get_all_shortest_paths_involving: ANY weights, names, options and "
                "cutoff (C20_multi_source_never_panics, C20_all_pairs_never_panics, C20_involving_never_panics - the former "
                "_partial statements without their weight and cutoff hypotheses), and the error channel carries only the "
                "documented kinds, on every graph state: NodeNotFound / ContradictoryPaths (single_source, multi_source), plus "
                "EdgeWeightNotSpecified (all_pairs) (C20_*_error_kinds); get_all_shortest_paths_involving, which returns a "
                "Vec, maps an Err of all_pairs to the empty vector (C20_involving_of_error). Example "
                "C20_negative_weights_err: on the reachable graph 1->2 (1), 1->3 (2), 3->2 (-5) single_source, multi_source "
                "and all_pairs all return Err ContradictoryPaths and involving returns []. "
                "THE ROLL-UP (round 2, DESIGN.md 0.10.11: one row per public function of the crate, 102 of them - 64 with a "
                "full C20 theorem, 7 partial, 28 whose model is a plain function without failure site, 3 without model): every "
                "other modelled algorithm entry point has its own pinned C20_total_<function> for every WF graph and EVERY "
                "argument value - outcome Ok or Err of the documented kind, no Panic site, no OutOfFuel. FULL: "
                "connected_components, number_of_connected_components, node_connected_component, weakly_ / "
                "strongly_connected_components (WrongMethod on the other kind, NodeNotFound on an absent name), "
                "bfs_equal_size_partitions (k >= 1), breadth_first_search, degree_centrality, get_sparse_adjacency_matrix, "
                "triangles, generalized_degree, transitivity, clustering and average_clustering with weighted = false "
                "(WrongMethod on multi-edge / directed, NodeNotFound on an absent name, Ok otherwise), square_clustering on "
                "EVERY kind of graph, is_partition, eigenvector_centrality (WrongMethod on multi-edge, else a vector or "
                "PowerIterationFailedConvergence; any number structure), complete_graph (every i32 n), karate_club_graph, "
                "fast_gnp_random_graph (every i32 n, every f64 p: InvalidArgument or a graph; the model's fuel is the gap "
                "stream and gnp_slots+1 gaps suffice), read_graphml_string (a WF graph or one of four error kinds, every "
                "event sequence), write_graphml_string; C20_modularity_outcomes (any weights: Ok / NotAPartition / one "
                "model-domain site). PARTIAL (named _partial, the missing inputs evaluated in C20_total_*_example): "
                "betweenness_centrality and closeness_centrality return Ok in hop-count mode and for ANY real weights, zero "
                "and negative included (missing: weighted = true with an edge WITHOUT weight - the models have no NaN "
                "arithmetic); clustering / average_clustering with weighted = true: the guards only (missing: the numeric "
                "body, cube roots are modelled on perfect cubes only); modularity: full without negative weight (missing: "
                "total weight 0 with non-zero terms, where the code computes with inf); louvain_partitions / "
                "louvain_communities: the guard of F23 is in the model (first statement: weighted and a stored weight < 0 -> "
                "InvalidArgument), C20_louvain_negative_weights_rejected proves that answer for EVERY graph state, fuel, "
                "shuffle table, resolution and threshold; C20_total_louvain_partial - on every WF graph, when weighted every "
                "edge has a weight, resolution >= 0, level fuel > N, sweep fuel >= N^N, well-formed shuffle oracle of the "
                "model: EITHER some weight is negative and both functions return InvalidArgument OR the weights are "
                "non-negative and both RETURN Ok (no Panic site, no fuel exhaustion, never NoPartitions, nested partitions; "
                "Proofs/LouvainTotal.v) - non-negativity of the weights is no longer a hypothesis; "
                "C20_louvain_invalid_argument_iff: on those inputs InvalidArgument iff weighted and a negative weight; "
                "C20_total_louvain_nonnegative_weights is the previous round's statement, kept. Still missing: weighted = "
                "true with an edge WITHOUT weight (no NaN arithmetic in the exact model: the guard lets NaN pass, as the "
                "code does, then a model-domain site), negative resolution (returns in the evaluated example). "
                "Beyond the theorems the check sweeps EVERY public function x 8 "
                "graph kinds x 14 degenerate shapes x existing/absent names in debug and release builds under a watchdog "
                "and applies the property's rules (no panic, no hang, error channel used for unsupported kinds and absent "
                "names).",
        "note": "What remains a hypothesis of the shortest-path totality theorems is small_adj alone (fewer than 2^31-1 "
                "adjacency entries: beyond that the i32 fringe counter of dijkstra.rs overflows, a panic in a debug build). "
                "Negative weights ARE generated by the sweep (fifth weight mode). "
                "Sweep-only (exploration, not proof): read_graphml_file / write_graphml_file (file I/O), the verif hook, and "
                "the four model-domain gaps of the _partial theorems (NaN weights in weighted betweenness / closeness / Louvain, "
                "cube roots of weighted clustering, inf in modularity with negative weights); for everything else the sweep is "
                "a second, independent check of what the theorems state. tools/c20_inventory.py regenerates the inventory and "
                "fails when a pub fn of /repo/src has no row. "
                "'does not hang' is a 4 s watchdog on the implementation; in the models it is the fuel theorems. Axioms: none. Defects found by the sweep and repaired by fix: commits: "
                "F5/F19 (clustering subsets / absent names), F6 (transitivity underflow), F7 (multi-edge guards), F13 "
                "(all_pairs absent target), F14 (eigenvector on multi-edge graphs), F15 (square_clustering underflow), "
                "F18 (node_connected_component absent name), F22 (all_pairs / multi_source unwrapped the per-source "
                "Err(ContradictoryPaths) on a graph with a negative weight), F23 (weighted Louvain on a graph with a "
                "negative weight did not return; now InvalidArgument - guard modelled, C20_louvain_negative_weights_rejected, "
                "evaluated on F23's star in C20_louvain_negative_weights_example).",
        "technique": "Coq proof of Panic-site unreachability under WF + exhaustive API sweep (debug+release, watchdog)",
    }


props.register(ApiProp())


# ---- source scan: every `pub fn` of the crate must be known to this sweep or to another property ----
import os
import re

KNOWN_ELSEWHERE = {
    # mutations / constructors (C01), generators (C16), GraphML (C14, C19), value constructors, hook
    "add_edge", "add_edge_tuple", "add_edge_tuples", "add_edges", "add_node", "add_nodes", "new",
    "new_from_nodes_and_edges", "complete_graph", "fast_gnp_random_graph", "karate_club_graph",
    "read_graphml_file", "read_graphml_string", "write_graphml_file", "ordered", "reversed", "with_weight",
    "from_name", "from_name_and_attributes", "directed", "directed_create_missing", "multi_directed",
    "multi_undirected", "undirected", "undirected_create_missing", "verif_snapshot", "size",
    "contains_path_through_node",
}


def _strip_comments(txt):
    txt = re.sub(r"/\*.*?\*/", "", txt, flags=re.S)
    return re.sub(r"//[^\n]*", "", txt)


def scan_pub_fns(repo=None):
    if repo is None:
        import genlib
        repo = genlib.repo_path()
    """names of the `pub fn`s that are reachable from outside the crate: free functions of modules that
    are public all the way up (or re-exported with `pub use`), and methods of publicly exported types.
    `pub fn`s of private helper modules are internal and are not the sweep's business."""
    src = os.path.join(repo, "src")
    mods = {}      # module path tuple -> file

    def module_file(parent_dir, name):
        for cand in (os.path.join(parent_dir, name + ".rs"), os.path.join(parent_dir, name, "mod.rs")):
            if os.path.exists(cand):
                return cand
        return None

    public_free, public_types, found = set(), set(), set()

    def walk(path, file, is_pub):
        txt = _strip_comments(open(file, errors="replace").read())
        d = os.path.dirname(file) if os.path.basename(file) in ("lib.rs", "mod.rs") else os.path.join(
            os.path.dirname(file), os.path.basename(file)[:-3])
        globs, names = set(), set()
        for m in re.finditer(r"^\s*pub use\s+(?:self::|crate::)?([\w:]+)::(\*|\{[^}]*\}|\w+)\s*;", txt, flags=re.M):
            child = m.group(1).split("::")[0]
            what = m.group(2)
            if what == "*":
                globs.add(child)
            else:
                for nm in re.findall(r"\w+", what):
                    names.add((child, nm))
        # free functions and types of this module
        depth = 0
        impl_type = []
        for line in txt.splitlines():
            if re.match(r"^impl\b", line):
                hdr = re.sub(r"^impl\s*<[^>]*>", "impl", line)
                t = re.findall(r"\b([A-Z]\w*)\b", hdr.split(" for ")[-1])
                impl_type = [t[0]] if t else ["?"]
            elif re.match(r"^\}", line):
                impl_type = []
            mf = re.match(r"^(\s*)pub fn\s+(\w+)", line)
            if mf:
                if mf.group(1) == "" and is_pub:
                    public_free.add(mf.group(2))
                mods.setdefault(path, []).append((mf.group(2), mf.group(1) != "", impl_type[0] if impl_type else None))
            mt = re.match(r"^pub (?:struct|enum)\s+(\w+)", line)
            if mt and is_pub:
                public_types.add(mt.group(1))
        for m in re.finditer(r"^\s*(pub\s+)?mod\s+(\w+)\s*;", txt, flags=re.M):
            child = m.group(2)
            cf = module_file(d, child)
            if cf is None:
                continue
            child_pub = is_pub and bool(m.group(1))
            walk(path + (child,), cf, child_pub)
            if is_pub:
                for nm, is_method, ty in mods.get(path + (child,), []):
                    if not is_method and (child in globs or (child, nm) in names):
                        public_free.add(nm)
                for (c, nm) in names:
                    if c == child and nm[:1].isupper():
                        public_types.add(nm)

    walk((), os.path.join(src, "lib.rs"), True)
    for path, fns in mods.items():
        for nm, is_method, ty in fns:
            if is_method and ty in public_types:
                found.add(nm)
    return found | public_free


def uncovered_pub_fns():
    covered = set(KNOWN_ELSEWHERE)
    for name, _, _ in TABLE.values():
        covered.add(re.match(r"\w+", name).group(0))
    return sorted(scan_pub_fns() - covered)


_orig_run = ApiProp.run


def _run(self, seed, tier, wd):
    out = _orig_run(self, seed, tier, wd)
    missing = uncovered_pub_fns()
    if missing:
        out["corr_errors"].append("public functions present in /repo/src but unknown to the API sweep: %s" % missing)
    out.setdefault("stats", {})["pub_fns_in_source"] = len(scan_pub_fns())
    return out


ApiProp.run = _run
