"""C05 — betweenness centrality equals its definition."""
from fractions import Fraction

import centgen as cg
import gv
import props


def bc_definition(c):
    """independent of the Coq model: ordered-pair sum of sigma_sv*sigma_vt/sigma_st over pairs with
    d(s,v)+d(v,t)=d(s,t), then the scaling rules of the property text.  -> {name: Fraction} or None"""
    ok, nodes, w = cg.effective(c)
    if not ok:
        return None
    n = len(nodes)
    if n > 200:
        return cg.brandes_fast(nodes, w, c["weighted"], c["spec"][0], c["normalized"])
    d, sig = cg.all_pairs(nodes, w, c["weighted"])
    out = {}
    directed = c["spec"][0]
    for vi, v in enumerate(nodes):
        raw = Fraction(0)
        for s in range(n):
            for t in range(n):
                if s == vi or t == vi or s == t or d[s][t] is None:
                    continue
                if d[s][vi] is None or d[vi][t] is None or d[s][vi] + d[vi][t] != d[s][t]:
                    continue
                raw += Fraction(sig[s][vi] * sig[vi][t], sig[s][t])
        if c["normalized"]:
            val = raw / ((n - 1) * (n - 2)) if n > 2 else raw
        else:
            val = raw if directed else raw / 2
        out[v] = val
    return out


class C05(props.BaseProp):
    id = "C05"
    run_module = "Run.RunBrandes"
    harness_mode = "cent"
    quick_n, thorough_n = 1500, 15000
    shards = 12
    rule = ("graphs handed to new_from_nodes_and_edges: 0-8 nodes (integer names whose sort order differs from "
            "insertion order; some nodes only created by edges, some isolated), 0..2n+1 edges, directed/undirected x "
            "single/multi-edge (parallel edges re-hit 25% of the time where the dedupe policy accepts them), self-loops "
            "10%, two-block disconnected graphs 25%, ring+chord graphs with many equal-length ties 14%; weighted "
            "(weights {1,2,3}) or hop-count (weights NaN/mixed, ignored) x normalized/raw; plus 3% hop-count graphs of "
            "21-23 nodes (rayon path). Compared with the Coq model: build outcome, call outcome, sorted name->value map "
            "(1e-9), flags 51 (heap tie choice unobservable), 52 (model = brute-force definition, n<=8) and 53 (rows list a "
            "neighbour once, indexes in range, weighted costs > 0: the hypotheses of the model-level theorems). Oracle on "
            "the implementation: one entry per node and every value equal to the definition computed independently in "
            "Python (exact rationals). non-trivial = some node has non-zero betweenness; distinct = distinct case text")

    def gen(self, seed, n):
        r = gv.SplitMix(seed * 1000003 + 5)
        r2 = gv.SplitMix(seed * 7919 + 505)
        cases = []
        for i in range(n):
            directed = r.below(2) == 1
            multi = r.below(3) == 0
            weighted = r.below(2) == 1
            big = r.below(100) < 3
            if big:
                nn = 21 + r.below(3)
                weighted = False
            else:
                nn = r.pick([0, 1, 2, 2, 3, 3, 4, 4, 5, 5, 5, 6, 6, 6, 7, 7, 8, 8])
            wmode = "real" if weighted else r.pick(["nan", "mixed", "real"])
            spec, nodes, edges = cg.gen_graph(r, nn, directed, multi, wmode, dense=(nn <= 5))
            if weighted and not big and r.below(100) < 12:
                # structured: tie-then-improve gadget (path count must be reset when a strictly shorter
                # path to an already tentatively reached node is found)
                names = cg.gen_names(r, 6 + r.below(2))
                nodes = names if r.below(2) else names[:r.below(4)]
                edges = cg.gadget_tie_then_improve(r, names)
                spec = (spec[0], 0, spec[2], 2, 0, 1)
            c = {"id": "b%d" % i, "spec": spec, "nodes": nodes, "edges": edges,
                 "weighted": weighted, "normalized": r.below(2) == 1, "withdef": nn <= 8}
            if weighted and not big:
                cg.weight_variant(r2, c)
            cases.append(c)
            if weighted and not big and i % 12 == 5:
                nm = cg.gen_names(r2, 5 + r2.below(2))
                c["nodes"], c["edges"] = (nm if r2.below(2) else nm[:r2.below(4)]), cg.gadget_decrease_key(r2, nm)
                c["spec"] = (c["spec"][0], 0, c["spec"][2], 2, 0, 1)
                c.pop("wscale", None)
            if i % 1500 == 400:
                # 2^70 equal-length shortest paths between the ends (oracle only): path counters must not overflow
                h = cg.diamond_chain(r2, "bd%d" % i)
                h.update(weighted=r2.below(2) == 1, normalized=r2.below(2) == 1, withdef=False)
                cases.append(h)
            if i % 1500 == 750:
                # above 1024 nodes (oracle only): a size-dependent slip in the parallel arm (batching, chunking)
                h = cg.huge_case(r2, "bh%d" % i)
                h.update(weighted=r2.below(2) == 1, normalized=r2.below(2) == 1, withdef=False)
                cases.append(h)
        return cases

    def to_harness(self, c):
        return "\n".join(["case %s" % c["id"]] + cg.to_harness_graph(c) +
                         ["call bc %d %d %d" % (c["weighted"], c["normalized"], c["withdef"]), "end"])

    def to_coq(self, c):
        return "mkbc %s %s %s %s" % (cg.to_coq_graph(c), cg.b(c["weighted"]), cg.b(c["normalized"]),
                                     cg.b(c["withdef"]))

    def case_json(self, c):
        return {"id": c["id"], "spec": list(c["spec"]), "nodes": c["nodes"], "edges": [list(e) for e in c["edges"]],
                "weighted": bool(c["weighted"]), "normalized": bool(c["normalized"]), "withdef": bool(c["withdef"]),
                "wscale": c.get("wscale", 0), "nomodel": bool(c.get("nomodel"))}

    def case_from_json(self, j):
        c = cg.graph_from_json(j)
        c.update(id=j.get("id", "replay"), weighted=j["weighted"], normalized=j["normalized"],
                 withdef=j.get("withdef", len(j["nodes"]) <= 8))
        if j.get("nomodel"):
            c["nomodel"] = True
        return c

    def oracle(self, c, o):
        msgs = []
        codes = [ob[1][0][0] for ob in o if ob[0] == 1]
        exp = bc_definition(c)
        if exp is None:
            if codes and codes[0] == 0:
                msgs.append("construction succeeded although the edge list violates the GraphSpecs policy")
            return msgs
        if len(codes) < 2 or codes[0] != 0:
            return ["construction failed with code %s on an acceptable edge list" % codes[:1]]
        if codes[1] != 0:
            return ["betweenness_centrality did not return Ok (code %d)" % codes[1]]
        m = [ob for ob in o if ob[0] == 1050]
        if not m:
            return ["no result map"]
        names = [r[0] for r in m[0][1]]
        vals = m[0][2]
        if sorted(names) != sorted(exp.keys()):
            return ["result does not have exactly one entry per node: %s vs nodes %s" % (sorted(names), sorted(exp))]
        for nm, v in zip(names, vals):
            if not cg.close(v, exp[nm]):
                msgs.append("betweenness of node %d is %r, its definition gives %s" % (nm, v, exp[nm]))
                break
        return msgs

    def nontrivial(self, c, o):
        m = [ob for ob in o if ob[0] == 1050]
        return bool(m) and any(v != 0 for v in m[0][2])

    def stats_key(self, c, o):
        n = len(cg.effective(c)[1])
        return ["dir%d_multi%d" % (c["spec"][0], c["spec"][1]), "n_%s" % (n if n <= 8 else ("21-23" if n < 100 else ">1024")),
                "weighted%d_norm%d" % (c["weighted"], c["normalized"])] + \
               ["outcome_%s" % "_".join(str(ob[1][0][0]) for ob in o if ob[0] == 1)]

    def shrink_candidates(self, c):
        return cg.shrink_graph(c)


P = props.register(C05())
P.manifest = {
    "text": "BOTH MODES PROVED IN FULL (unbounded, axiom-free). HOP-COUNT: for every graph state, the vector returned by the "
            "transcribed betweenness_centrality (queue BFS stage with D/sigma/P/S, dependency accumulation excluding the "
            "source, all sources in index order on the serial or the rayon path, rescaling) equals bc_def: the sum over "
            "ordered pairs (s,t), s<>v<>t, of the fraction of shortest s-t paths (brute-force enumeration of simple paths, "
            "those of minimal length) through v; raw undirected halved; normalised divided by (n-1)(n-2) for n>2 "
            "(C05_brandes_hop_count, C05_model_hop_count; via loop invariant of the stage, exactness of the path "
            "enumeration, Brandes' dependency recurrence and its uniqueness). WEIGHTED (C05_brandes_weighted, "
            "C05_model_weighted): the same equality with shortest = minimal total weight, for every graph whose costs are "
            "strictly positive integers and for EVERY tie choice of the BinaryHeap: loop invariant of the heap stage "
            "(distances; S = reachable nodes in non-decreasing distance; P[w] = tight incoming edges, reset on a strict "
            "improvement and extended on a tie; sigma[src] = 2 by the `sigma[v] += sigma[pred]` quirk at the pop of the "
            "source's own entry, sigma[w] = sum over P[w] elsewhere with the discoverer's share added at w's pop, hence "
            "sigma[w] = 2 * #shortest paths, C05_stage_dijkstra_sigma_counts_paths), exactness of the path enumeration "
            "for weights, Brandes' lemma generically in the shortest-path DAG, and invariance of the dependency "
            "recurrence under a uniform sigma factor (C05_recurrence_ignores_uniform_sigma_factor). Also for all graphs: "
            "endpoints never count, pairs without a path contribute nothing, <=2 nodes => all 0, one entry per node, the "
            "four get_scale cases, rayon path = serial path; the fuel the model passes is never exhausted in either mode "
            "(C05_stage_bfs_total, C05_stage_dijkstra_total, C05_weighted_total, C05_hop_count_total). END TO END (round 2, "
            "Proofs/BrandesWF.v; C05_betweenness_WF / _reachable / _constructed): for EVERY graph state satisfying the "
            "coherence invariant WF, hence every state reachable by any history of mutations or returned by the "
            "constructor, every heap tie choice, both modes and both scalings, betweenness_centrality returns Ok - no "
            "error, no panic, fuel never exhausted - with one entry per node in node order and values equal (as "
            "rationals) to bc_def of the EDGE-STORE GRAPH, spelled out in the theorem: one row per node, a neighbour at "
            "most once per row, (j,c) in row i iff an edge is stored between the i-th and the j-th node (either "
            "orientation when undirected) and c = 1 (hop count) or the minimum stored weight of the pair (weighted; "
            "C05_arc_cost_is_min_weight). The former per-case hypotheses are theorems: conv_adj succeeds, adj_ok, "
            "rows_nodup, rows_pos all follow from WF (+ 'every stored weight is a positive real' in weighted mode) "
            "(C05_WF_gives_model_hypotheses, C05_traversal_graph_is_edge_store). bc_def does not depend on the order of "
            "the entries in a row (C05_def_row_order_irrelevant, C05_def_depends_on_arcs_only), so the value is a function "
            "of the arc relation: C05_betweenness_WF_any_adjacency, C05_betweenness_depends_on_arcs_only (and, from the "
            "edge multiset, C03_betweenness_depends_on_edge_store_only). Non-vacuity on a KeepLast history that replaces "
            "a weight (betweenness of the middle node 0 before, 1 after): C05_reachable_nonvacuous.",
    "note": "Remaining premise of the end-to-end theorems: in weighted mode every stored weight is a real number > 0 "
            "(integrality is by construction of the model's weights); none in hop-count mode. Zero or negative weights "
            "are outside the theorem (and outside the property: Dijkstra-style stages need positive costs); a NaN weight "
            "in weighted mode is outside the modelled domain. The hypotheses of the two model-level theorems (each "
            "neighbour once per row, indexes in range, costs > 0) are still evaluated per case (observation 53, sound by "
            "C05_rows_check_sound / C05_rows_pos_check_sound) but only as a tie between model and code: they are now "
            "consequences of WF. That the adjacency read represents the stored edges is no longer delegated to C03's "
            "per-case check: it is C05_traversal_graph_is_edge_store; the independent Python oracle from the edge list "
            "stays. Observations 52 (model = brute-force definition, n<=8, exact rationals) and 51 (heap tie choice "
            "unobservable) are now consequences of the theorems for the model; they are kept as correspondence checks. "
            "Trusted: Coq kernel + vm_compute; harness/printers/diff (1e-9 on reals). Modelled not verified: IEEE rounding "
            "(model in Q), BinaryHeap pop among equal distances (first/last-minimal oracle in the executable model; the "
            "theorems hold for both values of the oracle and their stage invariant only uses 'some minimal entry is "
            "popped'), rayon indexed collect (index-order map, proved equal to the serial loop). A NaN weight in weighted "
            "mode is outside the modelled domain (never generated). Axioms: none.",
    "technique": "Coq proof (loop invariants of both single-source stages, exact path enumeration, combinatorics of "
                 "shortest-path counts generic in the shortest-path DAG) + differential correspondence vs vm_compute model "
                 "(incl. per-case evaluation of the executable definition) + independent definitional oracle on the "
                 "implementation",
}
P.rule += ' WEIGHT VARIANTS (separate PRNG stream): 20% of the weighted cases are run with a dyadic weight scale applied inside the harness (all weights x 2^k on input, weight-valued observations / 2^k on output, k in {-60, -3, 40}; exact in binary64, so the observations must equal those of the unscaled integers the model and the oracle use): path-length differences far below f64::EPSILON, all weights below 1, large magnitudes; a further 8% use weights 2^24 + {1,2,3} (exact in binary64, not representable in binary32).'
