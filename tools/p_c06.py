"""C06 — closeness centrality equals its definition."""
from fractions import Fraction

import centgen as cg
import gv
import props


def cc_definition(c):
    """independent of the Coq model -> {name: Fraction} or None when construction must fail"""
    ok, nodes, w = cg.effective(c)
    if not ok:
        return None
    n = len(nodes)
    if n > 200:
        return cg.closeness_fast(nodes, w, c["weighted"], c["wf"])
    d, _ = cg.all_pairs(nodes, w, c["weighted"])
    out = {}
    for ui, u in enumerate(nodes):
        inc = [d[v][ui] for v in range(n) if d[v][ui] is not None]   # distances of paths arriving at u
        r = len(inc)
        tot = sum(inc, Fraction(0))
        if r <= 1 or n <= 1:
            out[u] = Fraction(0)
        else:
            val = Fraction(r - 1) / tot
            if c["wf"]:
                val *= Fraction(r - 1, n - 1)
            out[u] = val
    return out


class C06(props.BaseProp):
    id = "C06"
    run_module = "Run.RunCloseness"
    harness_mode = "cent"
    quick_n, thorough_n = 1500, 15000
    shards = 12
    rule = ("graphs handed to new_from_nodes_and_edges: 0-8 nodes (integer names whose sort order differs from "
            "insertion order; isolated nodes; nodes created only by edges), 0..2n+1 edges, directed/undirected x "
            "single/multi-edge, self-loops, parallel edges, two-block disconnected graphs; 35% of the directed graphs "
            "are forward-only (DAG-like) so that reachability is asymmetric; weighted (weights {1,2,3}) or hop-count x "
            "wf_improved on/off; 3% graphs of 21-23 nodes (rayon path; hop-count compared with the model, weighted decided by "
            "the definitional oracle alone); 10% of the weighted cases use weights w/4 "
            "(below 1, exact in binary64; decided by the definitional oracle alone, the model being over integer weights). "
            "Compared with the Coq model: build "
            "outcome, call outcome, sorted name->value map (1e-9), flags 61 (heap tie choice unobservable), 62 (the "
            "model's distance vectors pass the verified checker check_dist for every source) and 63 (searched adjacency "
            "= transpose of the graph's adjacency). Oracle on the implementation: one entry per node and every value "
            "equal to the definition (incoming distances, exact rationals) computed independently in Python. "
            "non-trivial = some node has non-zero closeness; distinct = distinct case text")

    def gen(self, seed, n):
        r = gv.SplitMix(seed * 1000003 + 6)
        r2 = gv.SplitMix(seed * 7919 + 606)
        cases = []
        for i in range(n):
            directed = r.below(3) != 0
            multi = r.below(3) == 0
            weighted = r.below(2) == 1
            big = r.below(100) < 3
            bigw = False
            if big:
                nn = 21 + r.below(3)
                # the parallel arm (more than 20 nodes) in both modes; the weighted big cases are decided by
                # the definitional oracle alone (the in-Coq evaluation of the heap search on 22 nodes is slow)
                bigw = r.below(2) == 0
                weighted = bigw
            else:
                nn = r.pick([0, 1, 2, 2, 3, 3, 4, 4, 5, 5, 5, 6, 6, 6, 7, 7, 8, 8])
            wmode = "real" if weighted else r.pick(["nan", "mixed", "real"])
            spec, nodes, edges = cg.gen_graph(r, nn, directed, multi, wmode, dense=(nn <= 5))
            if directed and r.below(100) < 35:
                # forward-only: orient every edge from the earlier to the later name of a fixed order
                order = sorted(set(nodes) | set(x for e in edges for x in e[:2]))
                pos = {x: k for k, x in enumerate(order)}
                edges = [((u, v, w) if pos[u] <= pos[v] else (v, u, w)) for (u, v, w) in edges]
                if spec[3] == 0 and not multi:
                    seen, es = set(), []
                    for e in edges:
                        if (e[0], e[1]) not in seen:
                            seen.add((e[0], e[1]))
                            es.append(e)
                    edges = es
            c = {"id": "c%d" % i, "spec": spec, "nodes": nodes, "edges": edges,
                 "weighted": weighted, "wf": r.below(2) == 1}
            if bigw:
                c["nomodel"] = True
            if weighted and not big and r.below(100) < 10:
                # weights below 1 (w/4, exact in binary64): closeness may exceed 1; the Coq model is stated for
                # integer weights, so these cases are decided by the definitional oracle alone
                # w/10 and w/7 are NOT exact in binary64: distances then carry rounding errors of a few ulp, which the
                # oracle's 1e-9 tolerance absorbs (closeness depends on distances only, never on ties between paths)
                c["wdiv"] = r2.pick([4, 4, 10, 7])
                c["nomodel"] = True
            elif weighted and not big:
                cg.weight_variant(r2, c)
            cases.append(c)
            if weighted and not big and not c.get("wdiv") and i % 12 == 5:
                nm = cg.gen_names(r2, 5 + r2.below(2))
                c["nodes"], c["edges"] = (nm if r2.below(2) else nm[:r2.below(4)]), cg.gadget_decrease_key(r2, nm)
                c["spec"] = (c["spec"][0], 0, c["spec"][2], 2, 0, 1)
                c.pop("wscale", None)
            if i % 1500 == 750:
                # above 1024 nodes (oracle only): a size-dependent slip in the parallel arm
                h = cg.huge_case(r2, "ch%d" % i)
                h.update(weighted=r2.below(2) == 1, wf=r2.below(2) == 1)
                cases.append(h)
        return cases

    def to_harness(self, c):
        return "\n".join(["case %s" % c["id"]] + cg.to_harness_graph(c) +
                         ["call cc %d %d" % (c["weighted"], c["wf"]), "end"])

    def to_coq(self, c):
        return "mkcc %s %s %s" % (cg.to_coq_graph(c), cg.b(c["weighted"]), cg.b(c["wf"]))

    def case_json(self, c):
        return {"id": c["id"], "spec": list(c["spec"]), "nodes": c["nodes"], "edges": [list(e) for e in c["edges"]],
                "weighted": bool(c["weighted"]), "wf": bool(c["wf"]), "wdiv": c.get("wdiv", 1),
                "nomodel": bool(c.get("nomodel")), "wscale": c.get("wscale", 0)}

    def case_from_json(self, j):
        c = cg.graph_from_json(j)
        c.update(id=j.get("id", "replay"), weighted=j["weighted"], wf=j["wf"])
        if j.get("nomodel"):
            c["nomodel"] = True
        return c

    def oracle(self, c, o):
        msgs = []
        codes = [ob[1][0][0] for ob in o if ob[0] == 1]
        exp = cc_definition(c)
        if exp is None:
            if codes and codes[0] == 0:
                msgs.append("construction succeeded although the edge list violates the GraphSpecs policy")
            return msgs
        if len(codes) < 2 or codes[0] != 0:
            return ["construction failed with code %s on an acceptable edge list" % codes[:1]]
        if codes[1] != 0:
            return ["closeness_centrality did not return Ok (code %d)" % codes[1]]
        m = [ob for ob in o if ob[0] == 1060]
        if not m:
            return ["no result map"]
        names = [r[0] for r in m[0][1]]
        vals = m[0][2]
        if sorted(names) != sorted(exp.keys()):
            return ["result does not have exactly one entry per node: %s vs nodes %s" % (sorted(names), sorted(exp))]
        for nm, v in zip(names, vals):
            if not cg.close(v, exp[nm]):
                msgs.append("closeness of node %d is %r, its definition gives %s" % (nm, v, exp[nm]))
                break
        return msgs

    def nontrivial(self, c, o):
        m = [ob for ob in o if ob[0] == 1060]
        return bool(m) and any(v != 0 for v in m[0][2])

    def stats_key(self, c, o):
        ok, nodes, w = cg.effective(c)
        n = len(nodes)
        ks = ["dir%d_multi%d" % (c["spec"][0], c["spec"][1]), "n_%s" % (n if n <= 8 else ("21-23" if n < 100 else ">1024")),
              "weighted%d_wf%d" % (c["weighted"], c["wf"]),
              "outcome_%s" % "_".join(str(ob[1][0][0]) for ob in o if ob[0] == 1)]
        if ok and c["spec"][0] and n <= 8:
            d, _ = cg.all_pairs(nodes, w, False)
            asym = any((d[i][j] is None) != (d[j][i] is None) for i in range(n) for j in range(n))
            ks.append("directed_asymmetric_reachability_%d" % asym)
        return ks

    def shrink_candidates(self, c):
        return cg.shrink_graph(c)


P = props.register(C06())
P.manifest = {
    "text": "BOTH MODES PROVED BY LOOP INVARIANT (unbounded, axiom-free), for every graph and every source: the model's "
            "level-synchronous BFS (hop count; fuel never exhausted) and its heap search (positive integer weights; EVERY "
            "tie choice of the BinaryHeap) return exactly the reachable nodes, each once, with their shortest distances; "
            "the formula stage of get_node_centrality is proved exactly ((r-1)/tot, x (r-1)/(n-1) with wf_improved, 0 when "
            "r<=1 or n<=1, never panics); searching the transposed adjacency yields INCOMING distances; hence the value "
            "the model reports for a node is its closeness as defined (C06_hop_count_model_value, "
            "C06_weighted_model_value); one entry per node. In addition a VERIFIED CHECKER (check_dist sound for any "
            "integer-cost adjacency and any vector; check_transpose sound) is evaluated for every source of every "
            "generated graph (observations 62, 63). ROUND 2, END TO END (Proofs/ClosenessStateOk.v, DijkstraFuelOk.v; "
            "generic name type, from the coherence invariant WF of C01-C03): C06_reverse_transposes(_pairs) / "
            "C06_reverse_rows_are_predecessor_rows - the successors_vec of reverse() is the TRANSPOSE of the source's: "
            "row j of the result is, up to the order of its entries, row j of the source's predecessors_vec (same "
            "indexes always; same weights on single-edge graphs or when all weights are real), and predecessors_vec is "
            "the transpose of successors_vec (C06_predecessors_transpose_successors); "
            "C06_undirected_adjacency_symmetric - the successors_vec of an undirected graph is symmetric, weights "
            "included; C06_dijkstra_total / C06_weighted_no_fuel_exhaustion - the fuel 2+|E|+|V| of the weighted heap "
            "loop is never exhausted (any costs, any tie choice); C06_closeness_reachable - for EVERY graph reachable "
            "by any history of add_node(s)/add_edge(s) (positive real weights in weighted mode) closeness_centrality "
            "returns Ok (no error, panic or fuel exhaustion), one entry per node in node order, and the i-th value is "
            "the closeness of the definition over the adjacency read off get_all_edges (C06_edge_list_adjacency: one "
            "entry per stored edge from node i to node j, either orientation when undirected, parallel edges "
            "separately) with INCOMING distances; C06_closeness_undirected_reachable - on undirected graphs the same "
            "value over ordinary (outgoing) distances.",
    "note": "Observation 63 (reverse() yields the transposed adjacency / an undirected adjacency is symmetric) and "
            "the fuel of the weighted loop were per-case facts until round 2; they are now theorems (see text) and 63 "
            "is kept as a per-case tie between model and code. Row ORDER inside successors_vec of reverse() is not "
            "determined (hash iteration): the theorems are membership / Permutation statements, which is all the "
            "distance theorems use. On a multigraph mixing NaN and real weights inside one group the traversal weight "
            "(running minimum) depends on the group's order and the weight part of the transposition is not claimed "
            "(hypothesis weights_transposable); the end-to-end theorem needs no such case (weighted mode requires "
            "positive real weights - the property's own premise; check_dist also verifies it per case). Trusted: Coq kernel + vm_compute; harness/printers/diff; modelled not verified: IEEE "
            "rounding, IntSet/IntMap iteration order (only sum and length of the result list are used), BinaryHeap (as "
            "'some minimal entry', quantified over in the theorems; observation 61 also compares first/last per case), "
            "rayon collect. Axioms: none.",
    "technique": "Coq proof (BFS and Dijkstra loop invariants, formula stage, verified distance checker) + differential "
                 "correspondence vs vm_compute model + independent definitional oracle on the implementation",
}
P.rule += ' WEIGHT VARIANTS (separate PRNG stream): 20% of the weighted cases are run with a dyadic weight scale applied inside the harness (all weights x 2^k on input, weight-valued observations / 2^k on output, k in {-60, -3, 40}; exact in binary64, so the observations must equal those of the unscaled integers the model and the oracle use): path-length differences far below f64::EPSILON, all weights below 1, large magnitudes; a further 8% use weights 2^24 + {1,2,3} (exact in binary64, not representable in binary32).'
