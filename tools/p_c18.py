"""C18 — eigenvector centrality returns a unit-norm approximate dominant eigenvector."""
import math
from fractions import Fraction

import centgen as cg
import gv
import props

TOLS = {2: Fraction(1, 100), 6: Fraction(1, 10 ** 6), 12: Fraction(1, 10 ** 12)}


def me(m, e):
    return Fraction(m) * (Fraction(2) ** e)


def matrix(c):
    """(nodes, M) with M = I + A^T as a dict-of-rows over floats; None when construction must fail.
    A[u][v] = weight of u->v (1 for an unweighted edge or in hop-count mode), symmetric when undirected."""
    ok, nodes, w = cg.effective(c)
    if not ok:
        return None
    A = {}
    for (u, v), wt in w.items():
        A[(u, v)] = 1.0 if (not c["weighted"] or wt is None) else float(wt)
    return nodes, A


def next_step(nodes, A, x):
    y = dict(x)
    for (u, v), wt in A.items():
        y[v] += x[u] * wt
    nrm = math.sqrt(sum(t * t for t in y.values()))
    if nrm == 0.0:
        nrm = 1.0
    return {k: t / nrm for k, t in y.items()}


class C18(props.BaseProp):
    id = "C18"
    run_module = "Run.RunEigen"
    harness_mode = "cent"
    quick_n, thorough_n = 900, 12000
    shards = 12
    skipped_near_threshold = 0
    rule = ("graphs handed to new_from_nodes_and_edges: 0-8 nodes, directed/undirected, single-edge (85%) and "
            "multi-edge (15%, must be refused with WrongMethod), self-loops, isolated nodes, disconnected graphs; "
            "weighted (weights {0,1,2,3}, some NaN) or unweighted; max_iter in {1,2,5,100,None}, tolerance in "
            "{1e-2,1e-6,1e-12,None}. Compared with the Coq model executed on primitive binary64 floats: build outcome, "
            "call outcome kind (skipped, and counted, only when a decisive L1 value of the model is within 1e-9 relative "
            "of n*tol) and the vector within 4*n*tol+1e-9. Oracle on the implementation's output: one entry per node, "
            "entries >= 0, |Euclidean norm - 1| <= 1e-9, one further step x -> normalise(x + A^T x) (recomputed in "
            "Python from the input edge list) moves x by at most 2*sqrt(n)*||I+A^T||_F*n*tol + 1e-9 in L1, and the only "
            "errors are PowerIterationFailedConvergence (single-edge) / WrongMethod (multi-edge). non-trivial = Ok "
            "with at least one edge; distinct = distinct case text")

    def gen(self, seed, n):
        r = gv.SplitMix(seed * 1000003 + 18)
        cases = []
        for i in range(n):
            directed = r.below(2) == 1
            multi = r.below(100) < 15
            weighted = r.below(2) == 1
            nn = r.pick([0, 1, 2, 2, 3, 3, 4, 4, 5, 5, 5, 6, 6, 6, 7, 7, 8, 8])
            wmode = r.pick(["real", "real", "mixed"]) if weighted else r.pick(["nan", "mixed", "real"])
            spec, nodes, edges = cg.gen_graph(r, nn, directed, multi, wmode, dense=(nn <= 5))
            if weighted and r.below(5) == 0:
                edges = [(u, v, (0 if (w is not None and r.below(4) == 0) else w)) for (u, v, w) in edges]
            if not weighted and i % 4 == 1:
                # an UNWEIGHTED request on a graph that stores weights, some of them exactly 0.0: every stored edge
                # counts 1 in the 0/1 adjacency matrix, whatever its weight
                rz = gv.SplitMix(seed * 7919 + 18000 + i)
                edges = [(u, v, (0 if rz.below(3) == 0 else (w if w is not None else 1 + rz.below(3)))) for (u, v, w) in edges]
            mi = r.pick([1, 2, 5, 100, 100, 100, None])
            te = r.pick([2, 6, 6, 12, None])
            c = {"id": "e%d" % i, "spec": spec, "nodes": nodes, "edges": edges,
                 "weighted": weighted, "max_iter": mi, "tolexp": te}
            if i % 12 == 7:
                # a multi-step build (oracle only): existing nodes are re-added after the edges - the centrality
                # must still be that of the stored edges
                ok_, nds_, _w = cg.effective(c)
                if ok_ and nds_:
                    c["readd"] = [nds_[(5 * i + k) % len(nds_)] for k in range(1 + i % 2)]
                    c["nomodel"] = True
            cases.append(c)
            if i % 150 == 50:
                # directed graphs of 21-30 nodes with unequal in- and out-degrees (oracle only): above the size at which
                # other algorithms of the crate switch to a rayon arm; left and right dominant eigenvectors differ
                r3 = gv.SplitMix(seed * 7919 + 18500 + i)
                nd = 21 + r3.below(10)
                nm = r3.shuffle(list(range(nd)))
                ed = [(nm[j], nm[(j + 1) % nd], 1 + r3.below(3)) for j in range(nd)]
                hub = nm[r3.below(nd)]
                ed += [(hub, x, 1 + r3.below(3)) for x in nm if x != hub and r3.below(3) == 0]
                seen_d, ee = set(), []
                for e in ed:
                    if (e[0], e[1]) not in seen_d:
                        seen_d.add((e[0], e[1]))
                        ee.append(e)
                cases.append({"id": "ed%d" % i, "spec": (1, 0, 1, 2, 0, 1), "nodes": nm, "edges": ee,
                              "weighted": r3.below(2) == 1, "max_iter": r3.pick([1000, 1000, 100]), "tolexp": 6,
                              "nomodel": True})
            if i % 450 == 100:
                # hub-dominated graphs of 250-400 nodes at the loosest tolerance (oracle only): the stopping test
                # n * tol is then met in the VERY FIRST pass, where the previous iterate is still the un-normalised
                # start vector - what is returned must be the normalised new iterate all the same
                r2 = gv.SplitMix(seed * 7919 + 1800 + i)
                nh = 250 + r2.below(151)
                dirh = r2.below(2)
                names = r2.shuffle(list(range(nh)))
                hub = names[0]
                wts = lambda: (1 + r2.below(3))  # noqa: E731
                eh = [(x, hub, wts()) for x in names[1:]] if dirh else [(hub, x, wts()) for x in names[1:]]
                if dirh:
                    eh.append((hub, names[1], wts()))
                cases.append({"id": "eh%d" % i, "spec": (dirh, 0, 1, 2, 0, 1), "nodes": names, "edges": eh,
                              "weighted": r2.below(2) == 1, "max_iter": r2.pick([100, None]), "tolexp": 2, "nomodel": True})
        return cases

    def to_harness(self, c):
        return "\n".join(["case %s" % c["id"]] + cg.to_harness_graph(c) +
                         ["call ev %d %d %d" % (c["weighted"], -1 if c["max_iter"] is None else c["max_iter"],
                                                0 if c["tolexp"] is None else c["tolexp"]), "end"])

    def to_coq(self, c):
        mi = "None" if c["max_iter"] is None else "(Some %d%%nat)" % c["max_iter"]
        tl = "None" if c["tolexp"] is None else "(Some (1 # %d)%%Q)" % (10 ** c["tolexp"])
        return "mkec %s %s %s %s" % (cg.to_coq_graph(c), cg.b(c["weighted"]), mi, tl)

    def case_json(self, c):
        return {"id": c["id"], "spec": list(c["spec"]), "nodes": c["nodes"], "edges": [list(e) for e in c["edges"]],
                "weighted": bool(c["weighted"]), "max_iter": c["max_iter"], "tolexp": c["tolexp"],
                "readd": c.get("readd", []), "nomodel": bool(c.get("nomodel"))}

    def case_from_json(self, j):
        c = cg.graph_from_json(j)
        c.update(id=j.get("id", "replay"), weighted=j["weighted"], max_iter=j["max_iter"], tolexp=j["tolexp"])
        return c

    def tol(self, c):
        return TOLS[c["tolexp"]] if c["tolexp"] is not None else Fraction(1, 10 ** 6)

    # ---- correspondence: custom comparison (outcome kind with the near-threshold rule, vector tolerance)
    def compare(self, c, impl, model):
        """None when they agree; 'skip' when the comparison is undecidable in floating point; else text"""
        icodes = [ob[1][0][0] for ob in impl if ob[0] == 1]
        mcodes = [ob[1][0][0] for ob in model if ob[0] == 1]
        if any(ob[0] == 73 for ob in model):
            return "model produced a non-finite value"
        if icodes[:1] != mcodes[:1]:
            return "construction outcome impl %s model %s" % (icodes[:1], mcodes[:1])
        if len(icodes) < 2 and len(mcodes) < 2:
            return None
        if len(icodes) != len(mcodes):
            return "number of outcome observations impl %s model %s" % (icodes, mcodes)
        tr = [ob for ob in model if ob[0] == 72]
        margin = None
        if tr:
            vals = [me(r[0], r[1]) for r in tr[0][1]]
            thr, ys = vals[0], vals[1:]
            if thr > 0 and ys:
                margin = min(abs(y - thr) / thr for y in ys)
        if icodes[1] != mcodes[1]:
            if margin is not None and margin < Fraction(1, 10 ** 9):
                return "skip"
            return "outcome kind impl %d model %d" % (icodes[1], mcodes[1])
        if icodes[1] != 0:
            return None
        iv = [ob for ob in impl if ob[0] == 1070]
        mv = [ob for ob in model if ob[0] == 1070]
        if not iv or not mv:
            return "missing vector"
        im = {r[0]: f for r, f in zip(iv[0][1], iv[0][2])}
        mm = {r[0]: me(r[1], r[2]) for r in mv[0][1]}
        if sorted(im) != sorted(mm):
            return "keys impl %s model %s" % (sorted(im), sorted(mm))
        n = len(im)
        bound = 4 * n * self.tol(c) + Fraction(1, 10 ** 9)
        for k in im:
            if math.isnan(im[k]) or math.isinf(im[k]) or abs(Fraction(im[k]) - mm[k]) > bound:
                if margin is not None and margin < Fraction(1, 10 ** 9):
                    return "skip"
                return "entry %d impl %r model %s (allowed %s)" % (k, im[k], float(mm[k]), float(bound))
        return None

    def run_cases(self, cases, wd, tag="gen", build=True):
        res = {"failing": [], "corr_errors": [], "impl": {}}
        if build:
            rc, out = gv.harness_build(release=False)
            if rc != 0:
                res["corr_errors"].append("harness does not build against /repo: " + out[-1500:])
                return res
        impl, errs = self.run_impl(cases, wd, tag)
        res["corr_errors"] += errs
        res["impl"] = impl
        missing = [c["id"] for c in cases if c["id"] not in impl]
        if missing:
            res["corr_errors"].append("implementation produced no output for %d cases (crash/hang?) e.g. %s"
                                      % (len(missing), missing[:3]))
        full, errs = gv.coq_eval(self.run_module, [(c["id"], self.to_coq(c)) for c in cases], wd, tag="ev",
                                 shards=self.shards, run_fn="run")
        res["corr_errors"] += errs
        for c in cases:
            if c["id"] in impl and c["id"] in full:
                d = self.compare(c, impl[c["id"]], gv.decode_model(full[c["id"]]))
                if d == "skip":
                    self.skipped_near_threshold += 1
                elif d:
                    res["failing"].append((c, "implementation differs from the model: " + d, self.diff_kind))
        for c in cases:
            if c["id"] in impl:
                for msg in self.oracle(c, impl[c["id"]]):
                    res["failing"].append((c, "property oracle: " + msg, "counterexample"))
        return res

    # ---- the property itself on the implementation's output
    def oracle(self, c, o):
        codes = [ob[1][0][0] for ob in o if ob[0] == 1]
        mx = matrix(c)
        if mx is None:
            return ["construction succeeded although the edge list violates the GraphSpecs policy"] \
                if codes and codes[0] == 0 else []
        if len(codes) < 2 or codes[0] != 0:
            return ["construction failed with code %s on an acceptable edge list" % codes[:1]]
        nodes, A = mx
        if c["spec"][1]:
            return [] if codes[1] == 12 else ["multi-edge graph: expected WrongMethod, got code %d" % codes[1]]
        if codes[1] == 9:
            return []
        if codes[1] != 0:
            return ["outcome code %d is neither Ok nor PowerIterationFailedConvergence" % codes[1]]
        v = [ob for ob in o if ob[0] == 1070]
        x = {r[0]: f for r, f in zip(v[0][1], v[0][2])}
        if sorted(x) != sorted(nodes):
            return ["result does not have exactly one entry per node: %s vs %s" % (sorted(x), sorted(nodes))]
        if any(math.isnan(t) or math.isinf(t) for t in x.values()):
            return ["non-finite entry"]
        if any(t < 0 for t in x.values()):
            return ["negative entry %s" % min(x.values())]
        nrm = math.sqrt(sum(t * t for t in x.values()))
        if abs(nrm - 1.0) > 1e-9:
            return ["Euclidean norm is %r, not 1" % nrm]
        n = len(nodes)
        y = next_step(nodes, A, x)
        moved = sum(abs(y[k] - x[k]) for k in x)
        fro = math.sqrt(n + sum(t * t for t in A.values()) + 2 * sum(t for (u, vv), t in A.items() if u == vv))
        bound = 2 * math.sqrt(n) * fro * n * float(self.tol(c)) + 1e-9
        if moved > bound:
            return ["not an approximate fixed point: one further step moves the vector by %r in L1 "
                    "(bound %r from n*tol = %r)" % (moved, bound, n * float(self.tol(c)))]
        return []

    def nontrivial(self, c, o):
        codes = [ob[1][0][0] for ob in o if ob[0] == 1]
        return len(codes) >= 2 and codes[1] == 0 and len(c["edges"]) > 0

    def stats_key(self, c, o):
        n = len(cg.effective(c)[1])
        return ["dir%d_multi%d" % (c["spec"][0], c["spec"][1]), "n_%s" % (n if n < 20 else ("21-30" if n < 100 else "250-400")), "weighted%d" % c["weighted"],
                "max_iter_%s" % c["max_iter"], "tol_1e-%s" % c["tolexp"],
                "outcome_%s" % "_".join(str(ob[1][0][0]) for ob in o if ob[0] == 1)]

    def shrink_candidates(self, c):
        return cg.shrink_graph(c)

    def run(self, seed, tier, wd):
        self.skipped_near_threshold = 0
        out = super().run(seed, tier, wd)
        out["stats"]["outcome_comparisons_skipped_near_threshold"] = self.skipped_near_threshold
        return out


P = props.register(C18())
P.manifest = {
    "text": "Unbounded theorems for ANY number structure satisfying ordered-field-with-sqrt laws (record Laws; closed under the global context), about the transcribed power iteration: multi-edge graphs are refused with WrongMethod (F14 repaired); the only errors are WrongMethod / PowerIterationFailedConvergence; Ok is returned only from a pass whose L1 test against n*tol succeeded and never when no pass within max_iter meets it; one entry per node (keys = node names in node order); all entries >= 0 and sum of squares = 1 when the stored weights are >= 0. Since round 2 (deep7), for every graph satisfying the proved coherence invariant WF (hence every graph reachable by any history of mutations / built by new_from_nodes_and_edges; corollaries C18_result_reachable, C18_result_new_from, C18_approx_eigenvector_reachable, C18_next_step_bound_reachable): (a) C18_update_is_matrix_form - the accumulation loop never panics, keeps the keys and computes exactly x1[v] = xlast[v] + SUM over the stored edges e of get_all_edges with ev e = v, or (undirected) eu e = v, a self-loop once, of xlast[other end] * w(e) (w = 1 when unweighted or NaN), for xlast indexed by the node names in ANY order; also in node-indexed form xlast[v] + SUM_u xlast[u]*A[u][v] with A[u][v] the weight of the single stored edge between u and v (C18_update_is_matrix_form_entries, C18_matrix_entry_from_store, symmetric when undirected), as one vector equation spread = (I + A^T) x (C18_update_is_matvec) and, with no law of arithmetic at all, in key order (C18_update_in_key_order); generic Num, only the four SumLaws (+ commutative, associative, a+0 = a, a*0 = 0). Hence C18_approx_eigenvector: the returned x = normalise((I + A^T) xlast), A from the edge store, ||x - xlast||_1 < n*tol. The hypotheses 'keys = node names' and 'stored weights >= 0' (phrased on the private index store) are discharged from WF and a premise over get_all_edges (C18_weights_nonneg_from_edge_list, C18_initial_keys_WF, C18_result_WF). (b) At Coq's reals: C18_next_step_bound - for the returned x one further pass of the very loop (step) does not panic and measures an L1 change ||normalise((I+A^T)x) - x||_1 < L*n*tol with the explicit constant L = (n+1)*(1+Wtot), Wtot = SUM_{u,v} A[u][v]; C18_eigen_residual_bound - ||(I+A^T)x - lambda x||_1 < (1+Wtot)*n*tol with lambda = ||(I+A^T)xlast||_2 > 0. Non-vacuity at R: the one-node graph, and an undirected weighted 3-node graph with a self-loop built by a history (C18_weighted_example_*: result (2,6,9)/11, A = [[0,1,0],[1,0,4],[0,4,4]], Wtot = 14).",
    "note": "Chosen route for sqrt: the model is polymorphic in a Num record; it is EXECUTED on Coq primitive binary64 floats for the correspondence (no theorem mentions that instance) and PROVED for any lawful instance. The two former stretch items are now theorems: 'spread = x + A^T x' in matrix form over the edge store (generic Num + SumLaws, closed under the global context) and the explicit next-step bound (at R only; the constant L = (n+1)(1+Wtot) is cruder than the oracle's 2 sqrt(n) ||I+A^T||_F, which the oracle still checks on the implementation's output; the proof avoids Cauchy-Schwarz by bounding | ||Mx||_2 - lambda | <= ||Mx - lambda x||_1 entrywise). Not proved: the next-step bound for an abstract ordered field (the Laws record has no absolute-value/order-compatibility laws) and nothing about binary64 rounding. Remaining hypotheses: WF g (proved for every reachable state, C01) and 'forall e in get_all_edges g, weight >= 0 or NaN' (an input condition of the property). Outcome comparison is skipped only when a decisive L1 value is within 1e-9 relative of the threshold (counted in the evidence). Axioms: none for the generic theorems (23 of 32 pins closed); the R instance (C18_unit_norm_real, C18_real_instance_nonvacuous, C18_eigen_residual_bound, C18_next_step_bound(_reachable), C18_weighted_example_*) uses ClassicalDedekindReals.sig_forall_dec, sig_not_dec and FunctionalExtensionality.functional_extensionality_dep (stdlib Reals).",
    "technique": "Coq proof over an abstract ordered field with sqrt (instantiated with R) + differential "
                 "correspondence vs the same model executed on Coq primitive floats + property oracle on the "
                 "implementation",
}
