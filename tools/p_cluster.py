"""C11 — clustering, triangle and transitivity values equal their definitions.
Generator, serialisers and the property oracle: every definition is recomputed by brute force
from the case's edge list and compared with the implementation's output (independently of the
Coq model), plus range [0,1], subset consistency against the implementation's own full call,
and the refusals."""
import itertools
import math
from fractions import Fraction

import gv
import hist
import props
from p_comp import graph_lines, coq_graph, _perm_names

WM, NF = 12, 4


def gen_graph(rng, max_n=8):
    shape = rng.pick(["random", "random", "dense", "complete", "bipartite", "cycle", "wheel", "star", "path",
                      "triangles", "grid", "empty"])
    n = 1 + rng.below(max_n)
    if shape == "empty":
        n = 1 + rng.below(3)
    names = _perm_names(rng, n)
    E = []
    if shape == "random":
        for _ in range(rng.below(2 * n + 2)):
            E.append((rng.pick(names), rng.pick(names)))
    elif shape == "dense":
        for i, u in enumerate(names):
            for v in names[i + 1:]:
                if rng.chance(3, 5):
                    E.append((u, v) if rng.chance(1, 2) else (v, u))
    elif shape == "complete":
        for i, u in enumerate(names):
            for v in names[i + 1:]:
                E.append((u, v))
        if E and rng.chance(1, 2):
            E.pop(rng.below(len(E)))
    elif shape == "bipartite":
        a = 1 + rng.below(max(1, n - 1)) if n > 1 else 1
        for u in names[:a]:
            for v in names[a:]:
                if rng.chance(4, 5):
                    E.append((u, v))
    elif shape == "cycle":
        for i in range(n):
            E.append((names[i], names[(i + 1) % n]))
        if n > 3 and rng.chance(1, 2):
            E.append((names[0], names[2]))
    elif shape == "wheel":
        for i in range(1, n):
            E.append((names[0], names[i]))
            if n > 2:
                E.append((names[i], names[1 + (i % (n - 1))]))
    elif shape == "star":
        for v in names[1:]:
            E.append((names[0], v))
        if n > 2 and rng.chance(1, 2):
            E.append((names[1], names[2]))
    elif shape == "path":
        for a, b in zip(names, names[1:]):
            E.append((a, b))
    elif shape == "triangles":
        i = 0
        while i + 2 < n:
            a, b, c = names[i:i + 3]
            E += [(a, b), (b, c), (c, a)]
            i += 2 if rng.chance(1, 2) else 3
    elif shape == "grid":
        w = 2 if n < 6 else 3
        for i in range(n):
            if (i + 1) % w and i + 1 < n:
                E.append((names[i], names[i + 1]))
            if i + w < n:
                E.append((names[i], names[i + w]))
    E = rng.shuffle(E)
    # decorations: self-loops, reversed duplicates (reciprocal arcs when directed), repeated edges
    if rng.chance(2, 5):
        for _ in range(1 + rng.below(2)):
            x = rng.pick(names)
            E.append((x, x))
    if E and rng.chance(1, 2):
        for _ in range(1 + rng.below(3)):
            u, v = E[rng.below(len(E))]
            E.append((v, u))
    if E and rng.chance(1, 4):
        E.append(E[rng.below(len(E))])
    return shape, names, E


def subsets_of(rng, names, absent, limit):
    n = len(names)
    subs = []
    if (1 << n) - 1 <= limit:
        for r in range(1, n + 1):
            for comb in itertools.combinations(names, r):
                subs.append(list(comb))
    else:
        seen = set()
        for x in names:  # every singleton
            subs.append([x])
            seen.add((x,))
        subs.append(list(names))
        while len(subs) < limit:
            s = tuple(x for x in names if rng.chance(1, 2))
            if s and s not in seen:
                seen.add(s)
                subs.append(list(rng.shuffle(list(s))))
    # an absent name (alone and mixed in), a duplicate, the empty slice
    subs.append([absent])
    if names:
        subs.append([names[0], absent])
        subs.append([names[-1], names[0], names[-1]])
    subs.append([])
    return subs


def gen_cases(seed, n, limit=32, prefix="g"):
    rng = gv.SplitMix(seed * 104729 + 11)
    rng2 = gv.SplitMix(seed * 7919 + 1111)
    out = []
    for i in range(n):
        shape, names, E = gen_graph(rng, 8)
        r = i % 20
        if r < 15:      # single-edge graphs, self-loops allowed (kept) or dropped
            spec = (rng.below(2), 0, 1 if rng.chance(4, 5) else 0, 1 + rng.below(2), 0, 1)
        elif r < 18:    # multi-edge graphs: refusals
            spec = (rng.below(2), 1, 1, rng.below(3), 0, 1)
        else:           # dedupe = Error on a duplicate-free edge list
            spec = (rng.below(2), 0, 1, 0, 0, 0)
            seen, E2 = set(), []
            for (u, v) in E:
                k = (u, v) if spec[0] else (min(u, v), max(u, v))
                if k not in seen:
                    seen.add(k)
                    E2.append((u, v))
            E = E2
        touched = set(u for e in E for u in e)
        decl = [x for x in names if x not in touched or rng.chance(1, 2)]
        # every third case also calls the weighted forms: positive weights that are perfect cubes
        # (so that every cube root of a product of normalised weights is rational - exact in the
        # model); now and then one edge without weight (EdgeWeightNotSpecified)
        weighted = 1 if i % 3 == 2 else 0
        if weighted:
            wpool = rng.pick([[1, 8, 27, 64], [1, 8], [8], [1, 27, 64], [8, 27]])
            edges = [[u, v, rng.pick(wpool), None] for (u, v) in E]
            if edges and rng.chance(1, 8):
                edges[rng.below(len(edges))][2] = None
        else:
            edges = [[u, v, None, None] for (u, v) in E]
        absent = max(names) + 1 + rng.below(3)
        lim = limit if spec[1] == 0 else 4
        if weighted:
            lim = min(lim, 12)
        case = {"id": "%s%d" % (prefix, i), "spec": list(spec), "shape": shape,
                "nodes": [[x, None] for x in decl], "edges": edges, "weighted": weighted,
                "subs": subsets_of(rng, names, absent, lim)}
        if weighted and rng2.below(100) < 35:
            # dyadic weight scale applied inside the harness (see centgen.py): the weighted coefficients are
            # invariant under it, so the model and the oracle run on the unscaled cubes
            case["wscale"] = rng2.pick([-60, -3, -1, 40, 360, -360])   # +-360: the product of three raw weights over/underflows
        if i % 5 == 1:
            # a multi-step build: existing nodes are re-added after the edges (add_node on an existing name only updates
            # its attributes - C01_readd_keeps_position), so the model's answer for the one-call build still applies
            case["readd"] = [names[(3 * i + k) % len(names)] for k in range(1 + i % 3)]
        out.append(case)
    return out


# ---------------------------------------------------------------- brute-force definitions
def stored_weights(edges, directed, dedupe):
    """weight stored for each adjacent pair of a single-edge graph (KeepFirst / KeepLast; with
    dedupe=Error the list has no repeated pair); undirected pairs under both orientations"""
    W = {}
    for e in edges:
        u, v, w = e[0], e[1], e[2]
        keys = [(u, v)] if directed else [(u, v), (v, u)]
        for k in keys:
            if k in W and dedupe == 1:
                continue
            W[k] = w
    return W


class Defs:
    def __init__(self, names, pairs, directed, weights=None):
        self.names = list(names)
        self.directed = directed
        self.W = weights or {}
        arcs = set((u, v) for (u, v) in pairs if u != v and u in names and v in names)
        self.arcs = arcs
        self.N = {v: set() for v in names}           # neighbours ignoring direction, never v itself
        self.succ = {v: set() for v in names}
        self.pred = {v: set() for v in names}
        for (u, v) in arcs:
            self.N[u].add(v)
            self.N[v].add(u)
            self.succ[u].add(v)
            self.pred[v].add(u)

    def tri(self, v):
        nb = sorted(self.N[v])
        return sum(1 for a, b in itertools.combinations(nb, 2) if b in self.N[a])

    def cc(self, v):
        d = len(self.N[v])
        return Fraction(0) if d < 2 else Fraction(2 * self.tri(v), d * (d - 1))

    def n_triangles(self):
        return sum(1 for a, b, c in itertools.combinations(self.names, 3)
                   if b in self.N[a] and c in self.N[a] and c in self.N[b])

    def transitivity(self):
        t = self.n_triangles()
        triples = sum(len(self.N[v]) * (len(self.N[v]) - 1) // 2 for v in self.names)
        return Fraction(0) if t == 0 else Fraction(3 * t, triples)

    def gen_degree(self, v):
        h = {}
        for w in self.N[v]:
            k = len(self.N[v] & self.N[w])
            h[k] = h.get(k, 0) + 1
        return h

    def square(self, v):
        num, den = 0, 0
        for u, w in itertools.combinations(sorted(self.N[v]), 2):
            q = len((self.N[u] & self.N[w]) - {v})
            th = 1 if w in self.N[u] else 0
            num += q
            den += (len(self.N[u]) - (1 + q + th)) + (len(self.N[w]) - (1 + q + th)) + q
        return Fraction(num, den) if den > 0 else Fraction(num)

    def a(self, u, v):
        return 1 if (u, v) in self.arcs else 0

    def fagiolo(self, i):
        s = lambda x, y: self.a(x, y) + self.a(y, x)
        t2 = sum(s(i, j) * s(j, k) * s(k, i) for j in self.names for k in self.names)
        dtot = sum(s(i, j) for j in self.names)
        dbi = sum(self.a(i, j) * self.a(j, i) for j in self.names)
        if t2 == 0:
            return Fraction(0)
        return Fraction(t2, 2 * (dtot * (dtot - 1) - 2 * dbi))


    # ---- weighted forms (floats: cube roots) ----
    def what(self, u, v):
        mx = max(w for w in self.W.values())
        return self.W[(u, v)] / mx

    def cc_weighted(self, v):
        d = len(self.N[v])
        if d < 2:
            return 0.0
        t = 0.0
        for a, b in itertools.combinations(sorted(self.N[v]), 2):
            if b in self.N[a]:
                t += (self.what(v, a) * self.what(v, b) * self.what(a, b)) ** (1.0 / 3.0)
        return 2.0 * t / (d * (d - 1))

    def fagiolo_weighted(self, i):
        def c(x, y):
            return self.what(x, y) ** (1.0 / 3.0) if (x, y) in self.arcs else 0.0
        s = lambda x, y: c(x, y) + c(y, x)
        t2 = sum(s(i, j) * s(j, k) * s(k, i) for j in self.names for k in self.names)
        dtot = sum(self.a(i, j) + self.a(j, i) for j in self.names)
        dbi = sum(self.a(i, j) * self.a(j, i) for j in self.names)
        if t2 == 0:
            return 0.0
        return t2 / (2 * (dtot * (dtot - 1) - 2 * dbi))


def close(x, q, tol=1e-9):
    if isinstance(x, float) and (math.isnan(x) or math.isinf(x)):
        return False
    return abs(Fraction(x) - Fraction(q)) <= Fraction(tol) * max(1, abs(Fraction(q)))


def split_blocks(o):
    """-> (header obs, [(index, {kind: (rows, floats)})])"""
    head, blocks, cur = [], [], None
    for k, rows, fl in o:
        if k == 29:
            cur = {}
            blocks.append((rows[0][0], cur))
        elif cur is None:
            head.append((k, rows, fl))
        elif k != 49:
            cur[k] = (rows, fl)
    return head, blocks


class ClusterProp(props.BaseProp):
    id = "C11"
    run_module = "Run.RunCluster"
    harness_mode = "cluster"
    quick_n, thorough_n = 600, 8000
    shards = 12
    sub_limit = 32
    rule = ("graphs of 1-8 nodes whose names' sort order differs from insertion order: 75% single-edge (directed and "
            "undirected, self-loops kept or dropped, KeepFirst/KeepLast), 10% single-edge with dedupe=Error, 15% "
            "multi-edge (refusals); shapes random, dense, complete(-1 edge), bipartite, cycle(+chord), wheel, star, "
            "path, chained triangles, grid, edgeless; decorated with self-loops, reciprocal and repeated edges, "
            "isolated and degree-1 nodes. On each graph transitivity, and triangles / clustering / average_clustering "
            "(count_zeros both ways) / generalized_degree / square_clustering with node_names = None, every non-empty "
            "subset of the nodes (all singletons + the full set + random subsets up to 32 when there are more), an "
            "absent name alone and mixed in, a list with a duplicate, and the empty slice. non-trivial = single-edge "
            "graph with at least 3 nodes and 2 edges; distinct = distinct case text")

    def gen(self, seed, n):
        return gen_cases(seed, n, self.sub_limit)

    def to_harness(self, c):
        lines = ["case %s" % c["id"]] + (["wscale %d" % c["wscale"]] if c.get("wscale") else []) + [
                 "spec %d %d %d %d %d %d" % tuple(c["spec"]), graph_lines(c),
                 "weighted %d" % c.get("weighted", 0)]
        lines += ["sub %d %s" % (len(s), " ".join(str(x) for x in s)) for s in c["subs"]]
        if c.get("readd"):
            lines.append("readd %s" % " ".join(str(x) for x in c["readd"]))
        lines.append("end")
        return "\n".join(lines)

    def to_coq(self, c):
        return "mkcl %s %s [%s]" % (coq_graph(c), "true" if c.get("weighted") else "false",
                                    "; ".join(hist.zl(s) for s in c["subs"]))

    def case_json(self, c):
        return dict({k: c[k] for k in ("id", "spec", "nodes", "edges", "weighted", "subs")}, wscale=c.get("wscale", 0),
                    readd=c.get("readd", []))

    def case_from_json(self, j):
        j = dict(j)
        j.setdefault("id", "replay")
        j.setdefault("weighted", 0)
        return j

    # ------------------------------------------------------------------ oracle
    def oracle(self, c, o):
        if not o or o[0][0] != 1:
            return ["no construction outcome"]
        if o[0][1][0][0] != 0:
            return []
        msgs = []
        head, blocks = split_blocks(o)
        names = [r for k, r, f in head if k == 2][0][0]
        directed, multi = c["spec"][0] == 1, c["spec"][1] == 1
        kept = [e for e in c["edges"] if not (c["spec"][2] == 0 and e[0] == e[1])]  # dropped self-loops
        D = Defs(names, [(e[0], e[1]) for e in c["edges"]], directed,
                 stored_weights(kept, directed, c["spec"][3]))
        nameset = set(names)
        all_weighted = all(w is not None for w in D.W.values())   # the STORED edges (after dedupe)

        def unit(x):
            return not (isinstance(x, float) and math.isnan(x)) and -1e-12 <= x <= 1 + 1e-12

        # transitivity
        tv = [(r, f) for k, r, f in head if k == 36][0]
        if directed or multi:
            if tv[0][0][0] != WM:
                msgs.append("transitivity on a %s graph: code %d, WrongMethod expected"
                            % ("directed" if directed else "multi-edge", tv[0][0][0]))
        elif tv[0][0][0] != 0:
            msgs.append("transitivity: outcome code %d" % tv[0][0][0])
        elif not close(tv[1][0], D.transitivity()) or not unit(tv[1][0]):
            msgs.append("transitivity %r, definition %s" % (tv[1][0], D.transitivity()))

        full = None
        full_w = None
        for idx, b in blocks:
            nn = None if idx < 0 else c["subs"][idx]
            what = "node_names=%s" % ("None" if nn is None else nn)
            if nn is not None and len(nn) == 0:
                continue  # the property speaks about non-empty subsets
            req = names if nn is None else nn
            has_absent = any(x not in nameset for x in req)
            c30, c32, c34, c35, c38, c40 = (b[k][0][0][0] for k in (30, 32, 34, 35, 38, 40))
            # ---- refusals
            exp_und = WM if (directed or multi) else (NF if has_absent else 0)
            exp_cl = WM if multi else (NF if has_absent else 0)
            if c30 != exp_und:
                msgs.append("triangles(%s): code %d, expected %d" % (what, c30, exp_und))
            if c38 != exp_und:
                msgs.append("generalized_degree(%s): code %d, expected %d" % (what, c38, exp_und))
            if c32 != exp_cl:
                msgs.append("clustering(%s): code %d, expected %d" % (what, c32, exp_cl))
            if c34 != exp_cl or c35 != exp_cl:
                msgs.append("average_clustering(%s): codes %d/%d, expected %d" % (what, c34, c35, exp_cl))
            if not has_absent and c40 != 0:
                msgs.append("square_clustering(%s): outcome code %d (must not panic)" % (what, c40))
            # ---- weighted forms, when called: refusals, definition, range, mean
            if 42 in b:
                c42, c44, c45 = (b[k][0][0][0] for k in (42, 44, 45))
                exp_w = WM if multi else (NF if has_absent else (8 if not all_weighted else 0))
                if c42 != exp_w or c44 != exp_w or c45 != exp_w:
                    msgs.append("weighted clustering/average(%s): codes %d/%d/%d, expected %d"
                                % (what, c42, c44, c45, exp_w))
                elif exp_w == 0:
                    clw = {r[0]: f for r, f in zip(*b[1043])}
                    if sorted(clw) != sorted(set(req)):
                        msgs.append("weighted clustering(%s): keys %s" % (what, sorted(clw)))
                    for v in clw:
                        want = D.fagiolo_weighted(v) if directed else D.cc_weighted(v)
                        if not close(clw[v], want, 1e-9) and abs(clw[v] - want) > 1e-12:
                            msgs.append("weighted clustering(%s)[%d] = %r, definition %r" % (what, v, clw[v], want))
                        if not unit(clw[v]):
                            msgs.append("weighted clustering(%s)[%d] = %r outside [0,1]" % (what, v, clw[v]))
                    for kind, cz in ((44, True), (45, False)):
                        rows, fl = b[kind]
                        counted = [x for x in clw.values() if cz or abs(x) > 0.0]
                        if not counted:
                            if rows[0][1] != 1:
                                msgs.append("weighted average(%s,%s): nothing counted but a value returned" % (what, cz))
                        elif rows[0][1] != 0 or abs(fl[0] - sum(counted) / len(counted)) > 1e-9:
                            msgs.append("weighted average(%s,%s) = %s, mean %r" % (what, cz, fl, sum(counted) / len(counted)))
                    if nn is None:
                        full_w = clw
                    elif full_w is not None:
                        for v in clw:
                            if v in full_w and abs(clw[v] - full_w[v]) > 1e-12:
                                msgs.append("weighted clustering restricted to %s gives %r for node %d, the full "
                                            "computation %r" % (nn, clw[v], v, full_w[v]))
            if has_absent or msgs:
                if msgs:
                    return msgs[:4]
                continue
            want_keys = sorted(set(req))
            vals = {}
            # ---- triangles, generalized degree (undirected single-edge only)
            if exp_und == 0:
                tr = {r[0]: r[1] for r in b[1031][0]}
                if sorted(tr) != want_keys:
                    msgs.append("triangles(%s): keys %s" % (what, sorted(tr)))
                for v in tr:
                    if v in nameset and tr[v] != D.tri(v):
                        msgs.append("triangles(%s)[%d] = %d, definition %d" % (what, v, tr[v], D.tri(v)))
                vals["tri"] = tr
                gd = {}
                for r in b[1039][0]:
                    gd.setdefault(r[0], {})
                    if r[1] >= 0:
                        gd[r[0]][r[1]] = r[2]
                if sorted(gd) != want_keys:
                    msgs.append("generalized_degree(%s): keys %s" % (what, sorted(gd)))
                for v in gd:
                    if v in nameset and gd[v] != D.gen_degree(v):
                        msgs.append("generalized_degree(%s)[%d] = %s, definition %s"
                                    % (what, v, gd[v], D.gen_degree(v)))
                vals["gd"] = gd
            # ---- clustering
            if exp_cl == 0:
                cl = {r[0]: f for r, f in zip(*b[1033])}
                if sorted(cl) != want_keys:
                    msgs.append("clustering(%s): keys %s" % (what, sorted(cl)))
                for v in cl:
                    if v not in nameset:
                        continue
                    want = D.fagiolo(v) if directed else D.cc(v)
                    if not close(cl[v], want):
                        msgs.append("clustering(%s)[%d] = %r, definition %s" % (what, v, cl[v], want))
                    if not unit(cl[v]):
                        msgs.append("clustering(%s)[%d] = %r outside [0,1]" % (what, v, cl[v]))
                vals["cl"] = cl
                for kind, cz in ((34, True), (35, False)):
                    rows, fl = b[kind]
                    counted = [x for x in cl.values() if cz or abs(x) > 0.0]
                    if not counted:
                        if rows[0][1] != 1:
                            msgs.append("average_clustering(%s,count_zeros=%s): nothing counted but a value returned"
                                        % (what, cz))
                    elif rows[0][1] != 0 or not close(fl[0], sum(Fraction(x) for x in counted) / len(counted)) \
                            or not unit(fl[0]):
                        msgs.append("average_clustering(%s,count_zeros=%s) = %s, mean of the counted coefficients %s"
                                    % (what, cz, fl, float(sum(counted) / len(counted))))
            # ---- square clustering
            if directed:   # values are not fixed on directed graphs (and not printed): keys only
                sq = {r[0]: None for r in b[1041][0]}
            else:
                sq = {r[0]: f for r, f in zip(*b[1041])}
            if sorted(sq) != want_keys:
                msgs.append("square_clustering(%s): keys %s" % (what, sorted(sq)))
            if not directed and not multi:
                for v in sq:
                    if v in nameset and (not close(sq[v], D.square(v)) or not unit(sq[v])):
                        msgs.append("square_clustering(%s)[%d] = %r, Lind's coefficient %s"
                                    % (what, v, sq[v], D.square(v)))
            if not directed:
                vals["sq"] = sq
            # ---- subset consistency against the implementation's own full call
            if nn is None:
                full = vals
            elif full is not None:
                for key in vals:
                    if key not in full:
                        continue
                    for v in vals[key]:
                        a, f = vals[key][v], full[key].get(v)
                        same = (a == f) if not isinstance(a, float) else (f is not None and abs(a - f) <= 1e-12)
                        if not same:
                            msgs.append("%s restricted to %s gives %r for node %d, the full computation %r"
                                        % (key, nn, a, v, f))
            if msgs:
                return msgs[:4]
        return msgs[:4]

    def nontrivial(self, c, o):
        if not o or o[0][1][0][0] != 0 or c["spec"][1] == 1:
            return False
        names = [r for k, r, f in o if k == 2][0][0]
        return len(names) >= 3 and len(c["edges"]) >= 2

    def stats_key(self, c, o):
        ks = ["directed_%d" % c["spec"][0], "multi_%d" % c["spec"][1], "shape_" + c.get("shape", "replay"),
              "construct_%d" % o[0][1][0][0], "nsubsets_%d" % (len(c["subs"]) // 8 * 8),
              "weighted_%d" % c.get("weighted", 0)]
        for k, rows, f in o:
            if k == 2:
                ks.append("n_%d" % len(rows[0]))
            if k == 36 and f:
                ks.append("transitivity_" + ("zero" if f[0] == 0 else "pos"))
        return ks

    def shrink_candidates(self, c):
        out = []
        if len(c["subs"]) > 1:
            for i in range(len(c["subs"])):
                d = dict(c)
                d["subs"] = [c["subs"][i]]
                out.append(d)
        for i in range(len(c["edges"])):
            d = dict(c)
            d["edges"] = c["edges"][:i] + c["edges"][i + 1:]
            out.append(d)
        for i in range(len(c["nodes"])):
            d = dict(c)
            d["nodes"] = c["nodes"][:i] + c["nodes"][i + 1:]
            out.append(d)
        return out


C11 = props.register(ClusterProp())
C11.manifest = {
    "text": "Unbounded Coq theorems (axiom-free, generic name type). About the definitions (any node list, any adjacency): "
            "triangles through v <= pairs of neighbours, hence 0 <= clustering <= 1; Fagiolo's directed coefficient lies in "
            "[0,1] (counting inequality 2T + 2 d_tot + 4 d_bi <= 2 d_tot^2, any node list and arc relation); Lind's square "
            "coefficient lies in [0,1] (numerator <= denominator as integers; duplicate-free node list, symmetric "
            "adjacency); self-loops never count (every definition - neighbours, triangles, clustering, transitivity, "
            "generalised degree, square coefficient, directed coefficient - is invariant under changing the diagonal); the "
            "per-node triangle counts add up to 3 x the number of triangles (double counting over lists). About the "
            "faithful model of cluster/*.rs: multi-edge graphs are refused by triangles / generalized_degree / transitivity "
            "/ clustering / average_clustering and directed graphs by the undirected-only functions (WrongMethod); SUBSET "
            "CONSISTENCY for triangles, generalized_degree, clustering (both kinds) and square_clustering. END TO END, "
            "MODEL = DEFINITION OVER THE EDGE LIST, for EVERY coherent graph state (the invariant WF of all twelve fields, "
            "proved for every state reachable by any history of mutations and hence for every graph built by "
            "new_from_nodes_and_edges) with NO per-case test in the hypotheses: the neighbour set each function starts "
            "from is total, duplicate-free and exactly the nodes joined by an edge of get_all_edges in either direction "
            "(C11_neighbor_set; the former per-case test nbr_ok_b and 'nadj = edge-list adjacency' are now the theorems "
            "C11_nbr_ok_holds, C11_nadj_is_edge_list); triangles(v) = number of triangles through v, clustering(v) = "
            "2 tri/(d(d-1)), transitivity = 3 x triangles / connected triples (C11_triangles_wf/_reachable, "
            "C11_clustering_wf/_reachable, C11_transitivity_wf/_reachable); generalized_degree(v) is a duplicate-free "
            "histogram with an entry (k,c) exactly when c = #edges at v in exactly k triangles <> 0 "
            "(C11_generalized_degree_wf; sort / run-length lemma); clustering on a DIRECTED graph = Fagiolo's coefficient "
            "over the arcs of the edge list (C11_clustering_directed_wf); square_clustering on an undirected graph = Lind's "
            "coefficient and it returns whenever the requested names are nodes (C11_square_wf, C11_square_total_wf; sums "
            "over unordered pairs are permutation invariant); hence every value returned by clustering (both kinds) and by "
            "square_clustering (undirected) lies in [0,1] (C11_clustering_range_wf, C11_square_range_wf); TOTALITY "
            "(C11_total_wf): on every coherent single-edge state, node_names = None or any list of nodes, clustering (both "
            "kinds), average_clustering and - undirected - triangles, generalized_degree, transitivity RETURN: no unwrap "
            "fails and no float division by zero happens (the denominators are positive whenever the numerator is); "
            "average_clustering = the mean of the counted clustering values, None when nothing is counted "
            "(C11_average_is_mean, every graph state). Tied to the "
            "code on every run: triangles, clustering (unweighted both kinds, and the weighted forms on perfect-cube "
            "weights where the cube roots are rational and the model exact), average_clustering (count_zeros both ways), "
            "transitivity, generalized_degree, square_clustering for node_names = None, every non-empty subset (sampled "
            "above 32), absent names, duplicates, the empty slice; in Coq every model value is STILL also compared with the "
            "brute-force definition computed from the edge list (flag observation; it no longer carries a theorem, it ties "
            "the model's state to the code's); a Python oracle recomputes every definition by brute force on the "
            "implementation's output and checks [0,1], subset consistency and refusals.",
    "note": "Now proved (formerly validated per case): nbr_ok_b, adjacency = edge list, model = definition for "
            "generalized_degree / square_clustering (Lind) / directed clustering (Fagiolo), the [0,1] range of the directed "
            "and square coefficients. Still validated per case only: the weighted forms: modelled (not "
            "proved) and compared only on weights that are perfect cubes (IEEE cbrt is not modelled; 1e-9 tolerance); "
            "their definitions are checked by the Python oracle in floats. "
            "square_clustering on DIRECTED graphs is only "
            "required not to panic (its value depends on HashSet iteration order - `u_nbrs.contains(w)` is asymmetric - "
            "and the property does not fix it; only its key set is compared). Trusted: Coq kernel + vm_compute; "
            "harness/printers/diff. Axioms: none. Repaired defects: F5 010e156, F19 5b670fd, F6 f1adbb1, F7 b6551f6, F15 "
            "7384b84.",
    "technique": "Coq proof (counting lemmas over the definitions, subset consistency / refusals / model=definition of "
                 "the model) + differential correspondence vs vm_compute model + brute-force definition oracle on the "
                 "implementation's output",
}
C11.rule += ' WEIGHT VARIANTS (separate PRNG stream): 35% of the weighted cases are run with a dyadic weight scale applied inside the harness (all weights x 2^k on input, weight-valued observations / 2^k on output, k in {-60, -3, 40}; exact in binary64, so the observations must equal those of the unscaled integers the model and the oracle use): path-length differences far below f64::EPSILON, all weights below 1, large magnitudes.'
