"""C12 (is_partition / modularity), C13 (Louvain), C17 (seeded functions are reproducible):
generators, serialisers (harness `comm` mode, Coq `Run.RunComm`), property oracles."""
import os
import struct
from fractions import Fraction

import gv
import hist
import props

ALL_SPECS = hist.ALL_SPECS
GAMMAS = [(1, 2), (1, 1), (3, 2), (2, 1)]
GAMMAS_L = [(1, 4), (1, 2), (3, 4), (1, 1), (5, 4), (3, 2), (2, 1)]
THR_Q = {0: (0, 1), 1: (1, 10000000), 2: (1, 10), 3: (1, 10000000)}


def fbits(x):
    return struct.unpack(">q", struct.pack(">d", x))[0]


# ---------------------------------------------------------------------------------------
# serialisation
# ---------------------------------------------------------------------------------------

def h_w(w):
    if w is None:
        return "0 0"
    if isinstance(w, float):
        return "2 %d" % fbits(w)
    return "1 %d" % w


def to_harness(c):
    L = ["case %s" % c["id"]] + (["wscale %d" % c["wscale"]] if c.get("wscale") else [])
    if c.get("spec") is not None:
        L.append("spec %d %d %d %d %d %d" % tuple(c["spec"]))
        for n in c["nodes"]:
            L.append("node " + hist.h_node(n))
        for e in c["edges"]:
            L.append("edge %d %d %s %d %d" % (e[0], e[1], h_w(e[2]), 0 if e[3] is None else 1, e[3] or 0))
    for cl in c["calls"]:
        k = cl[0]
        if k == "mod":
            _, w, gn, gd, comms = cl
            L.append("mod %d %d %d %d %s" % (w, gn, gd, len(comms),
                                             " ".join("%d %s" % (len(s), " ".join(map(str, s))) for s in comms)))
        elif k == "louv":
            L.append("louv %d %d %d %d %d" % tuple(cl[1:]))
        elif k == "repro_louv":
            L.append("repro louv %d %d %d %d %d" % tuple(cl[1:]))
        elif k == "repro_gnp":
            L.append("repro gnp %d %d %d %d %d" % tuple(cl[1:]))
        elif k == "repro_cent":
            L.append("repro cent %d" % cl[1])
        elif k == "repro_all":
            L.append("repro all %d" % cl[1])
    L.append("end")
    return "\n".join(L)


def qlit(n, d):
    return "(Qmake %s %d%%positive)" % (hist.z(n), d)


def modelled(c):
    """can the Coq model evaluate this case?  (integer / NaN weights, seeded Louvain, no gnp)"""
    if c.get("spec") is None or c.get("nomodel"):
        return False
    if any(isinstance(e[2], float) for e in c["edges"]):
        return False
    for cl in c["calls"]:
        if cl[0] in ("repro_gnp", "repro_cent", "repro_all"):
            return False
        if cl[0] in ("louv", "repro_louv") and cl[5] < 0:
            return False
    return True


def to_coq(c):
    calls = []
    li = 0
    for cl in c["calls"]:
        k = cl[0]
        if k == "mod":
            _, w, gn, gd, comms = cl
            if gd == 0:
                gn, gd = 1, 1
            calls.append("CMod %s %s [%s]" % ("true" if w else "false", qlit(gn, gd),
                                              "; ".join(hist.zl(s) for s in comms)))
        else:
            _, w, gn, gd, thr, seed = cl
            if gd == 0:
                gn, gd = 1, 1
            perms = c.get("perms", {}).get(li, [])
            li += 1
            calls.append("CLouv %s %s %s true (P_ [%s])" % (
                "true" if w else "false", qlit(gn, gd), qlit(*THR_Q[thr]),
                "; ".join(hist.zl(r) for r in perms)))
    return "(mkcc %s [%s] [%s] [%s])" % (
        hist.coq_spec(c["spec"]),
        "; ".join("(CN %s %s)" % (hist.z(n[0]), hist.oz(n[1])) for n in c["nodes"]),
        "; ".join("(CE %s %s %s %s)" % (hist.z(e[0]), hist.z(e[1]), hist.oz(e[2]), hist.oz(e[3]))
                  for e in c["edges"]),
        "; ".join(calls))


# ---------------------------------------------------------------------------------------
# observation handling
# ---------------------------------------------------------------------------------------

IMPL_ONLY = (80, 81, 82, 83, 1083)
LEVEL_KINDS = (71, 1300, 72, 1301)


def segments(obs):
    """split the observations after the graph header into per-call segments (each ends with 210 or 73;
    a gnp call has only impl-only observations and ends with 1083 or its code)"""
    segs, cur = [], []
    for o in obs:
        cur.append(o)
        if o[0] in (210, 73):
            segs.append(cur)
            cur = []
    if cur:
        segs.append(cur)
    return segs


def normalise(impl_obs, model_obs):
    """-> (impl', model') comparable lists: impl-only kinds dropped; in Louvain calls whose model run
    met an exact tie only the outcome codes, the shuffle table and the checker verdicts are kept"""
    impl = [o for o in impl_obs if o[0] not in IMPL_ONLY]
    si, sm = segments(impl), segments(model_obs)
    if len(si) != len(sm):
        return impl, model_obs
    oi, om = [], []
    for a, b in zip(si, sm):
        tie = b and b[-1][0] == 73 and b[-1][1] == [[1]]
        if tie:
            a = [o for o in a if o[0] not in LEVEL_KINDS]
            b = [o for o in b if o[0] not in LEVEL_KINDS]
        if b and b[-1][0] == 73:
            b = b[:-1] + [(73, [[0]], [])]
        oi += a
        om += b
    return oi, om


def impl_graph(obs):
    """nodes and edges as the implementation reports them (get_all_nodes / get_all_edges)"""
    nodes, edges, ok = [], [], False
    if obs and obs[0][0] == 1 and obs[0][1] == [[0]] and len(obs) >= 3 and obs[1][0] == 2 and obs[2][0] == 1003:
        ok = True
        nodes = [r[0] for r in obs[1][1]]
        for r in obs[2][1]:
            w = None if r[2] == 0 else (r[3] if r[2] == 1 else struct.unpack(">d", struct.pack(">q", r[3]))[0])
            edges.append((r[0], r[1], w))
    return ok, nodes, edges


def newman(directed, edges, weighted, gamma, comms):
    """Newman's formula with exact rationals; None when undefined (m = 0 or a NaN weight)"""
    ws = []
    for (u, v, w) in edges:
        if weighted:
            if w is None:
                return None
            ws.append((u, v, Fraction(w)))
        else:
            ws.append((u, v, Fraction(1)))
    m = sum(w for _, _, w in ws)
    if m == 0:
        return None
    q = Fraction(0)
    for c in comms:
        cs = set(c)
        L = sum(w for u, v, w in ws if u in cs and v in cs)
        ko = sum(w for u, v, w in ws if u in cs)
        ki = sum(w for u, v, w in ws if v in cs)
        if directed:
            q += L / m - gamma * ko * ki / (m * m)
        else:
            k = ko + ki
            q += L / m - gamma * (k / (2 * m)) ** 2
    return q


def is_partition_def(nodes, comms):
    seen = set()
    for c in comms:
        for x in c:
            if x in seen or x not in nodes:
                return False
            seen.add(x)
    return seen == set(nodes)


def rows_level(o):
    return sorted(tuple(sorted(r)) for r in o[1])


def check_levels_oracle(nodes, levels):
    msgs = []
    if not levels:
        return ["louvain_partitions returned an empty list of levels"]
    ns = set(nodes)
    for i, l in enumerate(levels):
        if any(len(c) == 0 for c in l):
            msgs.append("level %d has an empty community" % i)
        if not is_partition_def(ns, l):
            msgs.append("level %d is not a partition of the node set: %s" % (i, l))
    for i in range(1, len(levels)):
        prev = [set(c) for c in levels[i - 1]]
        for c in levels[i]:
            cs = set(c)
            for d in prev:
                if not (d <= cs or not (d & cs)):
                    msgs.append("level %d is not a coarsening of level %d: %s splits %s" % (i, i - 1, c, sorted(d)))
                    break
    return msgs


def louv_segment_oracle(c, cl, seg, nodes, edges, want_repro):
    """property checks on one louvain call's observations (impl side)"""
    msgs = []
    _, weighted, gn, gd, thr, seed = cl
    gamma = Fraction(gn, gd) if gd else Fraction(1)
    codes = [o[1][0][0] for o in seg if o[0] == 1]
    if want_repro:
        r = [o for o in seg if o[0] == 80]
        if not r:
            msgs.append("no repeat-count observation")
        else:
            dp, dc, ncalls = r[0][1][0]
            if seed >= 0 and (dp != 1 or dc != 1):
                msgs.append("seeded louvain is not reproducible: %d distinct louvain_partitions results and %d "
                            "distinct louvain_communities results in %d calls (in process, pools 1/4/16)"
                            % (dp, dc, ncalls))
    if want_repro:
        r = [o for o in seg if o[0] == 83]
        if r and r[0][1][0][0] != 1:
            msgs.append("modularity of one partition differs by more than rounding between %d freshly built copies "
                        "of the same graph" % r[0][1][0][2])
    if not codes:
        return msgs + ["no outcome observed"]
    if codes[0] == 101:
        return msgs + ["louvain_partitions does not return (2 s watchdog)"]
    if codes[0] == 102:
        return msgs + ["louvain_partitions not called: too many earlier calls hang"]
    if codes[0] == 100:
        return msgs + ["louvain_partitions panics"]
    # the guard of louvain_partitions (repair of F23): weighted = true and a stored edge with a negative weight
    # (`w < 0.0`: never true for NaN) -> InvalidArgument (3) from both functions, and from nothing else
    negative = bool(weighted) and any(w is not None and w == w and w < 0 for (_, _, w) in edges)
    if negative:
        if codes[0] != 3:
            msgs.append("louvain_partitions with weighted=true on a graph with a negative edge weight: outcome %d, "
                        "expected InvalidArgument (3)" % codes[0])
        if len(codes) < 2:
            msgs.append("louvain_communities not observed")
        elif codes[1] == 101:
            msgs.append("louvain_communities does not return (2 s watchdog)")
        elif codes[1] != 3:
            msgs.append("louvain_communities with weighted=true on a graph with a negative edge weight: outcome %d, "
                        "expected InvalidArgument (3)" % codes[1])
        if any(o[0] in (71, 1300, 1301) for o in seg):
            msgs.append("levels reported although the call must be rejected")
        return msgs
    if codes[0] == 3:
        return msgs + ["louvain_partitions returns InvalidArgument although no edge weight is negative%s"
                       % ("" if weighted else " (weighted=false)")]
    if codes[0] != 0:
        return msgs + ["louvain_partitions returns error kind %d" % codes[0]]
    levels = [rows_level(o) for o in seg if o[0] == 1300]
    nl = [o for o in seg if o[0] == 71]
    if not nl or nl[0][1][0][0] != len(levels):
        msgs.append("level count inconsistent")
    msgs += check_levels_oracle(nodes, levels)
    single = not c["spec"][1]
    if single and edges and not msgs:
        qs = [newman(bool(c["spec"][0]), edges, bool(weighted), gamma, [[x] for x in nodes])]
        qs += [newman(bool(c["spec"][0]), edges, bool(weighted), gamma, l) for l in levels]
        if all(q is not None for q in qs):
            tol = Fraction(1, 10 ** 9)
            for i in range(1, len(qs)):
                if qs[i] < qs[i - 1] - tol:
                    msgs.append("modularity decreases from %s to %s: %s -> %s" % (
                        "the singletons" if i == 1 else "level %d" % (i - 2), "level %d" % (i - 1),
                        float(qs[i - 1]), float(qs[i])))
    if len(codes) < 2:
        msgs.append("louvain_communities not observed")
    elif codes[1] == 101:
        msgs.append("louvain_communities does not return (2 s watchdog)")
    elif codes[1] != 0:
        msgs.append("louvain_communities outcome %d" % codes[1])
    else:
        lc = [rows_level(o) for o in seg if o[0] == 1301]
        # with a seed the two calls must agree; without one they draw different orders
        if seed >= 0 and levels and (not lc or lc[0] != levels[-1]):
            msgs.append("louvain_communities %s is not the last level %s" % (lc[:1], levels[-1]))
        if lc and not is_partition_def(set(nodes), lc[0]):
            msgs.append("louvain_communities is not a partition: %s" % lc[0])
    return msgs


def mod_segment_oracle(c, cl, seg, nodes, edges):
    msgs = []
    _, weighted, gn, gd, comms = cl
    gamma = Fraction(gn, gd) if gd else Fraction(1)
    comms = [sorted(set(s)) for s in comms]
    want = is_partition_def(set(nodes), comms)
    ip = [o for o in seg if o[0] == 200]
    if not ip:
        msgs.append("is_partition panics")
    elif bool(ip[0][1][0][0]) != want:
        msgs.append("is_partition(%s) on nodes %s = %s, the definition gives %s" % (
            comms, sorted(nodes), bool(ip[0][1][0][0]), want))
    codes = [o[1][0][0] for o in seg if o[0] == 1]
    if not codes:
        return msgs + ["modularity outcome not observed"]
    if not want:
        if codes[0] != 6:
            msgs.append("modularity of the non-partition %s: outcome %d, expected NotAPartition" % (comms, codes[0]))
        return msgs
    if codes[0] != 0:
        return msgs + ["modularity of the partition %s: outcome %d" % (comms, codes[0])]
    v = [o for o in seg if o[0] == 201]
    exp = newman(bool(c["spec"][0]), edges, bool(weighted), gamma, comms)
    if exp is not None:
        if not v or v[0][1] != [[1]] or not gv.float_close(v[0][2][0], exp):
            msgs.append("modularity %s differs from Newman's formula %s (= %.12g) for %s" % (
                v[0][2] if v else None, exp, float(exp), comms))
    return msgs


class CommProp(props.BaseProp):
    run_module = "Run.RunComm"
    harness_mode = "comm"
    shards = 4
    nproc = 1           # how many fresh processes run the same cases (C17: 3)
    want_repro = False
    diff_kind = "correspondence-broken"

    def to_harness(self, c):
        return to_harness(c)

    def to_coq(self, c):
        return to_coq(c)

    def case_json(self, c):
        return {"id": c["id"], "spec": list(c["spec"]) if c.get("spec") is not None else None,
                "nodes": [list(n) for n in c["nodes"]], "edges": [list(e) for e in c["edges"]],
                "calls": [list(x) for x in c["calls"]], "wscale": c.get("wscale", 0), "nomodel": bool(c.get("nomodel"))}

    def case_from_json(self, j):
        return {"id": j.get("id", "replay"), "wscale": j.get("wscale", 0), "nomodel": bool(j.get("nomodel")),
                "spec": tuple(j["spec"]) if j.get("spec") is not None else None,
                "nodes": [tuple(n) for n in j["nodes"]], "edges": [tuple(e) for e in j["edges"]],
                "calls": [tuple(x[:4]) + ([list(s) for s in x[4]],) if x[0] == "mod" else tuple(x)
                          for x in j["calls"]]}

    # -- the oracle works on the implementation's observations only
    def oracle(self, c, obs):
        msgs = []
        calls = c["calls"]
        if c.get("spec") is None:
            segs = segments(obs)
            nodes, edges = [], []
        else:
            ok, nodes, edges = impl_graph(obs)
            if not ok:
                return ["the generated graph could not be built: outcome %s" % (obs[0][1] if obs else None)]
            segs = segments(obs[3:])
        if len(segs) != len(calls):
            return ["%d calls but %d observation groups" % (len(calls), len(segs))]
        for cl, seg in zip(calls, segs):
            if cl[0] == "mod":
                msgs += mod_segment_oracle(c, cl, seg, nodes, edges)
            elif cl[0] in ("louv", "repro_louv"):
                msgs += louv_segment_oracle(c, cl, seg, nodes, edges, cl[0] == "repro_louv")
            elif cl[0] == "repro_cent":
                r = [o for o in seg if o[0] == 84]
                if not r:
                    msgs.append("centralities: no repeat observation")
                elif r[0][1][0][:3] != [1, 1, 1]:
                    msgs.append("closeness / betweenness of the same graph differ between calls / rebuilt copies / "
                                "rayon pool sizes 1,4,16 (all returned %d, closeness equal %d, betweenness equal %d)"
                                % tuple(r[0][1][0][:3]))
            elif cl[0] == "repro_all":
                r = [o for o in seg if o[0] == 85]
                if not r:
                    msgs.append("all algorithms: no repeat observation")
                elif r[0][1][0][2] != 0:
                    msgs.append("non-randomised algorithms return different answers for the same graph between calls / "
                                "rebuilt copies / rayon pool sizes 1,4,16 (%d runs): %s"
                                % (r[0][1][0][0], ", ".join(ALL_TAGS[t] if 0 <= t < len(ALL_TAGS) else "number of answers"
                                                            for t in r[0][1][1])))
            elif cl[0] == "repro_gnp":
                r = [o for o in seg if o[0] == 81]
                if not r:
                    msgs.append("gnp: no repeat-count observation")
                elif cl[5] >= 0 and r[0][1][0][0] != 1:
                    msgs.append("seeded fast_gnp_random_graph%s is not reproducible: %d distinct graphs in %d calls"
                                % (tuple(cl[1:]), r[0][1][0][0], r[0][1][0][1]))
        return msgs

    # -- correspondence with the tie rule and the shuffle table taken from the implementation's side
    def run_cases(self, cases, wd, tag="gen", build=True):
        res = {"failing": [], "corr_errors": [], "impl": {}}
        if build:
            rc, out = gv.harness_build(release=False)
            if rc != 0:
                res["corr_errors"].append("harness does not build against the repo: " + out[-1500:])
                return res
        impl, errs = self.run_impl(cases, wd, tag)
        res["corr_errors"] += errs
        res["impl"] = impl
        missing = [c["id"] for c in cases if c["id"] not in impl]
        if missing:
            res["corr_errors"].append("implementation produced no output for %d cases (crash?) e.g. %s"
                                      % (len(missing), missing[:3]))
        oracle_fail, model_fail = [], []
        # fresh processes: the same cases again, outputs must be identical
        for k in range(1, self.nproc):
            # the fresh processes run the cases in ANOTHER ORDER (reversed; rotated by half): an answer that depends
            # on what the process did before (a cache, a static, thread-local state) is not a function of the arguments
            order = list(reversed(cases)) if k == 1 else cases[len(cases) // 2:] + cases[:len(cases) // 2]
            impl_k, errs = self.run_impl(order, wd, "%s_p%d" % (tag, k))
            res["corr_errors"] += errs
            for c in cases:
                a, b = impl.get(c["id"]), impl_k.get(c["id"])
                if a is None or b is None:
                    continue
                d = gv.diff_case(b, a)
                if d:
                    oracle_fail.append((c, "property oracle: a fresh process returns a different result: " + d,
                                        "counterexample"))
        # model
        todo = []
        for c in cases:
            o = impl.get(c["id"])
            if o is None or not modelled(c):
                continue
            perms, li = {}, 0
            body = o[3:] if (len(o) >= 3 and o[1][0] == 2) else o[1:]
            for seg in segments([x for x in body if x[0] not in IMPL_ONLY]):
                if seg[-1][0] == 73:
                    t = [x for x in seg if x[0] == 70]
                    perms[li] = t[0][1] if t else []
                    li += 1
            c["perms"] = perms
            todo.append(c)
        self.n_modelled = len(todo)
        if todo:
            full, errs = gv.coq_eval(self.run_module, [(c["id"], self.to_coq(c)) for c in todo], wd,
                                     tag="m", shards=self.shards, run_fn="run")
            res["corr_errors"] += errs
            for c in todo:
                if c["id"] not in full:
                    continue
                mo = gv.decode_model(full[c["id"]])
                c["tie"] = any(o[0] == 73 and o[1] == [[1]] for o in mo)
                a, b = normalise(impl[c["id"]], mo)
                d = gv.diff_case(a, b)
                if d:
                    model_fail.append((c, "implementation differs from the model: " + d, self.diff_kind))
        for c in cases:
            if c["id"] in impl:
                for msg in self.oracle(c, impl[c["id"]]):
                    oracle_fail.append((c, "property oracle: " + msg, "counterexample"))
        # inputs on which the property itself fails are reported before model disagreements
        res["failing"] = oracle_fail + model_fail
        return res

    def shrink_candidates(self, c):
        out = []
        if len(c["calls"]) > 1:
            for i in range(len(c["calls"])):
                d = dict(c)
                d["calls"] = [c["calls"][i]]
                out.append(d)
        for i in range(len(c["edges"])):
            d = dict(c)
            d["edges"] = c["edges"][:i] + c["edges"][i + 1:]
            out.append(d)
        used = set()
        for e in c["edges"]:
            used.add(e[0])
            used.add(e[1])
        for cl in c["calls"]:
            if cl[0] == "mod":
                for s in cl[4]:
                    used |= set(s)
        for i, n in enumerate(c["nodes"]):
            if n[0] not in used:
                d = dict(c)
                d["nodes"] = c["nodes"][:i] + c["nodes"][i + 1:]
                out.append(d)
        return out


# ---------------------------------------------------------------------------------------
# generators
# ---------------------------------------------------------------------------------------

def gen_graph(r, nmax, spec=None, wmode=None, want_edges=True, dense=None):
    """a graph that `new_from_nodes_and_edges` accepts under `spec` (all nodes listed first, in an
    insertion order that differs from the sorted order; duplicates / self-loops only where allowed)"""
    sp = spec if spec is not None else r.pick(ALL_SPECS)
    d, m, s, dd, ms, slf = sp
    n = 1 + r.below(nmax)
    if want_edges and n == 1 and not (s or slf == 1):
        n = 2
    names = r.shuffle(range(1, 14))[:n]
    nodes = [(x, None) for x in names]
    wmode = wmode or r.pick(["nan", "int", "int", "int"])
    ne = r.below((dense or 2) * n + 1)
    if want_edges:
        ne = max(1, ne)
    edges, seen = [], set()
    tries = 0
    while len(edges) < ne and tries < 200:
        tries += 1
        u, v = r.pick(names), r.pick(names)
        if u == v and not s and slf == 0:
            continue
        if u == v and not s and slf == 1 and r.below(3):
            continue
        key = (u, v) if d else (min(u, v), max(u, v))
        if key in seen and not m and dd == 0:
            continue
        if key in seen and not m and r.below(3):
            continue
        seen.add(key)
        w = None if wmode == "nan" else 1 + r.below(4)
        edges.append((u, v, w, None))
    return {"spec": sp, "nodes": nodes, "edges": edges, "wmode": wmode, "names": names}


def random_partition(r, names):
    names = r.shuffle(names)
    k = 1 + r.below(max(1, len(names)))
    parts = [[] for _ in range(k)]
    for x in names:
        parts[r.below(k)].append(x)
    return [p for p in parts if p]


def family(r, names, kind):
    p = random_partition(r, names)
    if kind == "true":
        return p
    if kind == "dup" and names:
        x = r.pick(names)
        tgt = [i for i, s in enumerate(p) if x not in s]
        if tgt:
            p[r.pick(tgt)].append(x)
        else:
            p.append([x])
        return p
    if kind == "omit" and names:
        x = r.pick(names)
        return [s for s in ([y for y in s if y != x] for s in p)]
    if kind == "cancel" and len(names) >= 2:
        x, y = r.shuffle(names)[:2]        # omit x, list y twice: the member counts still match
        p = [[z for z in s if z != x] for s in p]
        tgt = [i for i, s in enumerate(p) if y not in s]
        if tgt:
            p[r.pick(tgt)].append(y)
        else:
            p.append([y])
        return p
    if kind == "foreign":
        f = 50 + r.below(5)
        if r.below(2) and names:           # a foreign name replaces a node (counts match)
            x = r.pick(names)
            return [[f if z == x else z for z in s] for s in p]
        p[r.below(len(p))].append(f)
        return p
    if kind == "empty":
        p.insert(r.below(len(p) + 1), [])
        return p
    return p


FAMILY_KINDS = ["true", "true", "true", "dup", "omit", "cancel", "cancel", "foreign", "empty"]


class C12Prop(CommProp):
    id = "C12"
    diff_kind = "counterexample"   # the property fixes both values exactly: any difference violates it
    quick_n, thorough_n = 2500, 60000
    rule = ("graphs of all 96 GraphSpecs, 1-8 integer names inserted out of sorted order, 1-2n edges (parallel "
            "edges, self-loops, re-added pairs where the specs allow them), weights all-NaN or integers 1-4; per graph "
            "4 families of node sets drawn from: true partitions, one element duplicated, one omitted, one omitted "
            "AND another duplicated (the counts cancel), a foreign name (added or replacing a node), an extra empty "
            "set; weighted and unweighted, resolution in {1/2,1,3/2,2,None}; also graphs without edges. "
            "non-trivial = graph has an edge and at least one family is a true partition with >= 2 communities and "
            "one is not a partition; distinct = distinct case text")

    def gen(self, seed, n):
        r = gv.SplitMix(seed * 1000003 + 12)
        r2 = gv.SplitMix(seed * 7919 + 1212)
        cases = []
        for i in range(n):
            g = gen_graph(r, 8, spec=ALL_SPECS[(i + r.below(96) * (i >= 96)) % 96], want_edges=(i % 12 != 0))
            calls = []
            for j in range(4):
                kind = FAMILY_KINDS[(i + 3 * j + r.below(len(FAMILY_KINDS))) % len(FAMILY_KINDS)] if j else \
                    r.pick(["true", "cancel"])
                fam = family(r, g["names"], kind)
                gn, gd = r.pick(GAMMAS + [(0, 0)])
                calls.append(("mod", r.below(2), gn, gd, [sorted(set(s)) for s in fam]))
            c = {"id": "m%d" % i, "spec": g["spec"], "nodes": g["nodes"], "edges": g["edges"], "calls": calls}
            if any(e[2] is not None for e in g["edges"]) and r2.below(100) < 20:
                # dyadic weight scale applied inside the harness (see centgen.py); modularity is invariant
                c["wscale"] = r2.pick([-60, -3, -1, 40])
            cases.append(c)
            if i % 1250 == 600:
                # more than 1024 nodes (oracle only): the degree sums and the per-community terms run over more values
                # than any block size a summation helper could use
                nb = 1100 + r2.below(500)
                db = r2.below(2)
                eb = [(j, (j + 1) % nb, 1 + r2.below(3), None) for j in range(nb)] + \
                     [(r2.below(nb), r2.below(nb), 1 + r2.below(3), None) for _ in range(nb // 4)]
                seen_b, ec = set(), []
                for e in eb:
                    kk = (e[0], e[1]) if db else (min(e[0], e[1]), max(e[0], e[1]))
                    if e[0] != e[1] and kk not in seen_b:
                        seen_b.add(kk)
                        ec.append(e)
                blocks = [list(range(a, min(nb, a + 97))) for a in range(0, nb, 97)]
                cases.append({"id": "mb%d" % i, "spec": (db, 0, 1, 0, 0, 0), "nodes": [(x, None) for x in range(nb)],
                              "edges": ec, "nomodel": True,
                              "calls": [("mod", 1, 1, 1, blocks), ("mod", 0, 3, 2, blocks),
                                        ("mod", 1, 1, 1, [list(range(nb))])]})
        return cases

    def nontrivial(self, c, o):
        ok, nodes, edges = impl_graph(o)
        if not ok or not edges:
            return False
        ts = [is_partition_def(set(nodes), cl[4]) for cl in c["calls"]]
        big = any(t and len(cl[4]) >= 2 for t, cl in zip(ts, c["calls"]))
        return big and not all(ts)

    def stats_key(self, c, o):
        ks = ["spec_d%d_m%d_s%d" % tuple(c["spec"][:3]), "n_%s" % (len(c["nodes"]) if len(c["nodes"]) < 100 else ">1024")]
        ok, nodes, edges = impl_graph(o)
        for cl in c["calls"]:
            ks.append("family_" + ("partition" if is_partition_def(set(nodes), cl[4]) else "not_partition"))
            ks.append("weighted_%d" % cl[1])
        for ob in o[3:]:
            if ob[0] == 1:
                ks.append("modularity_outcome_%d" % ob[1][0][0])
            if ob[0] == 201:
                ks.append("value_" + ("real" if ob[1] == [[1]] else "nan"))
        return ks


def clustered_graph(r):
    """2-4 small cliques joined in a ring by single edges: several levels of aggregation"""
    k = 2 + r.below(3)
    sizes = [2 + r.below(2 if k == 4 else 3) for _ in range(k)]
    d = r.below(3) == 0
    wmode = "nan" if r.below(3) == 0 else "int"
    names = r.shuffle(range(1, 1 + sum(sizes)))
    groups, at = [], 0
    for sz in sizes:
        groups.append(names[at:at + sz])
        at += sz
    edges = []

    def add(u, v, heavy):
        if d and r.below(2):
            u, v = v, u
        edges.append((u, v, None if wmode == "nan" else (2 + r.below(3) if heavy else 1), None))
        if d and r.below(3) == 0:
            edges.append((v, u, None if wmode == "nan" else 1 + r.below(2), None))
    for g in groups:
        for a in range(len(g)):
            for b in range(a + 1, len(g)):
                add(g[a], g[b], True)
    for gi in range(k if k > 2 else 1):
        add(r.pick(groups[gi]), r.pick(groups[(gi + 1) % k]), False)
    sp = (1 if d else 0, 0, 1, r.pick([0, 1, 2]), r.below(2), r.below(2))
    return {"spec": sp, "nodes": [(x, None) for x in r.shuffle(names)], "edges": edges, "wmode": wmode,
            "names": names}


def louvain_graph(r, nmax, i):
    if i % 5 == 3:
        return clustered_graph(r)
    d = r.below(2)
    m = 1 if r.below(4) == 0 else 0
    s = 1 if r.below(3) else 0
    sp = (d, m, s, r.pick([0, 1, 2]), r.below(2), r.below(2))
    wmode = "nan" if r.below(3) == 0 else "int"
    g = gen_graph(r, nmax, spec=sp, wmode=wmode, want_edges=(i % 25 != 7), dense=r.pick([1, 2, 2, 3]))
    return g


def negative_variant(r3, edges, calls):
    """the guard of louvain_partitions (F23): all weights integers, exactly one of them negative; the first call
    weighted (must be rejected with InvalidArgument by both functions), then the same call unweighted (must
    run as usual: the guard looks at the weights only when weighted = true); seeded, so that the model runs"""
    edges = [(u, v, (1 + r3.below(4)) if w is None else w, a) for (u, v, w, a) in edges]
    k = r3.below(len(edges))
    u, v, w, a = edges[k]
    edges[k] = (u, v, -(1 + r3.below(3)), a)
    _, _, gn, gd, thr, sd = calls[0]
    if sd < 0:
        sd = r3.below(21)
    calls = [("louv", 1, gn, gd, thr, sd), ("louv", 0, gn, gd, thr, sd)] + \
            [("louv", 1, c[2], c[3], c[4], c[5] if c[5] >= 0 else r3.below(21)) for c in calls[1:]]
    return edges, calls


class C13Prop(CommProp):
    id = "C13"
    quick_n, thorough_n = 1500, 30000
    rule = ("graphs with 1-10 integer names (insertion order differs from sorted order), undirected and directed, "
            "single- and multi-edge, with and without self-loops, 1-3n edges, all weights NaN or integers 1-4; every "
            "5th graph is 2-4 cliques of 2-4 nodes joined in a ring (up to 12 nodes, several aggregation levels); "
            "louvain_partitions + louvain_communities with weighted = (weights are integers, 90%), seed 0..20, "
            "resolution in {1/4,..,2} or None, threshold in {0, 1e-7, 0.1, None}; each call under a 2 s watchdog; "
            "4% of graphs have no edge; 5% of calls are unseeded (oracle only); every 40th graph (separate PRNG stream) "
            "gets integer weights of which exactly one is negative (-1..-3) and is called weighted, unweighted, "
            "[weighted]: both functions must answer the weighted calls with InvalidArgument (model: the guard; "
            "oracle: InvalidArgument iff weighted and a stored weight < 0) and the unweighted one as usual.  "
            "The model receives the shuffle "
            "order the implementation's rand version derives from the seed.  non-trivial = the result has a "
            "community with >= 2 nodes; distinct = distinct case text")

    def gen(self, seed, n):
        r = gv.SplitMix(seed * 1000003 + 13)
        r3 = gv.SplitMix(seed * 7919 + 1323)      # separate stream: the other cases stay what they were
        cases = []
        for i in range(n):
            g = louvain_graph(r, 10, i)
            calls = []
            for j in range(1 + r.below(2)):
                weighted = 1 if (g["wmode"] == "int" and r.below(10)) else 0
                gn, gd = r.pick(GAMMAS_L + [(0, 0), (1, 1)])
                sd = -1 if r.below(20) == 0 else r.below(21)
                calls.append(("louv", weighted, gn, gd, r.pick([0, 1, 2, 3]), sd))
            edges = g["edges"]
            if i % 40 == 17 and edges:
                edges, calls = negative_variant(r3, edges, calls)
            cases.append({"id": "l%d" % i, "spec": g["spec"], "nodes": g["nodes"], "edges": edges,
                          "calls": calls})
        return cases

    def nontrivial(self, c, o):
        return any(ob[0] == 1300 and any(len(r) >= 2 for r in ob[1]) for ob in o)

    def stats_key(self, c, o):
        ks = ["directed_%d" % c["spec"][0], "multi_%d" % c["spec"][1], "n_%d" % len(c["nodes"]),
              "tie_%s" % c.get("tie", "unmodelled")]
        for ob in o:
            if ob[0] == 71:
                ks.append("levels_%d" % ob[1][0][0])
        for cl in c["calls"]:
            ks.append("weighted_%d" % cl[1])
            ks.append("thr_%d" % cl[4])
        if any(e[2] is not None and e[2] < 0 for e in c["edges"]):
            ks.append("negative_weight")
            ks += ["outcome_%d" % ob[1][0][0] for ob in o[3:] if ob[0] == 1]
        return ks

    def classify_known(self, case, descr, known):
        neg = any(e[2] is not None and e[2] < 0 for e in case["edges"]) and any(cl[1] for cl in case["calls"])
        for k in known:
            if k["id"] == "F23" and neg and ("does not return" in descr or "expected InvalidArgument" in descr
                                             or "implementation differs from the model" in descr):
                return k
            if k["id"] == "F16" and case["spec"][0] == 1 and "does not return" in descr:
                return k
            if k["id"] == "F17" and "not reproducible" in descr:
                return k
        return None


def fam_edges(kind, n):
    if kind == "path":
        return [(i, i + 1) for i in range(n - 1)]
    if kind == "cycle":
        return [(i, (i + 1) % n) for i in range(n)]
    if kind == "complete":
        return [(i, j) for i in range(n) for j in range(i + 1, n)]
    if kind == "star":
        return [(0, i) for i in range(1, n)]
    if kind == "circ2":
        return sorted(set((min(i, (i + k) % n), max(i, (i + k) % n)) for i in range(n) for k in (1, 2)
                          if i != (i + k) % n))
    if kind == "grid":
        rows = max(2, n // 3)
        return [(i * 3 + j, i * 3 + j + 1) for i in range(rows) for j in range(2)] + \
               [(i * 3 + j, (i + 1) * 3 + j) for i in range(rows - 1) for j in range(3)]
    if kind == "cliques":
        k = max(2, n // 2)
        return [(i, j) for i in range(k) for j in range(i + 1, k)] + \
               [(k + i, k + j) for i in range(k) for j in range(i + 1, k)] + [(0, k)]
    return []


ALL_TAGS = ["square_clustering", "bfs_equal_size_partitions(1)", "bfs_equal_size_partitions(2)",
            "bfs_equal_size_partitions(3)", "bfs_equal_size_partitions(4)", "clustering(unweighted)", "clustering(weighted)",
            "average_clustering", "transitivity", "triangles", "generalized_degree", "connected_components",
            "weakly_connected_components", "strongly_connected_components", "eigenvector_centrality", "degree_centrality",
            "dijkstra::all_pairs", "modularity(components)", "breadth_first_search", "closeness_centrality",
            "betweenness_centrality", "node_connected_component", "dijkstra::all_pairs(target)",
            "dijkstra::multi_source(all paths)", "dijkstra::multi_source(first_only, distances)",
            "get_subgraph(every other name): node order", "louvain_communities(seed 1) of that subgraph"]

FAMS = ["path", "cycle", "complete", "star", "circ2", "grid", "cliques", "rand", "hubtwin", "hubtwin_dir", "w5", "mring", "bigdir",
        "triring"]
WTS = [0.1, 0.2, 0.3]


class C17Prop(CommProp):
    id = "C17"
    quick_n, thorough_n = 150, 4000
    nproc = 3
    want_repro = True
    rule = ("tie-rich graphs (paths, cycles, complete, stars, circulants, grids, two cliques with a bridge, a hub joined by "
            "weights 0.1/0.2/0.3 to two identical heavy cliques, random) "
            "on 3-12 nodes, undirected and directed (40%, random orientation plus reverse edges), unweighted / "
            "weight 1 / weights cycling over 0.1,0.2,0.3 by edge index, by endpoint sum or at random; each seeded "
            "louvain_partitions and louvain_communities call (seeds 0-20, resolution {1/2,1,3/2,None}, threshold "
            "{0,1e-7,None}) repeated 20x in process, each time on a freshly built copy of the input graph (freshly "
            "keyed hash tables), and once under rayon pools of 1, 4 and 16 threads; modularity of the result on every "
            "copy must agree up to rounding; every 4th case "
            "is fast_gnp_random_graph (n 1-40, p in {.05,.2,.5,.9}, directed and undirected, seeds 0-50) likewise; "
            "the whole run is executed in 3 fresh processes and the outputs compared (partitions as sets of sets, "
            "graphs as node list + sorted edge list).  non-trivial = a Louvain result with a community of >= 2 nodes "
            "or a generated graph with >= 1 edge; distinct = distinct case text")

    def gen(self, seed, n):
        r = gv.SplitMix(seed * 1000003 + 17)
        r2 = gv.SplitMix(seed * 7919 + 1717)
        cases = []
        for i in range(n):
            if i % 4 == 3:
                calls = [("repro_gnp", 1 + r.below(40), pn, pd, dr, r.below(51))
                         for (pn, pd) in [r.pick([(1, 20), (1, 5), (1, 2), (9, 10)])] for dr in (0, 1)]
                if i % 16 == 3:
                    # the seed VALUE 0 (and the largest u64-representable test value) is a seed like any other
                    calls = [(c[0], max(c[1], 6), 1, 2, c[4], sd) for c, sd in zip(calls, (0, 0))]
                cases.append({"id": "r%d" % i, "spec": None, "nodes": [], "edges": [], "calls": calls})
                continue
            kind = FAMS[(i + r.below(len(FAMS))) % len(FAMS)]
            if i % 20 == 10:
                kind = "mring"          # the multigraph ring (Louvain collapses it first) at a fixed rate
            if i % 20 == 14:
                kind = "triring"
            nn = 3 + r.below(10)
            if kind == "rand":
                es = [(a, b) for a in range(nn) for b in range(a + 1, nn) if r.below(5) < 2]
            else:
                es = fam_edges(kind, nn)
            if not es:
                es = [(0, 1)]
            directed = 1 if r.below(5) < 2 else 0
            wmode = r.pick(["unw", "one", "idx", "sum", "rnd", "rnd"])
            edges = []
            if kind == "bigdir":
                # above the serial/parallel threshold: the non-randomised centralities must not depend on the pool size
                nb = 22 + r.below(5)
                es_b = [(j, (j + 1) % nb) for j in range(nb)] + [(r.below(nb), r.below(nb)) for _ in range(nb)]
                edges_b = [(u, v, 1 + r.below(3), None) for (u, v) in es_b if u != v]
                seen_b, edges_c = set(), []
                for e in edges_b:
                    if (e[0], e[1]) not in seen_b:
                        seen_b.add((e[0], e[1]))
                        edges_c.append(e)
                nodes_b = [(x, None) for x in r.shuffle(list(range(nb)))]
                cases.append({"id": "r%d" % i, "spec": (1, 0, 1, 0, 0, 0), "nodes": nodes_b,
                              "edges": edges_c, "calls": [("repro_cent", 1)]})
                # every algorithm on the same graph: above 20 nodes the rayon arms run under pools 1 / 4 / 16
                cases.append({"id": "a%d" % i, "spec": (1, 0, 1, 0, 0, 0), "nodes": nodes_b,
                              "edges": edges_c, "calls": [("repro_all", 1)]})
                continue
            multi = 0
            if kind == "mring":
                # a multigraph ring with doubled / tripled edges: Louvain collapses it first (to_single_edges)
                nn = 8 + r.below(10)
                multi, directed, wmode, es = 1, 0, "one", []
                for j in range(nn):
                    for _ in range(1 + r.below(3)):
                        edges.append((j, (j + 1) % nn, 1 + r.below(2), None))
            if kind == "w5":
                # a directed graph with inexact weights on which a node has several predecessors in one community and
                # an equally good competing community: the in-edge weights must be folded in a fixed order
                directed, wmode, es = 1, "rnd", []
                base = [(0, 2, 0.3), (1, 2, 0.6), (1, 3, 0.3), (1, 4, 0.6), (2, 3, 0.4), (3, 1, 0.6), (3, 2, 0.3),
                        (4, 1, 0.3), (4, 3, 0.2)]
                perm = r.shuffle(list(range(5))) if r.below(2) else list(range(5))
                edges = [(perm[u], perm[v], w, None) for (u, v, w) in (r.shuffle(base) if r.below(2) else base)]
            if kind == "hubtwin_dir":
                # the directed form of hubtwin: the hub has three inexactly weighted IN-edges from each of two
                # identical heavy (bidirected) cliques
                k = 3 + r.below(2)
                heavy = r.pick([1, 2, 4])
                directed, wmode, es = 1, "rnd", []
                sp = r.shuffle(WTS)
                for base in (1, 1 + k):
                    for a in range(k):
                        for b in range(k):
                            if a != b:
                                edges.append((base + a, base + b, heavy, None))
                    for j in range(3):
                        edges.append((base + j, 0, sp[j], None))
                        if r.below(2):
                            edges.append((0, base + j, sp[(j + 1) % 3], None))
                edges = r.shuffle(edges) if r.below(2) else edges
            if kind == "triring":
                # a ring of 8-12 triangles (inside weight 0.7) in which neighbouring triangles are joined by THREE edges of
                # weights 0.1, 0.2, 0.3: on the second level every aggregated edge is a sum of three inexact weights and
                # every community has two equally good neighbours, so the order in which the three are added decides
                k = 8 + r.below(5)
                directed, wmode, es = 0, "rnd", []
                for t_ in range(k):
                    a = 3 * t_
                    edges += [(a, a + 1, 0.7, None), (a + 1, a + 2, 0.7, None), (a, a + 2, 0.7, None)]
                    b = 3 * ((t_ + 1) % k)
                    sp = r.shuffle(WTS)
                    edges += [(a + j, b + j, sp[j], None) for j in range(3)]
                edges = r.shuffle(edges) if r.below(2) else edges
            if kind == "hubtwin":
                # a hub joined by inexact weights (0.1, 0.2, 0.3 in some order) to each of two identical heavy
                # cliques: once the cliques have formed the hub's gains towards them are mathematically equal,
                # so any order-dependent float accumulation can flip the decision from call to call
                k = 3 + r.below(2)
                heavy = r.pick([1, 2, 4])
                directed, wmode, es = 0, "rnd", []
                sp = r.shuffle(WTS)
                for base in (1, 1 + k):
                    for a in range(k):
                        for b in range(a + 1, k):
                            edges.append((base + a, base + b, heavy, None))
                    for j in range(3):
                        edges.append((0, base + j, sp[j], None))
                edges = r.shuffle(edges) if r.below(2) else edges
            for k, (u, v) in enumerate(es):
                if directed and r.below(2):
                    u, v = v, u
                w = {"unw": None, "one": 1, "idx": WTS[k % 3], "sum": WTS[(u + v) % 3], "rnd": r.pick(WTS)}[wmode]
                edges.append((u, v, w, None))
                if directed and r.below(10) < 3:
                    edges.append((v, u, None if wmode == "unw" else (1 if wmode == "one" else r.pick(WTS)), None))
            names = sorted(set(x for e in edges for x in e[:2]))
            nodes = [(x, None) for x in r.shuffle(names)]
            gn, gd = r.pick([(1, 1), (1, 2), (3, 2), (0, 0)])
            calls = [("repro_louv", 0 if wmode == "unw" else 1, gn, gd, r.pick([0, 0, 1, 3]),
                      0 if i % 16 == 5 else r.below(21))]
            if kind == "w5":
                calls = [("repro_louv", 1, 1, 1, 0, sd) for sd in (1, 2, 3)]
            cases.append({"id": "r%d" % i, "spec": (directed, multi, 1, 0, 0, 0), "nodes": nodes, "edges": edges,
                          "calls": calls})
            # "all non-randomised algorithms likewise": every algorithm of the library on the same graph, repeated
            if i % 3 == 0:
                cases.append({"id": "a%d" % i, "spec": (directed, multi, 1, 0, 0, 0), "nodes": nodes, "edges": edges,
                              "calls": [("repro_all", 0 if wmode == "unw" else 1)]})
            if i % 3 == 1:
                # a directed graph with one-way edges and hubs (asymmetric pair functions, a breadth-first level
                # larger than the room left in a partition)
                na = 6 + r2.below(6)
                ea = [(a, b, 1 + r2.below(3), None) for a in range(na) for b in range(na)
                      if a != b and r2.below(10) < 3]
                hub = r2.below(na)
                ea += [(hub, b, 1, None) for b in range(na) if b != hub and not any(e[0] == hub and e[1] == b for e in ea)]
                da = r2.below(4) != 0
                if not da:
                    seen_a, eb = set(), []
                    for e in ea:
                        kk = (min(e[0], e[1]), max(e[0], e[1]))
                        if kk not in seen_a:
                            seen_a.add(kk)
                            eb.append(e)
                    ea = eb
                cases.append({"id": "b%d" % i, "spec": (1 if da else 0, 0, 1, 0, 0, 0),
                              "nodes": [(x, None) for x in r2.shuffle(list(range(na)))], "edges": r2.shuffle(ea),
                              "calls": [("repro_all", r2.below(2))]})
        return cases

    def nontrivial(self, c, o):
        return any((ob[0] == 1300 and any(len(r) >= 2 for r in ob[1])) or (ob[0] == 1083 and ob[1])
                   or (ob[0] == 85 and ob[1][0][1] >= 20) for ob in o)

    def stats_key(self, c, o):
        ks = []
        for cl in c["calls"]:
            ks.append(cl[0])
        if c.get("spec") is not None:
            ks += ["directed_%d" % c["spec"][0], "modelled_%s" % modelled(c), "tie_%s" % c.get("tie", "unmodelled")]
            ks.append("weights_" + ("float" if any(isinstance(e[2], float) for e in c["edges"]) else "int_or_none"))
        return ks

    def classify_known(self, case, descr, known):
        for k in known:
            if k["id"] == "F17" and "not reproducible" in descr and any(cl[0] == "repro_louv" for cl in case["calls"]):
                return k
        return None


C12 = props.register(C12Prop())
C13 = props.register(C13Prop())
C17 = props.register(C17Prop())

C12.manifest = {
    "text": "Unbounded, axiom-free theorems over a generic name type with decidable equality: (1) C12_is_partition: the "
            "repaired partition test (scan all names; reject a non-node or a repeated name; compare counts) is true IFF "
            "the communities are pairwise disjoint, contain only nodes and cover every node (pigeonhole over NoDup "
            "lists); C12_is_partition_state: the state-level transcription (reading nodes_map / nodes_map_rev through "
            "get_node) decides the same definition on every state whose node indexes are coherent with its node list "
            "(C12_nodes_coherentb_sound: coherence is a checkable predicate, evaluated on every case); "
            "C12_not_partition_rejected / C12_rejects: anything else makes modularity return NotAPartition; "
            "(2) C12_modularity(+_of_partition): the value partitions.rs computes step by step (per-node out/in/undirected "
            "degrees with self-loops counted twice, their sums, m, the induced subgraph's edge weight) equals Newman's "
            "closed formula sum_c L_c/m - gamma*Kout_c*Kin_c/m^2 (undirected L_c/m - gamma*(K_c/2m)^2) with L_c, K_c, m "
            "defined directly on the edge multiset (parallel edges individually, a self-loop once in L_c and twice in "
            "K_c), for directed and undirected graphs, every resolution, every family of duplicate-free sets. "
            "(3) Round 2, END TO END on the twelve-field state (Proofs/ModularityStateOk.v), for every state reachable by "
            "any history of add_node(s)/add_edge(s) (hence every constructor result and derived graph), generic names: "
            "C12_is_partition_reachable - is_partition returns Ok b and b = true IFF the family is a partition of "
            "get_all_node_names (the coherence hypothesis of C12_is_partition_state is now a consequence of the invariant "
            "WF: C12_WF_nodes_coherent); C12_modularity_state_abs - under WF the model's modularity (degree maps of "
            "degree.rs over successors/predecessors/edges, get_subgraph + size per community) returns Ok(Some q) with q "
            "== modularity_abs over the node names and get_all_edges (weight 1 per edge when unweighted); "
            "C12_modularity_reachable - hence q == Newman's formula over get_all_edges for every partition (real weights "
            "when weighted, total weight non-zero); C12_not_partition_iff_reachable - modularity returns Err k IFF k = "
            "NotAPartition and the family is not a partition (so no other error kind, whatever the weights); "
            "C12_modularity_degenerate_reachable - the remaining values of a partition: total weight 0 with non-negative "
            "weights (edgeless graphs in particular) gives NaN (0 for the empty family on the empty graph), an edge "
            "without weight under weighted = true gives NaN - so modularity() is determined on every reachable graph with "
            "non-negative weights.",
    "note": "The theorems are about the list-level computations of Spec/PartitionDef.v (node list + weighted edge "
            "multiset). The twelve-field state model (Model/Partition.v: get_subgraph, size, the degree maps of "
            "Model/Query.v) is what the correspondence compares with the implementation (is_partition value, outcome "
            "kind, modularity within 1e-9 relative, NaN on edgeless graphs); that the state-level model equals the "
            "list-level computation and Newman's formula is PROVED since round 2 (item 3 of the text, from WF via "
            "get_subgraph_content, get_{out,in}_edges_for_node_spec, get_edges_for_node_spec) and is in addition still "
            "evaluated on every generated case (observation 210, kept as a tie between model and code). Not covered "
            "by a theorem: total weight 0 reached with NEGATIVE weights (x/0 with x != 0 is +-inf in binary64; the "
            "model maps it to a named Panic 'outside the modelled domain', never generated). "
            "Independent oracle: Newman's formula recomputed in "
            "Python (fractions) from the implementation's get_all_edges, and the set-theoretic partition test. Weights in "
            "generated cases are NaN or small integers (exact in binary64); negative weights / infinite intermediate "
            "values are outside the modelled domain. Defect F8 repaired (fix: 2289a94). Axioms: none.",
    "technique": "Coq proof (NoDup/incl pigeonhole; sum exchange over the edge list; ring/field over Q) + differential "
                 "correspondence vs vm_compute model + exact-arithmetic oracle",
}
C13.manifest = {
    "text": "ROUND 2 - proved for the state-level model itself, unbounded and axiom-free. (A) Structural half, every "
            "input: C13_levels_partition_nested - for every reachable graph state, resolution, threshold, shuffle "
            "table and fuel, whenever louvain_partitions returns, its levels form a non-empty list, every level is a "
            "partition of the input node set into non-empty sets, every level coarsens the previous one "
            "(C13_communities_partition: louvain_communities returns such a partition, never NoPartitions). Route: the "
            "bookkeeping invariants L1 (node2com u = c <-> u in inner_partition[c]) and L2 (_partition[c] = union of the "
            "attribute sets of inner_partition[c]) are preserved by every visit whatever community is chosen "
            "(C13_visit_keeps_L1_L2), generate_graph keeps the attribute sets a partition of the original nodes "
            "(C13_generate_graph_nodes), convert_graph / convert_back are a bijective renaming. (B) Numeric half, on "
            "every level graph (coherent single-edge working graph, non-negative real weights; "
            "C13_first_graph_is_level_graph and the generate_graph theorems show every working graph of the model is "
            "one), resolution >= 0: C13_bookkeeping - L1, L2 and L3 (Stot / Stot_in / Stot_out = K_of / Kin_of / Kout_of "
            "of the members on the edge multiset) hold at the end of the local-moving phase for every fuel and order; "
            "C13_neighbor_weights_between - the candidate weights of a node are the weights between it and each "
            "community on the edge multiset; C13_visit / C13_accepted_move_increases_modularity - every visit "
            "returns (no panic) and EVERY accepted move strictly increases Newman's modularity of the level graph, "
            "undirected and directed, for every visiting order (seed); C13_generate_graph_aggregates - the edge "
            "multiset of the generated graph is the list-level aggregate (observation 76 as a theorem). (C) "
            "Termination: C13_local_moving_terminates - consecutive sweeps visit pairwise different node->slot maps "
            "(strictly increasing modularity, C13_strict_chain_bounded), so the sweep loop stops within n^n sweeps: "
            "with fuel >= n^n compute_one_level returns Ok; an improving phase leaves an empty slot, so the next level "
            "has fewer nodes; C13_never_out_of_fuel - with level fuel > N and sweep fuel >= N^N louvain_partitions / "
            "louvain_communities never return OutOfFuel. (D) Monotonicity: C13_levels_monotone - for every single-edge "
            "input graph, Newman's modularity of the INPUT graph (its own names and weighted edge list) never decreases "
            "along the returned levels and the first level is at least as good as the all-singletons partition "
            "(C13_level_ge_singletons per level; C13_convert_back_preserves_Q: the renaming preserves modularity; "
            "level graphs are faithful to the first working graph, same total weight, so the constant m is right on "
            "every level); C13_levels_monotone_partial - the same for every input incl. multigraphs, measured on the "
            "first working graph; SUPERSEDED (deep16) by C13_levels_monotone_all_inputs - for EVERY coherent input "
            "graph, multigraphs included, modularity measured on the INPUT graph never decreases along the returned "
            "levels and the first level is at least as good as the singletons: with weighted = true on the "
            "multigraph's own weighted edge list, parallel edges counted individually "
            "(C13_levels_monotone_weighted_all_inputs, full); with weighted = false a single-edge graph on its own "
            "unit edge list and a multigraph on the SUPPORT of its edge list, one unit edge per adjacent pair "
            "(C13_levels_monotone_unweighted_all_inputs; C13_support_is_support_of_edge_list), because convert_graph "
            "collapses first (to_single_edges) and overwrites the weights with 1 afterwards. The transport: "
            "C13_newman_collapse(_graph) - Newman's formula is invariant under collapsing parallel edges into one "
            "edge with the sum of their weights, for every family of communities, every resolution, directed and "
            "undirected, self-loops included (C13_collapse_regroups: every end-point selection weighs the same; "
            "C13_collapse_keys_distinct / C13_collapse_weight: the list-level collapse has one entry per pair with "
            "the pair's total weight); C13_to_single_edges_newman - through C15_to_single_edges_content the graph "
            "built by to_single_edges has the modularity of the input multigraph and of the list-level collapse of "
            "its edge list. REFUTED (evaluated counterexample, replayed on the implementation): for the modularity "
            "that counts every parallel edge the unweighted multigraph statement is false - "
            "C13_unweighted_multigraph_counterexample (undirected, edges 1-2, 3-4 once, 2-3, 1-4 four times, seed 0: "
            "the returned level {1,2} {3,4} has modularity -3/10, the singletons -1/4), "
            "C13_levels_monotone_by_multiplicity_refuted. Non-vacuity on a weighted multigraph: "
            "C13_all_inputs_nonvacuous. (E) The guard of F23 (louvain.rs after 9619d10; first step of the model's "
            "louvain_partitions): C13_negative_weights_rejected - weighted = true and a stored edge with a real negative "
            "weight: louvain_partitions and louvain_communities return InvalidArgument for EVERY graph state, fuel, "
            "shuffle table, resolution and threshold; C13_guard_false_on_domain - on the domain of (B)-(D) (weights_ok) "
            "the guard is false, so those theorems are about the code after the guard; "
            "C13_levels_monotone_any_weights - C13_levels_monotone without the hypothesis weights_ok (a returned value "
            "means the guard was false, and the input's weighted edge list exists only if every edge has a weight). "
            "Round 1 (kept): "
            "C13_check_levels_sound (verified checker), C13_communities_is_last, C13_move_gain_newman(_directed), "
            "C13_accepted_move_increases_Q(_directed), C13_move_only_if_strictly_better, C13_model_move_increases_Q, "
            "C13_aggregation_preserves_Q, C13_strict_chain_bounded, C13_move_gain(_directed).",
    "note": "PARTIAL in one place (two before deep16). (1) Fuel: the theorem is for sweep fuel >= N^N and level fuel > N; the executable "
            "instance of the model runs with SWEEP_FUEL = 300 and LEVEL_FUEL = 40, which the bound covers for N <= 4 "
            "only (generated cases go up to n = 10), so OutOfFuel stays a reported per-case outcome ('does not "
            "return', with the 2 s watchdog on the implementation); no better worst-case bound for Louvain's local "
            "moving is known. The theorem is '<> OutOfFuel': a Panic/Err remains possible only outside the domain "
            "(NaN weight with weighted=true, malformed shuffle table) or through the state-level modularity calls, "
            "whose totality is C12's per-case observation 210. (2) NO LONGER PARTIAL (deep16): for a MULTIGRAPH input "
            "monotonicity is now proved on the input graph (C13_levels_monotone_all_inputs; the transport of Newman's "
            "formula through to_single_edges is C13_newman_collapse + C13_to_single_edges_newman). What remains is a "
            "FINDING, not a gap: an unweighted call on a multigraph optimises the support graph (each adjacent pair "
            "once), and its levels are NOT monotone for modularity(graph, weighted = false), which counts every "
            "parallel edge (C13_unweighted_multigraph_counterexample; property C13 promises monotonicity on "
            "single-edge graphs only, and the oracle checks it there). Observation 75 still evaluates the exact "
            "check on single-edge inputs only (there it is the theorem C13_levels_monotone). Domain of the numeric theorems: resolution >= 0, non-negative real "
            "weights when weighted=true; negative weights under weighted=true are rejected by the modelled guard "
            "(InvalidArgument, F23) - generated (every 40th graph), compared with the model (outcome code 3 on both "
            "sides) and checked by the oracle (InvalidArgument iff weighted and a stored weight < 0); what stays outside "
            "is a NaN weight under weighted=true (passes the guard like in the code; no NaN arithmetic in the model). The per-case flags are KEPT as ties between model and code: 74 "
            "(check_levels on the model's output - now a theorem for the model, C13_levels_partition_nested), 75 "
            "(monotone on the input graph - now C13_levels_monotone), 76 (generate_graph = aggregate - now "
            "C13_generate_graph_aggregates), 77 (L1-L3 after the first phase - now C13_bookkeeping). Correspondence: "
            "the model (transcription of louvain.rs after the repairs) receives the shuffle order that the "
            "implementation's own rand version derives from the seed (the harness replays StdRng::seed_from_u64(seed) + "
            "shuffle for every level size) and the levels are compared exactly as sets of sets, except on runs where "
            "the exact model meets a tie between unequal operands (binary64 may round the two sides differently): "
            "there only outcome codes and checker verdicts are compared (about 12% of runs). The theorems are about "
            "exact arithmetic; cycling caused purely by binary64 drift in Stot is outside them. Defects F16 (hang on "
            "digraphs, fix: 73bce3f), F17 (hash-order ties, fix: 6c1ce46) and F23 (no return on negative weights, fix: "
            "9619d10, found by the C20 sweep) repaired. Axioms: none.",
    "technique": "Coq proof (loop invariants L1-L5 over the state-level model, potential-function termination, "
                 "aggregation) + verified checker + differential correspondence vs vm_compute model with the real RNG "
                 "stream + exact-arithmetic oracle with watchdog",
}
C17.manifest = {
    "text": "Hash-order independence of the seeded Louvain model, unbounded and axiom-free: C17_scan_order_canonical "
            "(insertion sort of two permutations of a candidate list with distinct community ids is the same list), "
            "C17_best_com_order_independent (the community chosen for a node does not depend on the iteration order of "
            "the candidate HashMap), C17_neighbor_weights_order_independent (the weights towards neighbouring "
            "communities do not depend on the iteration order of the neighbour HashSet), C17_edge_order_canonical (the "
            "order in which generate_graph accumulates aggregated weights does not depend on the iteration order of "
            "the edge HashMap). Round 2 composes them into theorems about the WHOLE algorithm: Model/LouvainOrd.v is "
            "the same pipeline with the iteration order of every hash container that reaches order-sensitive code "
            "(candidate map, successor / predecessor sets, edge map of generate_graph) supplied by an arbitrary stateful "
            "oracle whose only property is that each answer is a permutation of the container's content; "
            "C17_louvain_partitions_hash_order_independent and C17_louvain_communities_hash_order_independent: for "
            "every such oracle, oracle state, graph state (coherent or not), weighted flag, resolution, threshold, "
            "shuffle table and fuels the oracle-driven function EQUALS the executed model (same Ok value, Err, panic "
            "site, OutOfFuel); per stage: C17_compute_one_level_hash_order_independent, "
            "C17_generate_graph_hash_order_independent. The side conditions of the local lemmas are discharged "
            "(C17_weights2com_keys_distinct, C17_sorted_neighbours_canonical, C17_working_graph_edge_keys_distinct: "
            "every working graph is WF and single-edge, the first one whatever the input state). The guard of F23 "
            "(weighted and a stored weight < 0 -> InvalidArgument) is the same first step in both pipelines (an `any` "
            "over the edge map is a boolean: no order reaches it), so the equalities still hold for ALL inputs. "
            "Non-vacuity by "
            "vm_compute on the 4-cycle and the 12-cycle with a reversing and a stateful rotating oracle "
            "(C17_hash_order_oracles_satisfy_hypotheses, C17_hash_order_nonvacuous); control "
            "C17_raw_scan_is_order_sensitive (without the sort the order is observable). The model has no other hidden "
            "input: the shuffle order is an explicit argument derived from the seed.",
    "note": "Reproducibility across repeated calls (20x in process), rayon pools of 1/4/16 threads and 3 fresh "
            "processes is OBSERVED on the implementation by the oracle (outputs identical as sets of sets / node list + "
            "sorted edge list) for seeded louvain_partitions, louvain_communities and fast_gnp_random_graph (directed "
            "and undirected) on tie-rich graphs with weights 1 and 0.1/0.2/0.3; it is not a theorem about std's "
            "RandomState, rayon or binary64 rounding. The whole-algorithm theorems quantify over the iteration order "
            "at the order-sensitive sites of louvain.rs (DESIGN 0.10.8 lists all hash-iteration sites of the call tree; "
            "no uncanonicalised one was found); iterations that only feed another hash container (set difference / "
            "union / extend / collect) keep the model's list representation - for them only local content-level lemmas are "
            "proved (C17_generate_graph_part_order_free, C17_set_ops_content_only, "
            "C17_convert_back_community_order_free), not composed - and the f64 sums inside degree.rs / "
            "query.rs / partitions.rs (sum_sorted) are exact rationals in the model - their order-freedom in binary64 is "
            "observed, not proved. fast_gnp_random_graph has no model here (it belongs to C16); the "
            "sentence about all non-randomised algorithms is covered only for modularity (C12 correspondence) and the "
            "Louvain sub-steps. Louvain runs with integer weights are also compared with the Coq model (tie-free runs "
            "exactly). Defect F17 repaired (fix: 6c1ce46: deterministic candidate order + float sums accumulated in a "
            "fixed order in louvain.rs, degree.rs, query.rs size, partitions.rs). Axioms: none.",
    "technique": "Coq proof (Permutation / sorting canonicity) + repeated-call / cross-pool / cross-process oracle on "
                 "the implementation + correspondence vs vm_compute model",
}
C12.rule += ' WEIGHT VARIANTS (separate PRNG stream): 20% of the weighted cases are run with a dyadic weight scale applied inside the harness (all weights x 2^k on input, weight-valued observations / 2^k on output, k in {-60, -3, 40}; exact in binary64, so the observations must equal those of the unscaled integers the model and the oracle use): path-length differences far below f64::EPSILON, all weights below 1, large magnitudes.'
