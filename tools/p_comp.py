"""C10 — component functions partition the nodes by the right reachability relation.
Generator, serialisers and the property oracle (evaluated on the implementation's output,
independently of the Coq model)."""
import gv
import hist
import props

SPECS_OK = [  # (d, m, s, dd, ms, slf): constructions that accept every generated edge list
    (d, m, s, dd, 0, 1) for d in (0, 1) for m in (0, 1) for s in (0, 1) for dd in (1, 2)
] + [(d, 1, 1, 0, 0, 0) for d in (0, 1)]


def _perm_names(rng, n):
    base = rng.pick([0, 0, 10, -3])
    names = [base + i for i in range(n)]
    return rng.shuffle(names) if rng.chance(2, 3) else names


def gen_graph(rng, max_n=8):
    """returns (names in declaration order, edge list [(u,v)]) of one of the structured shapes"""
    shape = rng.pick(["random", "random", "dense", "small_comps", "cycle", "nested_scc", "nested_scc",
                      "path", "star", "empty", "two_cycles"])
    n = 1 + rng.below(max_n)
    if shape == "empty":
        n = 1 + rng.below(3)
    names = _perm_names(rng, n)
    E = []
    if shape == "random":
        m = rng.below(2 * n + 1)
        for _ in range(m):
            E.append((rng.pick(names), rng.pick(names)))
    elif shape == "dense":
        for u in names:
            for v in names:
                if rng.chance(1, 2):
                    E.append((u, v))
    elif shape == "small_comps":
        i = 0
        while i < n:
            k = 1 + rng.below(3)
            grp = names[i:i + k]
            for a, b in zip(grp, grp[1:]):
                E.append((a, b))
            if len(grp) == 3 and rng.chance(1, 2):
                E.append((grp[2], grp[0]))
            if rng.chance(1, 4):
                E.append((grp[0], grp[0]))
            i += k
    elif shape == "cycle":
        for i in range(n):
            E.append((names[i], names[(i + 1) % n]))
        if n > 3 and rng.chance(1, 2):
            E.append((names[0], names[n // 2]))
        if rng.chance(1, 3) and n > 1:
            E.pop(rng.below(len(E)))
    elif shape == "two_cycles":
        h = max(1, n // 2)
        a, b = names[:h], names[h:]
        for grp in (a, b):
            for i in range(len(grp)):
                E.append((grp[i], grp[(i + 1) % len(grp)]))
        if b and rng.chance(1, 2):
            E.append((rng.pick(a), rng.pick(b)))
    elif shape == "nested_scc":
        # condensation DAG over blocks; each block a directed cycle (+ chords); DAG edges forward
        blocks, i = [], 0
        while i < n:
            k = 1 + rng.below(4)
            blocks.append(names[i:i + k])
            i += k
        for b in blocks:
            if len(b) > 1:
                for j in range(len(b)):
                    E.append((b[j], b[(j + 1) % len(b)]))
                if len(b) > 2 and rng.chance(1, 2):
                    E.append((rng.pick(b), rng.pick(b)))
        for x in range(len(blocks)):
            for y in range(x + 1, len(blocks)):
                if rng.chance(2, 5):
                    E.append((rng.pick(blocks[x]), rng.pick(blocks[y])))
        E = rng.shuffle(E)
    elif shape == "path":
        for a, b in zip(names, names[1:]):
            E.append((a, b) if rng.chance(1, 2) else (b, a))
    elif shape == "star":
        for v in names[1:]:
            E.append((names[0], v) if rng.chance(1, 2) else (v, names[0]))
    # decorations: self-loops, parallel edges, reversed duplicates
    if E and rng.chance(1, 3):
        E.append(E[rng.below(len(E))])
    if E and rng.chance(1, 4):
        u, v = E[rng.below(len(E))]
        E.append((v, u))
    if rng.chance(1, 4):
        x = rng.pick(names)
        E.append((x, x))
    return shape, names, E


def gen_cases(seed, n, prefix="g"):
    rng = gv.SplitMix(seed * 7919 + 10)
    out = []
    for i in range(n):
        shape, names, E = gen_graph(rng, 12 if i % 10 == 9 else 8)
        spec = SPECS_OK[(i + rng.below(3)) % len(SPECS_OK)]
        if spec[3] == 0:  # DErr on a multigraph never rejects; fine
            pass
        # declare a random subset of the nodes up front (the rest is created by the edges);
        # nodes touched by no edge must be declared, otherwise they do not exist
        touched = set(u for e in E for u in e)
        decl = [x for x in names if x not in touched or rng.chance(1, 2)]
        decl = rng.shuffle(decl) if rng.chance(1, 2) else decl
        wmode = rng.below(3)
        edges = [(u, v, None if wmode == 0 else 1 + rng.below(3), None) for (u, v) in E]
        absent = max(names) + 1 + rng.below(3)
        case = {"id": "%s%d" % (prefix, i), "spec": list(spec), "shape": shape,
                "nodes": [[x, None] for x in decl], "edges": [list(e) for e in edges], "absent": absent}
        if i % 5 == 2 and names:
            # a multi-step build: after the edges, one or two existing nodes are re-added (add_node on an existing
            # name = attribute update); the components and searches must not change
            case["readd"] = [names[(7 * i + k) % len(names)] for k in range(1 + i % 2)]
            if i % 10 == 7:
                # ... and a NEW isolated node is added that way too (the component functions are asked before and after)
                case["readd"].append(absent + 5)
        out.append(case)
    return out


def graph_lines(c):
    ns, es = c["nodes"], c["edges"]
    return "graph %d %s %d %s" % (len(ns), " ".join(hist.h_node(tuple(x)) for x in ns),
                                  len(es), " ".join(hist.h_edge(tuple(e)) for e in es))


def coq_graph(c):
    return "%s [%s] [%s]" % (hist.coq_spec(tuple(c["spec"])),
                             "; ".join(hist.coq_node(tuple(x)) for x in c["nodes"]),
                             "; ".join(hist.coq_edge(tuple(e)) for e in c["edges"]))


def closure_table(names, pairs):
    """reach[u] = set of nodes reachable from u (reflexive) following the ordered pairs"""
    succ = {u: set() for u in names}
    for u, v in pairs:
        if u in succ and v in succ:
            succ[u].add(v)
    reach = {}
    for s in names:
        seen, st = {s}, [s]
        while st:
            x = st.pop()
            for y in succ[x]:
                if y not in seen:
                    seen.add(y)
                    st.append(y)
        reach[s] = seen
    return reach


def check_partition(what, names, comps, related):
    """the property's partition clause, literally"""
    msgs = []
    flat = [x for c in comps for x in c]
    if any(len(c) == 0 for c in comps):
        msgs.append("%s: empty component" % what)
    if len(flat) != len(set(flat)):
        msgs.append("%s: a node occurs twice" % what)
    if set(flat) != set(names):
        msgs.append("%s: components do not cover exactly the node set" % what)
    if msgs:
        return msgs
    where = {}
    for i, c in enumerate(comps):
        for x in c:
            where[x] = i
    for x in names:
        for y in names:
            if (where[x] == where[y]) != related(x, y):
                msgs.append("%s: nodes %d,%d share a set = %s but related = %s"
                            % (what, x, y, where[x] == where[y], related(x, y)))
                return msgs
    return msgs


class CompProp(props.BaseProp):
    id = "C10"
    run_module = "Run.RunComp"
    harness_mode = "comp"
    quick_n, thorough_n = 700, 12000
    shards = 12
    rule = ("graphs of all kinds (directed/undirected x multi/single x self-loops allowed/dropped, KeepFirst/KeepLast/"
            "Error dedupe) with 1-8 nodes (every tenth up to 12) whose names' sort order differs from insertion order, "
            "shapes: random sparse, dense, many small components, long cycle (+chord/-edge), two cycles, nested SCCs "
            "(condensation DAG + cycles + chords), path, star, edgeless; decorated with self-loops, parallel and "
            "reversed duplicate edges, isolated nodes; part of the nodes declared, the rest created by the edges. On "
            "each graph: connected/weakly/strongly_connected_components, number_of_connected_components, "
            "node_connected_component for every node and one absent name, breadth_first_search from every node, "
            "bfs_equal_size_partitions(k) for k = 1..n+2. non-trivial = at least 2 nodes and 1 edge; distinct = "
            "distinct case text")

    def gen(self, seed, n):
        return gen_cases(seed, n)

    def to_harness(self, c):
        return "\n".join(["case %s" % c["id"], "spec %d %d %d %d %d %d" % tuple(c["spec"]),
                          graph_lines(c), "absent %d" % c["absent"]] +
                         (["readd %s" % " ".join(str(x) for x in c["readd"])] if c.get("readd") else []) + ["end"])

    def to_coq(self, c):
        return "mkcc %s %s %s" % (coq_graph(c), hist.z(c["absent"]), hist.zl(c.get("readd", [])))

    def case_json(self, c):
        return dict({k: c[k] for k in ("id", "spec", "nodes", "edges", "absent")}, readd=c.get("readd", []))

    def case_from_json(self, j):
        j = dict(j)
        j.setdefault("id", "replay")
        return j

    def oracle(self, c, o):
        msgs = []
        if not o or o[0][0] != 1:
            return ["no construction outcome"]
        if o[0][1][0][0] != 0:
            return []  # construction refused / failed: nothing to say here
        by = {}
        for k, rows, fl in o:
            by.setdefault(k, []).append(rows)
        names = by[2][0][0]
        directed = c["spec"][0] == 1
        pairs = [(e[0], e[1]) for e in c["edges"]]
        fwd = closure_table(names, pairs)
        und = closure_table(names, pairs + [(v, u) for u, v in pairs])
        conn = lambda x, y: y in und[x]
        strong = lambda x, y: y in fwd[x] and x in fwd[y]
        WM, NF = 12, 4

        def code(k):
            return by[k][0][0][0] if k in by else None

        # connected_components / number / node_connected_component
        if directed:
            if code(10) != WM:
                msgs.append("connected_components on a directed graph: code %s, WrongMethod expected" % code(10))
            if by[12][0][0][0] != WM:
                msgs.append("number_of_connected_components on a directed graph: WrongMethod expected")
            for rows in by.get(13, []):
                if rows[0][1] != WM:
                    msgs.append("node_connected_component on a directed graph: WrongMethod expected")
                    break
            for kc, ks, rel, nm in ((14, 1015, conn, "weakly_connected_components"),
                                    (16, 1017, strong, "strongly_connected_components")):
                if code(kc) != 0:
                    msgs.append("%s: outcome code %s" % (nm, code(kc)))
                else:
                    msgs += check_partition(nm, names, by[ks][0], rel)
        else:
            if code(14) != WM or code(16) != WM:
                msgs.append("weakly/strongly_connected_components on an undirected graph: WrongMethod expected")
            if code(10) != 0:
                msgs.append("connected_components: outcome code %s" % code(10))
            else:
                comps = by[1011][0]
                msgs += check_partition("connected_components", names, comps, conn)
                if by[12][0][0] != [0, len(comps)]:
                    msgs.append("number_of_connected_components %s, %d sets" % (by[12][0][0], len(comps)))
                for rows in by.get(13, []):
                    x, cd, s = rows[0][0], rows[0][1], rows[0][2:]
                    if x in names:
                        if cd != 0 or len(s) != len(set(s)) or set(s) != und[x]:
                            msgs.append("node_connected_component(%d) = code %d %s, expected the set containing it %s"
                                        % (x, cd, s, sorted(und[x])))
                    elif cd != NF:
                        msgs.append("node_connected_component(absent %d): code %d, NodeNotFound expected" % (x, cd))
        # breadth_first_search
        for rows in by.get(18, []):
            r = rows[0]
            x = r[0]
            if r[1] != 0:
                msgs.append("breadth_first_search(%d): outcome code %d" % (x, r[1]))
                continue
            head, lst = r[2], r[3:]
            want = fwd[x] if directed else und[x]
            if head != x:
                msgs.append("breadth_first_search(%d) does not list the start first (%d)" % (x, head))
            if len(lst) != len(set(lst)):
                msgs.append("breadth_first_search(%d) lists a node twice: %s" % (x, lst))
            if set(lst) != want:
                msgs.append("breadth_first_search(%d) = %s, reachable set %s" % (x, lst, sorted(want)))
        # bfs_equal_size_partitions
        n = len(names)
        ks = by.get(20, [])
        ps = by.get(21, [])
        j = 0
        for rows in ks:
            k, cd = rows[0]
            if cd != 0:
                msgs.append("bfs_equal_size_partitions(%d): outcome code %d" % (k, cd))
                continue
            parts = ps[j]
            j += 1
            flat = [x for p in parts for x in p]
            if len(parts) != k:
                msgs.append("bfs_equal_size_partitions(%d): %d parts" % (k, len(parts)))
            if sorted(flat) != sorted(names):
                msgs.append("bfs_equal_size_partitions(%d): not every node in exactly one part: %s" % (k, parts))
            if any(len(p) > n // k + 1 for p in parts):
                msgs.append("bfs_equal_size_partitions(%d): a part exceeds the size bound %d: %s"
                            % (k, n // k + 1, parts))
        if len(ks) != n + 2:
            msgs.append("expected %d bfs_equal_size_partitions calls, saw %d" % (n + 2, len(ks)))
        return msgs[:4]

    def nontrivial(self, c, o):
        if not o or o[0][1][0][0] != 0:
            return False
        names = [r for k, r, f in o if k == 2][0][0]
        return len(names) >= 2 and len(c["edges"]) >= 1

    def stats_key(self, c, o):
        ks = ["directed_%d" % c["spec"][0], "multi_%d" % c["spec"][1], "shape_" + c.get("shape", "replay"),
              "construct_%d" % o[0][1][0][0]]
        for k, rows, f in o:
            if k == 2:
                ks.append("n_%d" % len(rows[0]))
            if k in (1011, 1015):
                ks.append("ncomp_%d" % len(rows))
            if k == 1017:
                ks.append("nscc_%d" % len(rows))
        return ks

    def shrink_candidates(self, c):
        out = []
        for i in range(len(c["edges"])):
            d = dict(c)
            d["edges"] = c["edges"][:i] + c["edges"][i + 1:]
            out.append(d)
        for i in range(len(c["nodes"])):
            d = dict(c)
            d["nodes"] = c["nodes"][:i] + c["nodes"][i + 1:]
            out.append(d)
        return out


C10 = props.register(CompProp())
C10.manifest = {
    "text": "Unbounded Coq theorems (generic name type, axiom-free) about the faithful model of query.rs "
            "breadth_first_search and components/*.rs, END TO END against the EDGE LIST: for EVERY coherent graph state "
            "(the invariant WF of all twelve fields, proved for every state reachable by any history of mutations and hence "
            "for every graph built by new_from_nodes_and_edges) - with NO per-case test in the hypotheses - "
            "(1) breadth_first_search(x) from any node RETURNS, lists x first, no node twice, and exactly the nodes reachable "
            "from x along the stored edges of get_all_edges (against them too on an undirected graph); from an absent name "
            "the unwrap fails (C10_bfs_wf / C10_bfs_reachable). (2) connected_components (undirected) and "
            "weakly_connected_components (directed) RETURN and ARE the partition of the node list into the classes of "
            "connectedness over the edge list ignoring direction (non-empty, disjoint, each node once, same set iff "
            "connected); number_of_connected_components is its length, node_connected_component(x) the class of x, "
            "NodeNotFound for an absent name, WrongMethod on the other kind (C10_connected_wf/_reachable, C10_weak_wf/"
            "_reachable, C10_count_wf, C10_node_component_wf). (3) strongly_connected_components - the iterative preorder/"
            "low-link loop, 29-clause stack / low-link invariant - RETURNS and IS the partition into the classes of mutual "
            "reachability along stored edges, for EVERY neighbour iteration order that permutes each successor set "
            "(C10_scc_wf/_reachable; the order oracle is the only hypothesis left, and it is about HashSet iteration, not "
            "about the graph; for the two orders the Run module evaluates - insertion order and its reverse - none is left: "
            "C10_scc_run_orders; and the classes do not depend on the order: C10_scc_order_independent, via "
            "C10_partition_unique). (4) bfs_equal_size_partitions(k) RETURNS for every k >= 1 (C10_equal_size_total_wf); every "
            "returning run has exactly k parts, every node index in exactly one part, no part longer than n/k+1. "
            "The bridge (Proofs/CompWF.v, C10_tests_hold): the former per-case coherence tests / hypotheses - adjacency "
            "query total, closed and symmetric (step_total_b, step_ok_b), predecessors = inverse successors and inside the "
            "node list (wstep_ok_b), successors are nodes, index adjacency well formed (vec_ok_b) - are now THEOREMS "
            "(consequences of WF), and the relation each loop follows (neighbour query, successors/predecessors name maps) "
            "is proved EQUAL to the edge-list relation. The older theorems (loop theorems under explicit hypotheses, for "
            "states that need not be coherent; the VERIFIED CHECKER check_components) are kept. The model is tied to the code "
            "on every run: all component sets, counts, per-node components (every node + an absent name), BFS from every "
            "node, bfs_equal_size_partitions for k=1..n+2 are compared, and a Python oracle re-checks the partition / "
            "reachability / size statements directly on the implementation's output.",
    "note": "Total correctness is part of the end-to-end theorems (exists cs, f g = Ok cs /\\ ...): no unwrap fails and the "
            "model's explicit fuel is never exhausted on any coherent state of the right kind. The executable coherence "
            "tests and the edge-list checker are STILL evaluated on every generated case (flags of Run/RunComp.v): they no "
            "longer carry the theorems, they tie the model's state to the code's. Not covered by a theorem: that the Rust "
            "HashSet iteration is a permutation (taken as the meaning of ord). "
            "Trusted: Coq kernel + vm_compute; harness/printers/diff. Axioms: none (every pinned theorem is Closed under the "
            "global context). Repaired defect: F18 (fix commit 562ac6a).",
    "technique": "Coq proof (loop invariants incl. the full Tarjan-style SCC invariant, verified partition checker) + "
                 "differential correspondence vs vm_compute model + property oracle on the implementation's output",
}
