"""C16 — generators produce the graph family they name (complete_graph, fast_gnp_random_graph,
karate_club_graph).  Plug-in for ./check; see DESIGN.md section 6/C16."""
import math
import struct
from fractions import Fraction

import gen_karate
import gv
import props

# the source-derived data the theorem karate_is_zachary is re-proved on (before the proof gate)
gen_karate.regenerate()

KARATE_REF = [(0, 1), (0, 2), (0, 3), (0, 4), (0, 5), (0, 6), (0, 7), (0, 8), (0, 10), (0, 11), (0, 12), (0, 13),
              (0, 17), (0, 19), (0, 21), (0, 31), (1, 2), (1, 3), (1, 7), (1, 13), (1, 17), (1, 19), (1, 21),
              (1, 30), (2, 3), (2, 7), (2, 8), (2, 9), (2, 13), (2, 27), (2, 28), (2, 32), (3, 7), (3, 12),
              (3, 13), (4, 6), (4, 10), (5, 6), (5, 10), (5, 16), (6, 16), (8, 30), (8, 32), (8, 33), (9, 33),
              (13, 33), (14, 32), (14, 33), (15, 32), (15, 33), (18, 32), (18, 33), (19, 33), (20, 32), (20, 33),
              (22, 32), (22, 33), (23, 25), (23, 27), (23, 29), (23, 32), (23, 33), (24, 25), (24, 27), (24, 31),
              (25, 31), (26, 29), (26, 33), (27, 33), (28, 31), (28, 33), (29, 32), (29, 33), (30, 32), (30, 33),
              (31, 32), (31, 33), (32, 33)]

FULL_MAX_N = 12          # up to here the model goes through the twelve-field creation code


def bits(p):
    return "x" + struct.pack(">d", p).hex()


def unbits(s):
    return struct.unpack(">d", bytes.fromhex(s[1:]))[0]


def p_valid(p):
    return p > 0.0 and p < 1.0      # false for NaN


def coq_f64(p):
    if math.isnan(p):
        return "FNaN"
    if math.isinf(p):
        return "(FInf %s)" % ("true" if p < 0 else "false")
    f = Fraction(p)
    if f >= 0:
        return "(FFin (%d # %d)%%Q)" % (f.numerator, f.denominator)
    return "(FFin ((-%d) # %d)%%Q)" % (-f.numerator, f.denominator)


def coq_bool(b):
    return "true" if b else "false"


SPECIAL_P = [1e-17, 1e-9, 0.5, 1 - 1e-9, 5e-324, 1 - 2.0 ** -53, 2.0 ** -53, 0.25, 0.9, 1e-300, 0.999]
INVALID_P = [0.0, 1.0, -0.1, 1.5, float("nan"), float("inf"), float("-inf"), -0.0, -1e-300, 1.0000000000000002]


class GensProp(props.BaseProp):
    id = "C16"
    run_module = "Run.RunGens"
    harness_mode = "gens"
    profiles = ["debug", "release"]
    quick_n, thorough_n = 700, 6000
    shards = 12
    diff_kind = "counterexample"
    trusted_extra = [
        "gap stream: the harness recomputes k_i = (ln(1-u_i)/ln_1p(-p)) as i64 with the lock-file rand 0.8.5 / "
        "rand_chacha 0.3.1 (ChaCha20Rng::seed_from_u64, gen::<f64>()); ChaCha20, f64 ln/ln_1p are not modelled",
        "tools/gen_karate.py (tokenizer-level extraction of the adjacency literal of social.rs)",
        "distributional claim of G(n,p) skipping (Batagelj-Brandes 2005) cited and sampled, not proved",
    ]
    rule = ("complete_graph: every n in 0..12 x both directions through the full twelve-field creation model, plus "
            "random n up to 300 at edge-vector level; karate_club_graph once; fast_gnp_random_graph(n,p,directed,"
            "Some(seed)): n in 0..=300 (45% n<=12, 35% n<=60, rest up to 300), p log-uniform in (1e-17,1) and "
            "1-10^-x plus the special values 1e-17, 1e-9, 0.5, 1-1e-9, 5e-324, 1-2^-53, 8% invalid p (0, 1, -0.1, "
            "1.5, NaN, +-inf, -0.0), both directions, seeds from the run seed; the REAL gap stream of each seed is "
            "recomputed by the harness and fed to the Coq model, edge lists are compared exactly, debug and release "
            "builds; seed=None cases and statistics cases (>=200 seeds per (n,p,directed): mean edge count within "
            "p*N*(1 +- 1/(n-1)) +- 5 sigma, every pair occurs for n<=8) are checked by the oracle only. "
            "non-trivial = the generated graph has at least one edge (or an invalid p is rejected); distinct = "
            "distinct case text")

    # ------------------------------------------------------------------ generation
    def gen(self, seed, n):
        r = gv.SplitMix(seed * 7919 + 16)
        cases = []

        def add(c):
            c["id"] = "g%d" % len(cases)
            cases.append(c)

        add({"kind": "karate"})
        for nn in range(0, FULL_MAX_N + 1):
            for d in (False, True):
                add({"kind": "complete", "n": nn, "dir": d, "full": True})
        for _ in range(max(6, n // 60)):
            add({"kind": "complete", "n": 13 + r.below(288), "dir": r.chance(1, 2), "full": False})
        add({"kind": "complete", "n": 300, "dir": r.chance(1, 2), "full": False})

        # statistics: (n, p, directed) x >= 200 seeds
        count = 200 if n <= 1000 else 400
        stat_cfg = [(2, 0.5), (3, 0.3), (4, 0.5), (5, 0.25), (8, 0.2), (6, 0.9), (20, 0.1), (50, 0.5), (35, 0.9),
                    (100, 0.03), (300, 0.002)]
        for (nn, p) in stat_cfg:
            for d in (False, True):
                add({"kind": "stat", "n": nn, "p": bits(p), "dir": d, "seed0": r.below(1 << 40), "count": count,
                     "pairs": nn <= 8})
        for _ in range(6):
            add({"kind": "gnpnone", "n": r.below(40), "p": bits(r.pick([0.1, 0.5, 0.9, 1e-17])), "dir": r.chance(1, 2)})

        # one dense large graph per direction (the 300-node corner of the quantifier)
        add({"kind": "gnp", "n": 300, "p": bits(0.5), "dir": True, "seed": r.below(1 << 63), "full": False})
        add({"kind": "gnp", "n": 300, "p": bits(0.5), "dir": False, "seed": r.below(1 << 63), "full": False})

        while len(cases) < n:
            z = r.below(100)
            if z < 45:
                nn = r.below(FULL_MAX_N + 1)
            elif z < 80:
                nn = 13 + r.below(48)
            else:
                nn = 61 + r.below(240)
            y = r.below(100)
            if y < 8:
                p = r.pick(INVALID_P)
            elif y < 30:
                p = r.pick(SPECIAL_P)
            elif y < 48:
                p = 10.0 ** (-(r.below(1700) / 100.0))
            elif y < 62:
                p = 1.0 - 10.0 ** (-(r.below(1600) / 100.0))
            elif y < 80:
                p = (1 + r.below(998)) / 1000.0
            else:
                # sparse regime: expected number of edges between ~0.5 and ~50
                slots = max(1, nn * nn)
                p = min(0.99, (0.5 + r.below(5000) / 100.0) / slots)
            if p_valid(p) and nn > 60:
                # keep the in-Coq evaluation small: expected number of edges <= ~4000
                cap = 4000.0 / (nn * nn)
                if p > cap:
                    p = cap * (0.2 + 0.8 * r.below(1000) / 1000.0)
            add({"kind": "gnp", "n": nn, "p": bits(p), "dir": r.chance(1, 2),
                 "seed": r.pick([0, 1, 2, 42, (1 << 64) - 1]) if r.chance(1, 10) else r.below(1 << 64),
                 "full": nn <= FULL_MAX_N})
        return cases

    # ------------------------------------------------------------------ serialisers
    def to_harness(self, c):
        k = c["kind"]
        if k == "karate":
            body = "karate"
        elif k == "complete":
            body = "complete %d %d" % (c["n"], int(c["dir"]))
        elif k == "gnp":
            body = "gnp %d %s %d %d" % (c["n"], c["p"], int(c["dir"]), c["seed"])
        elif k == "gnpnone":
            body = "gnpnone %d %s %d" % (c["n"], c["p"], int(c["dir"]))
        else:
            body = "stat %d %s %d %d %d %d" % (c["n"], c["p"], int(c["dir"]), c["seed0"], c["count"], int(c["pairs"]))
        return "case %s\n%s\nend" % (c["id"], body)

    def to_coq(self, c):
        k = c["kind"]
        if k == "karate":
            return "GKarate"
        if k == "complete":
            return "GComplete %s (%d) %s" % (coq_bool(c["full"]), c["n"], coq_bool(c["dir"]))
        gl = ["(%d)" % g if g < 0 else "%d" % g for g in c.get("gaps", [])]
        # long list literals overflow coqc's stack: chunks of 500 appended
        chunks = ["[" + ";".join(gl[i:i + 500]) + "]" for i in range(0, len(gl), 500)] or ["[]"]
        gaps = chunks[0] if len(chunks) == 1 else "(" + " ++ ".join(chunks) + ")"
        return "GGnp %s (%d) %s %s %s" % (coq_bool(c["full"]), c["n"], coq_f64(unbits(c["p"])), coq_bool(c["dir"]), gaps)

    def case_json(self, c):
        return {k: v for k, v in c.items() if k != "gaps"}

    def case_from_json(self, j):
        c = dict(j)
        c.pop("gaps", None)
        c.setdefault("id", "replay")
        return c

    def describe(self, c):
        k = c["kind"]
        if k in ("gnp", "gnpnone", "stat"):
            return self.to_harness(c) + "   (p = %r)" % unbits(c["p"])
        return self.to_harness(c)

    # ------------------------------------------------------------------ running
    def run_impl(self, cases, wd, tag, release=False):
        impl, errs = super().run_impl(cases, wd, tag, release=release)
        if not release:
            for c in cases:
                if c["kind"] == "gnp":
                    c["gaps"] = []
                    for ob in impl.get(c["id"], []):
                        if ob[0] == 40 and ob[1]:
                            c["gaps"] = list(ob[1][0])
        return impl, errs

    def run_cases(self, cases, wd, tag="gen", build=True):
        corr = [c for c in cases if c["kind"] in ("karate", "complete", "gnp")]
        rest = [c for c in cases if c["kind"] not in ("karate", "complete", "gnp")]
        res = super().run_cases(corr, wd, tag=tag, build=build)
        if rest and not any("does not build" in e for e in res["corr_errors"]):
            for rel in (False, True):
                impl, errs = props.BaseProp.run_impl(self, rest, wd, tag + ("_stat_rel" if rel else "_stat"), release=rel)
                res["corr_errors"] += errs
                for c in rest:
                    if c["id"] not in impl:
                        res["corr_errors"].append("implementation produced no output for %s (%s build)"
                                                  % (c["id"], "release" if rel else "debug"))
                        continue
                    for msg in self.oracle(c, impl[c["id"]]):
                        res["failing"].append((c, "property oracle (%s build): %s" % ("release" if rel else "debug", msg),
                                               "counterexample"))
                if not rel:
                    res["impl"].update(impl)
        return res

    # ------------------------------------------------------------------ the property, on the implementation
    def oracle(self, c, obs):
        k = c["kind"]
        by = {}
        for ob in obs:
            by.setdefault(ob[0], ob)
        code = by[1][1][0][0] if 1 in by else None
        msgs = []
        if k == "karate":
            if code != 0:
                return ["karate_club_graph() failed (code %s)" % code]
            if by[1][1][0][1:] != [0, 0]:
                msgs.append("karate_club_graph() is not an undirected single-edge graph")
            nodes = [r[0] for r in by[2][1]]
            edges = [tuple(r) for r in by[3][1]]
            if nodes != list(range(34)):
                msgs.append("karate_club_graph(): nodes are %s, not 0..33" % nodes)
            if edges != KARATE_REF:
                msgs.append("karate_club_graph(): %d edges, differs from the 78-edge Zachary reference: "
                            "missing %s extra %s" % (len(edges), sorted(set(KARATE_REF) - set(edges))[:5],
                                                     sorted(set(edges) - set(KARATE_REF))[:5]))
            return msgs
        n = c["n"]
        if k == "complete":
            if code != 0:
                return ["complete_graph(%d,%s) panicked" % (n, c["dir"])]
            nodes = [r[0] for r in by[2][1]]
            edges = [tuple(r) for r in by[3][1]]
            if nodes != list(range(n)):
                msgs.append("complete_graph(%d,%s): nodes %s are not exactly 0..n-1" % (n, c["dir"], nodes[:8]))
            want = [(i, j) for i in range(n) for j in range(n) if (i != j if c["dir"] else i < j)]
            if 5004 in by and by[5004][1][0] != [int(bool(c["dir"])), 0]:
                msgs.append("complete_graph(%d,%s) returns a graph of kind directed=%d multi_edges=%d"
                            % (n, c["dir"], by[5004][1][0][0], by[5004][1][0][1]))
            if edges != want:
                msgs.append("complete_graph(%d,%s): %d edges, expected one per %s pair (%d); missing %s extra %s"
                            % (n, c["dir"], len(edges), "ordered" if c["dir"] else "unordered", len(want),
                               sorted(set(want) - set(edges))[:4], sorted(set(edges) - set(want))[:4]))
            return msgs
        p = unbits(c["p"])
        if k in ("gnp", "gnpnone"):
            what = "fast_gnp_random_graph(%d, %r, %s, %s)" % (n, p, c["dir"], c.get("seed"))
            if not p_valid(p):
                if code != 3:
                    msgs.append("%s: p outside (0,1) must be rejected with InvalidArgument, got code %s" % (what, code))
                return msgs
            if code != 0:
                return ["%s: must succeed for 0 < p < 1, got %s" % (what, "a panic" if code == 100 else "code %s" % code)]
            if 40 in by and by[40][1] and any(g < 0 for g in by[40][1][0]):
                # hypothesis of the theorems (non-negative gaps), checked on the real stream of the seed
                msgs.append("%s: the computed skip (ln(1-u)/ln(1-p)) as i64 is negative: %s"
                            % (what, [g for g in by[40][1][0] if g < 0][:3]))
            nodes = [r[0] for r in by[2][1]]
            edges = [tuple(r) for r in by[3][1]]
            if nodes != list(range(max(n, 0))):
                msgs.append("%s: nodes are not exactly 0..n-1: %s" % (what, nodes[:8]))
            for (a, b) in edges:
                if a == b:
                    msgs.append("%s: self-loop (%d,%d)" % (what, a, b))
                    break
                if not (0 <= a < n and 0 <= b < n):
                    msgs.append("%s: edge (%d,%d) leaves 0..n-1" % (what, a, b))
                    break
            if len(set(edges)) != len(edges):
                msgs.append("%s: repeated pair" % what)
            if 5004 in by and by[5004][1][0] != [int(bool(c["dir"])), 0]:
                msgs.append("%s returns a graph of kind directed=%d multi_edges=%d"
                            % (what, by[5004][1][0][0], by[5004][1][0][1]))
            if k == "gnpnone" and 5005 in by and by[5005][1][0][0] == 1:
                npairs = n * (n - 1) if c["dir"] else n * (n - 1) // 2
                if npairs > 0 and (p * p + (1 - p) * (1 - p)) ** npairs < 1e-12:
                    msgs.append("%s: two UNSEEDED calls returned the same %d edges (probability below 1e-12 for a "
                                "fresh draw)" % (what, by[5005][1][0][1]))
            return msgs
        # statistics
        what = "fast_gnp_random_graph(%d, %r, %s, seeds %d..+%d)" % (n, p, c["dir"], c["seed0"], c["count"])
        counts = by[30][1][0] if by[30][1] else []
        bad = by[32][1]
        if bad:
            msgs.append("%s: seed %d fails structurally (code %d: 1 = wrong nodes/self-loop/repeat/out of range)"
                        % (what, bad[0][0], bad[0][1]))
            return msgs
        N = n * n - n if c["dir"] else n * (n - 1) // 2
        mean = sum(counts) / float(len(counts))
        sigma = math.sqrt(N * p * (1 - p) / len(counts))
        slack = 1.0 / (n - 1) if n > 1 else 1.0
        lo, hi = p * N * (1 - slack) - 5 * sigma, p * N * (1 + slack) + 5 * sigma
        if not (lo <= mean <= hi):
            msgs.append("%s: mean number of edges %.2f over %d seeds is outside [%.2f, %.2f] = p*N*(1 +- 1/(n-1)) "
                        "+- 5 sigma with N = %d possible pairs" % (what, mean, len(counts), lo, hi, N))
        if c["pairs"]:
            seen = set((r[0], r[1]) for r in by[31][1])
            want = set((i, j) for i in range(n) for j in range(n) if (i != j if c["dir"] else i > j))
            if want - seen:
                msgs.append("%s: the possible pairs %s never occur in %d seeds" % (what, sorted(want - seen)[:6], len(counts)))
        return msgs

    def nontrivial(self, c, obs):
        for ob in obs:
            if ob[0] == 3 and ob[1]:
                return True
            if ob[0] == 1 and ob[1][0][0] == 3:
                return True
            if ob[0] == 30:
                return True
        return False

    def stats_key(self, c, obs):
        k = c["kind"]
        ks = ["kind_" + k]
        if k in ("gnp", "complete"):
            n = c["n"]
            ks.append("n_" + ("0" if n == 0 else "1" if n == 1 else "2" if n == 2 else "3-12" if n <= 12 else
                              "13-60" if n <= 60 else "61-300"))
            ks.append("directed" if c["dir"] else "undirected")
        if k == "gnp":
            p = unbits(c["p"])
            if not p_valid(p):
                ks.append("p_invalid")
            else:
                ks.append("p_1e%d" % max(-20, int(math.floor(math.log10(p)))) if p < 0.1 else
                          ("p_0.1-0.9" if p <= 0.9 else "p_>0.9"))
            for ob in obs:
                if ob[0] == 3:
                    e = len(ob[1])
                    ks.append("edges_" + ("0" if e == 0 else "1-9" if e < 10 else "10-99" if e < 100 else
                                          "100-999" if e < 1000 else ">=1000"))
                if ob[0] == 1:
                    ks.append("outcome_%d" % ob[1][0][0])
        return ks

    def shrink_candidates(self, c):
        out = []
        if c["kind"] in ("gnp", "complete", "gnpnone"):
            n = c["n"]
            for m in sorted(set([n // 2, n - 1, 2, 1, 0])):
                if 0 <= m < n:
                    d = {k: v for k, v in c.items() if k != "gaps"}
                    d["n"] = m
                    if "full" in d:
                        d["full"] = m <= FULL_MAX_N
                    out.append(d)
        if c["kind"] == "gnp":
            for s in (0, 1):
                if c["seed"] != s:
                    d = {k: v for k, v in c.items() if k != "gaps"}
                    d["seed"] = s
                    out.append(d)
        return out


C16 = props.register(GensProp())
C16.manifest = {
    "text": "Unbounded Coq theorems about faithful transcriptions of the three generators over the twelve-field "
            "graph state (after the fix commits for F9, F10, F11 and the NaN acceptance F20). complete_graph(n,d), "
            "every n: exactly the nodes 0..n-1 once each, exactly one edge per ordered / unordered pair of distinct "
            "nodes, n(n-1) resp. n(n-1)/2 edges (C16_complete). fast_gnp_random_graph, for EVERY stream of "
            "non-negative gaps, every 0 <= n <= i32::MAX, every 0 < p < 1 and both directions: success, nodes exactly "
            "0..n-1, no self-loop, no repeated pair in either orientation (C16_gnp_structural); the emitted pairs "
            "are exactly slot(t_1), slot(t_2), ... of the published Batagelj-Brandes walk t_j = b(t_(j-1)+1+k_j) cut "
            "off at N - triangle index v(v-1)/2+w undirected, n x n grid with the diagonal bump directed "
            "(C16_gnp_slots); every admissible pair is emitted by some gap stream (C16_gnp_every_pair_possible, "
            "constructive); no gap stream makes a checked i64 operation overflow (C16_gnp_no_panic); p outside (0,1) "
            "incl. NaN and infinities gives InvalidArgument (C16_rejects_p). karate_club_graph: the adjacency literal "
            "is re-extracted from social.rs on every run and re-proved by vm_compute to be 34x34, 0/1, symmetric, "
            "zero-diagonal, 78 edges, equal to the NetworkX Zachary edge list, and the modelled constructor returns "
            "exactly that graph (C16_karate_is_zachary, C16_karate_graph). LINK TO THE GRAPH-STRUCTURE CORE "
            "(Proofs/GensWF.v): every graph state returned by complete_graph (every n, both directions), by "
            "fast_gnp_random_graph (EVERY n, p, gap stream) and by karate_club_graph (ANY adjacency literal) is a state "
            "of a mutation history from the empty graph, hence satisfies the coherence invariant WF of all twelve "
            "Graph fields (name type Z with Z.eqb / Z.ltb, whose order hypotheses are theorems) and carries the "
            "GraphSpecs the generator names (C16_generators_wf); the generators do return such graphs "
            "(C16_generators_wf_total), so every theorem of C01 / C02 / C09 / C15 stated for WF graphs applies to "
            "generator output - instantiated once as the handshake identity on complete_graph "
            "(C16_complete_graph_handshake). Correspondence: the harness recomputes "
            "the real gap stream of each seed and the model must reproduce the implementation's node list and edge "
            "list exactly (debug and release builds).",
    "note": "partial: distributional claim cited (Batagelj-Brandes 2005) and sampled, not proved - the oracle checks on "
            "the implementation that the mean edge count over >= 200 seeds per (n,p,directed) lies within "
            "p*N*(1 +- 1/(n-1)) +- 5 sigma and that every possible pair occurs for n <= 8; no probability theory is "
            "formalised. The theorems take non-negative gaps as a hypothesis; that the computed gap "
            "(ln(1-u)/ln_1p(-p)) as i64 is non-negative and that equal seeds give equal streams is binary64 / ChaCha20 "
            "territory: not modelled, checked per case (the real stream is printed by the harness and fed to the "
            "model). For n > 12 the correspondence evaluates the edge-tuple vector of the model (gnp_pairs / "
            "complete_pairs) instead of building the twelve-field state inside Coq; the theorems (GensCreationOk) "
            "prove the graph built from that vector has exactly those nodes and edges. Trusted: Coq kernel + "
            "vm_compute, harness/printers/diff, tools/gen_karate.py (tokenizer-level extractor), itertools "
            "combinations/permutations modelled as lexicographic enumerations. Axioms: none (Closed under the global "
            "context) for all 11 pinned theorems.",
    "technique": "Coq proof (induction over the gap stream / list comprehensions / creation invariant, vm_compute on "
                 "extracted data) + differential correspondence vs vm_compute model fed with the real gap stream + "
                 "statistical oracle on the implementation",
}
