"""C14 (GraphML write-then-read is lossless) and C19 (the GraphML reader never panics).

Two-stage flow: the harness runs first; the quick-xml events it prints for each document
(observation kind 70) are the INPUT of the Coq model (the tokenizer is not modelled), and the
f64 print / parse results attached to the Text events are the weight oracles of the model."""
import struct

import gv
import hist
import props

ALLOWED_READ_CODES = {0, 10, 2, 4, 11}   # Ok, ReadError, and the constructor's DuplicateEdge / NodeNotFound / SelfLoopsFound


def hx(b):
    return "x" + bytes(b).hex()


def coq_b(b):
    return "(B [%s])" % ";".join(str(x) for x in b)


def f2bits(x):
    return struct.unpack(">Q", struct.pack(">d", x))[0]


def bits2tok(b):
    mag = b & 0x7FFFFFFFFFFFFFFF
    return -mag - 1 if b >> 63 else mag


def tok2bits(t):
    return t if t >= 0 else (1 << 63) | (-t - 1)


def is_nan_bits(b):
    return (b >> 52) & 0x7FF == 0x7FF and (b & 0xFFFFFFFFFFFFF) != 0


# ------------------------------------------------------------------------------------------
# decoding the harness' event rows
# ------------------------------------------------------------------------------------------

def dec_events(rows):
    """rows of observation 70 -> list of events
    ('S'|'E', name, [attr]) attr = None | (key, raw);  ('end', name); ('text', raw, pcode, tok); 'other'|'eof'|'err'|'bad'"""
    out = []
    for r in rows:
        t = r[0]
        if t in (1, 2):
            n = r[1]
            name = r[2:2 + n]
            i = 2 + n
            na = r[i]
            i += 1
            attrs = []
            for _ in range(na):
                if r[i] == 0:
                    attrs.append(None)
                    i += 1
                else:
                    kl = r[i + 1]
                    k = r[i + 2:i + 2 + kl]
                    i += 2 + kl
                    vl = r[i]
                    v = r[i + 1:i + 1 + vl]
                    i += 1 + vl
                    attrs.append((k, v))
            out.append(("S" if t == 1 else "E", name, attrs))
        elif t == 3:
            out.append(("end", r[2:2 + r[1]]))
        elif t == 4:
            n = r[1]
            out.append(("text", r[2:2 + n], r[2 + n], r[3 + n]))
        elif t == 5:
            out.append("other")
        elif t == 6:
            out.append("eof")
        elif t == 7:
            out.append("err")
        elif t == 8:
            out.append("comment")
        else:
            out.append("bad")
    return out


def coq_event(e):
    if e == "other":
        return "EvOther"
    if e == "eof":
        return "EvEof"
    if e == "err":
        return "EvErr"
    if e == "comment":
        return "EvComment"
    if e == "bad":
        return "EvOther"
    if e[0] in ("S", "E"):
        at = ";".join("AttrErr" if a is None else "AttrOk %s %s" % (coq_b(a[0]), coq_b(a[1])) for a in e[2])
        return "%s %s [%s]" % ("EvStart" if e[0] == "S" else "EvEmpty", coq_b(e[1]), at)
    if e[0] == "end":
        return "EvEnd %s" % coq_b(e[1])
    if e[0] == "text":
        return "EvText %s" % coq_b(e[1])
    raise ValueError(e)


def coq_pw(pcode, tok):
    return ["None", "(Some None)", "(Some (Some (%d)))" % tok][pcode]


def tables(events):
    """parse table (raw text -> parse result) and print table (token -> text) from the Text events"""
    pt, ft = {}, {}
    for e in events:
        if isinstance(e, tuple) and e[0] == "text":
            pt[tuple(e[1])] = (e[2], e[3])
            if e[2] == 2:
                ft.setdefault(e[3], tuple(e[1]))
    cpt = "[%s]" % ";".join("(%s, %s)" % (coq_b(k), coq_pw(*v)) for k, v in sorted(pt.items()))
    cft = "[%s]" % ";".join("(%d, %s)" % (k, coq_b(v)) for k, v in sorted(ft.items()))
    return cpt, cft


def obs_of(impl_obs, kind):
    for o in impl_obs or []:
        if o[0] == kind:
            return o
    return None


# ------------------------------------------------------------------------------------------
# generators
# ------------------------------------------------------------------------------------------

CODEC_PIECES = ["<", ">", "&", "'", '"', "&amp;", "&lt;", "&gt;", "&apos;", "&quot;", "&amp", "&lt", "&#65;",
                "&#x42;", "&#x1F600;", "&;", "&#;", "&#x;", "&#0;", "&#x0;", "&#xD800;", "&#xDFFF;", "&#xE000;",
                "&#x110000;", "&#x10FFFF;", "&#99999999999;", "&#4294967296;", "&#x100000000;", "&#+65;",
                "&#-1;", "&#X41;", "&#x4G;", "&#6a;", "&#x6A;", "&#x6a;", "&foo;", "&a&b;", "&a&amp;", ";", "a;b",
                ";&", "é", "日本", "😀", " ", "\t", "\n", "abc", "", "&#0065;", "&#xe9;", "&#233;", "&#x20AC;",
                "&#8364;", "&#65", "#", "x", "&AMP;", "&Lt;", "&nbsp;", "&#x7FF;", "&#x800;", "&#xFFFF;",
                "&#x10000;", "&#127;", "&#128;", "&#55295;", "&#57344;", "&# 65;", "&#65 ;", "&amp ;", "& amp;",
                "&#x00000041;", "&#00000000000000000065;", "&#xé;", "&é;"]

NAME_POOL = ["a", "b<", "c&d", 'e"f', "g'h", "i j", "é", "日本語", "", "&amp;", "😀x", "n1", '<node id="x"/>', "]]>",
             "a;b", "  ", "-->", "&#65;", "<", ">", "&", "'", '"', "A", "a ", " a", "ß", "z<z>z", "&lt;", "=",
             "/>", "<!--", "a&b;c", " ", "x'y\"z", "n2", "n3", "~", "0", "-1", "é<", "&;"]

W_POOL = [0.0, -0.0, 5e-324, -5e-324, 2.2250738585072014e-308, 2.225073858507201e-308, 1.7976931348623157e308,
          -1.7976931348623157e308, 1e308, -1e308, float("inf"), float("-inf"), 1.0, -1.0, 3.0, 0.1, 0.2,
          0.30000000000000004, 1.0 / 3.0, 1e21, 1e22, 1e-7, 123456789.125, 1.5, 2.5, 1e15, 1e16, 9007199254740993.0,
          4.9e-324, 1e-320, 6.02214076e23, 1.1, 5.0, 2.0, 9.0, 0.5, 1e-5, 123456.7]

SPECS_PERMISSIVE = (1, 1, 1, 0, 0, 0)


def all_specs():
    out = []
    for d in (0, 1):
        for m in (0, 1):
            for s in (0, 1):
                for dd in (0, 1, 2):
                    for ms in (0, 1):
                        for slf in (0, 1):
                            out.append((d, m, s, dd, ms, slf))
    return out


def gen_codec(r, i):
    k = r.below(6)
    s = ""
    for _ in range(k):
        if r.chance(3, 4):
            s += r.pick(CODEC_PIECES)
        else:
            s += chr(32 + r.below(95))
    return {"fam": "codec", "s": list(s.encode("utf-8"))}


def gen_weight_bits(r):
    if r.chance(1, 5):
        while True:
            b = r.next()
            if not is_nan_bits(b):
                return b
    return f2bits(r.pick(W_POOL))


def gen_graph(r, i, specs):
    sp = specs[i % len(specs)] if r.chance(2, 3) else r.pick(specs)
    d, m, s, dd, ms, slf = sp
    names = r.shuffle(NAME_POOL)[:2 + r.below(5)]
    nodes = [n for n in names if r.chance(5, 6)] if not r.chance(1, 10) else []
    if ms == 1 and r.chance(9, 10):
        nodes = list(names)
    ne = r.below(9)
    wmode = r.pick(["nan", "real", "real", "mixed"])
    edges, seen = [], set()
    for _ in range(ne):
        u, v = r.pick(names), r.pick(names)
        if r.chance(1, 6):
            v = u
        if edges and r.chance(1, 4):
            u, v = edges[r.below(len(edges))][:2]
            if r.chance(1, 2):
                u, v = v, u
        if u == v and not s and slf == 0 and r.chance(9, 10):
            continue
        key = (u, v) if d else tuple(sorted((u, v), key=lambda x: x.encode("utf-8")))
        if key in seen and not m and dd == 0 and r.chance(9, 10):
            continue
        seen.add(key)
        if wmode == "nan" or (wmode == "mixed" and r.chance(1, 3)):
            w = None
        else:
            w = gen_weight_bits(r)
        edges.append((u, v, w))
    return {"fam": "graph", "spec": list(sp), "nodes": [list(n.encode("utf-8")) for n in nodes],
            "edges": [[list(u.encode("utf-8")), list(v.encode("utf-8")), w] for u, v, w in edges]}


# ---- documents ---------------------------------------------------------------------------

def xesc(s, quote='"'):
    s = s.replace("&", "&amp;").replace("<", "&lt;")
    return s.replace('"', "&quot;") if quote == '"' else s.replace("'", "&apos;")


HDR = '<graphml xmlns="http://graphml.graphdrawing.org/xmlns">'

SEEDS = [
    '<graphml><key id="weight" for="edge" attr.name="weight" attr.type="double"/><graph edgedefault="undirected">'
    '<node id="a"/><node id="b&amp;"/><edge source="a" target="b&amp;"><data key="weight">1.5</data></edge>'
    '<edge source="a" target="a"></edge></graph></graphml>',
    '<?xml version="1.0"?>\n<graphml>\n <key id="d0" for="edge" attr.name="weight"/>\n <graph edgedefault=\'directed\'>\n'
    '  <node id="é"></node>\n  <node id="n2"/>\n  <edge source="é" target="n2">\n   <data key="d0">-0.1</data>\n  </edge>\n'
    '  <!-- c -->\n </graph>\n</graphml>\n',
    '<graphml><graph edgedefault="directed"><node id="x"/><edge source="x" target="y"><data key="weight">inf</data>'
    '</edge><edge target="x" source="&#65;"/></graph></graphml>',
    '<graphml><key attr.name="weight" for="edge" id="w"/><key id="c" for="node" attr.name="color"/>'
    '<graph id="G" edgedefault="undirected"><node id="1"><data key="c">red</data></node><node id="2"/>'
    '<edge id="e" source="1" target="2"><data key="w">2</data><data key="x">7</data></edge></graph></graphml>',
]
FLIP_CHARS = list(b"<>&\"'/=; !-?[]#xa0\n")


def corruptions(seed_doc, r, every_flip=False):
    """every deletion, duplication, truncation and one (or every listed) byte replacement, at every byte"""
    b = seed_doc.encode("utf-8")
    out = []
    for i in range(len(b) + 1):
        out.append(("trunc", b[:i]))
    for i in range(len(b)):
        out.append(("del", b[:i] + b[i + 1:]))
        out.append(("dup", b[:i] + b[i:i + 1] + b[i:]))
        reps = FLIP_CHARS if every_flip else [r.pick(FLIP_CHARS), b[i] ^ (1 << r.below(7))]
        for c in reps:
            if c != b[i]:
                out.append(("flip", b[:i] + bytes([c]) + b[i + 1:]))
    res = []
    for k, d in out:
        try:
            d.decode("utf-8")
        except UnicodeDecodeError:
            continue
        res.append((k, d))
    return res


WTEXT = ["1.5", "0.1", "-2", "1e3", "inf", "-inf", "NaN", "0", "-0", "3", "2.5e-3", "1E5", "123456789", "0.30000000000000004",
         "1e308", "5e-324", "+7", ".5", "5."]


def gen_wellformed(r, i, specs):
    """a document rendered from an abstract graph, with the syntactic freedom XML allows; the expected content is
    recorded and checked by the oracle (under permissive specs)"""
    sp = SPECS_PERMISSIVE if r.chance(1, 2) else r.pick(specs)
    directed = r.chance(1, 2)
    names = r.shuffle(NAME_POOL)[:1 + r.below(5)]
    if r.chance(1, 25):
        names = []          # a <graph> without node or edge elements: the result still has the declared directedness
    wkey = r.pick(["weight", "weight", "d0", "w&"])
    nl = r.pick(["", "", "\n", "\n  "])
    q = r.pick(['"', '"', "'"])

    def at(k, v):
        return "%s%s%s%s%s%s" % (k, r.pick(["", "", " "]) + "=" + r.pick(["", "", " "]), q, xesc(v, q), q, "")

    parts = []
    if r.chance(1, 3):
        parts.append('<?xml version="1.0" encoding="UTF-8"?>' + nl)
    parts.append(r.pick(["<graphml>", HDR]) + nl)
    if wkey != "weight" or r.chance(2, 3):
        ka = [at("id", wkey), at("for", "edge"), at("attr.name", "weight"), at("attr.type", "double")]
        parts.append("<key %s/>" % " ".join(r.shuffle(ka)) + nl)
    if r.chance(1, 4):
        parts.append('<key id="c" for="node" attr.name="color"/>' + nl)
    # optional GraphML parse hints (counts supplied by the document: never to be trusted)
    hints = []
    if r.chance(1, 6):
        hints = [at(r.pick(["parse.nodes", "parse.edges", "parse.order", "parse.maxindegree"]),
                    r.pick(["3", "0", "18446744073709551615", "2305843009213693952", "-1", "many", "nodesfirst"]))]
    parts.append("<graph %s>" % " ".join(r.shuffle([at("edgedefault", "directed" if directed else "undirected")] +
                                                   ([at("id", "G")] if r.chance(1, 3) else []) + hints)) + nl)
    exp_nodes, exp_edges = [], []
    items = [("n", n) for n in names]
    for _ in range(r.below(6) if names else 0):
        items.append(("e", r.pick(names), r.pick(names)))
    split_at = r.below(len(items) + 1) if (items and r.chance(1, 15)) else -1
    # nodes first mostly (so that every endpoint is declared before use), sometimes interleaved
    if r.chance(1, 4):
        items = r.shuffle(items)
    for pos, it in enumerate(items):
        if pos == split_at:
            # the document goes on after a closing </graph>: a second sibling <graph> with the same edgedefault
            parts.append("</graph>" + nl + "<graph %s>" % at("edgedefault", "directed" if directed else "undirected") + nl)
        if it[0] == "n":
            exp_nodes.append(it[1])
            form = r.below(3)
            if form == 0:
                parts.append("<node %s/>" % at("id", it[1]) + nl)
            elif form == 1:
                parts.append("<node %s></node>" % at("id", it[1]) + nl)
            else:
                parts.append("<node %s>%s<data key=\"c\">red</data>%s</node>" % (at("id", it[1]), nl, nl) + nl)
        else:
            u, v = it[1], it[2]
            ats = r.shuffle([at("source", u), at("target", v)] + ([at("id", "e%d" % len(exp_edges))] if r.chance(1, 3) else []))
            if r.chance(1, 3):
                parts.append("<edge %s/>" % " ".join(ats) + nl)
                exp_edges.append((u, v, None))
            elif r.chance(1, 4):
                parts.append("<edge %s>%s</edge>" % (" ".join(ats), nl) + nl)
                exp_edges.append((u, v, None))
            else:
                wt = r.pick(WTEXT)
                extra = '<data key="zz">5</data>' if r.chance(1, 5) else ""
                cm = "<!-- w -->" if r.chance(1, 8) else ""
                # another child with its own end tag BEFORE the weight <data> (a second attribute, a description)
                pre = r.pick(['<data key="zz">5</data>', "<desc>x</desc>", '<data key="c">red</data>' + nl]) if r.chance(1, 5) else ""
                parts.append("<edge %s>%s%s<data %s>%s%s</data>%s%s</edge>" % (" ".join(ats), nl, pre, at("key", wkey), cm, wt, extra, nl) + nl)
                # a weight <data> directly after the start tag only when no whitespace text precedes it
                exp_edges.append((u, v, wt))
        if r.chance(1, 10):
            parts.append("<!-- note -->" + nl)
        if r.chance(1, 12):
            # a vendor-extension element whose LOCAL name collides with a GraphML element: it is not a GraphML
            # element (the qualified name differs), so the expected content does not change
            parts.append(r.pick(['<x:node id="ghost"/>', '<x:node/>', '<x:edge source="ghost" target="ghost2"/>',
                                 '<x:node id="ghost"></x:node>', '<x:key id="weight" for="node"/>']) + nl)
    parts.append("</graph>" + nl + "</graphml>" + nl)
    doc = "".join(parts)
    expect = {"directed": 1 if directed else 0, "nodes": [list(n.encode("utf-8")) for n in exp_nodes],
              "edges": [[list(u.encode("utf-8")), list(v.encode("utf-8")), w] for u, v, w in exp_edges]}
    return {"fam": "doc", "sub": "wellformed", "spec": list(sp), "doc": list(doc.encode("utf-8")), "expect": expect}


G_ELEMS = ["graphml", "graph", "node", "edge", "key", "data", "foo", "g:node", "Node", "desc", "default"]
G_ATTRS = ['id="a"', 'id="b"', "id='c'", 'id=""', 'id="a&lt;"', 'id="&foo;"', 'id="&#65;"', 'id="&#x110000;"', 'id="&"',
           "id=a", "id", 'source="a"', 'target="b"', 'source="b"', 'target="a"', 'target="zz"', 'source="&bad;"',
           'edgedefault="directed"', 'edgedefault="undirected"', 'edgedefault="mixed"', 'edgedefault=""',
           'key="weight"', 'key="d0"', 'key="&x;"', 'key=weight', 'for="edge"', 'for="node"', 'for="all"',
           'attr.name="weight"', 'attr.name="w"', 'attr.type="double"', 'id="d0"', 'id="weight"',
           'x:id="p"', 'y:source="a"', 'xmlns="u"', 'a="1" a="2"', 'b = "2"', "c='<'", 'd=">"', 'e="é"']
G_TEXT = ["1.5", " 2 ", "abc", "1&#46;5", "&amp;", "\n  ", "-inf", "NaN", "1e999", "0x10", "", "1,5", "٣", "1.5\n", "+.e1", "infinity"]
G_MISC = ["<!-- c -->", "<?pi x?>", "<![CDATA[1.5]]>", "<!DOCTYPE graphml>", "<?xml version='1.0'?>", "<![CDATA[", "<!--",
          "]]>", "&", "<", ">", "</>", "< node/>", "<node/ >", "﻿"]


def gen_grammar(r, i, specs):
    sp = r.pick(specs) if r.chance(1, 2) else SPECS_PERMISSIVE
    parts, stack = [], []
    if r.chance(3, 4):
        parts.append("<graphml>")
        stack.append("graphml")
        if r.chance(2, 3):
            parts.append('<key id="%s" for="edge" attr.name="weight"/>' % r.pick(["weight", "d0"]))
        if r.chance(3, 4):
            parts.append('<graph edgedefault="%s">' % r.pick(["directed", "undirected"]))
            stack.append("graph")
    for _ in range(1 + r.below(10)):
        k = r.below(100)
        if k < 45:
            el = r.pick(G_ELEMS) if r.chance(1, 3) else r.pick(["node", "edge", "data", "key"])
            ats = " ".join(r.pick(G_ATTRS) for _ in range(r.below(4)))
            if el == "node" and r.chance(1, 2):
                ats = r.pick(['id="a"', 'id="b"', 'id="c"']) + (" " + ats if r.chance(1, 4) else "")
            if el == "edge" and r.chance(1, 2):
                ats = 'source="%s" target="%s"' % (r.pick("abc"), r.pick("abc")) + (" " + ats if r.chance(1, 4) else "")
            if el == "data" and r.chance(1, 2):
                ats = 'key="%s"' % r.pick(["weight", "d0", "c"])
            sep = " " if ats else ""
            if r.chance(1, 2):
                parts.append("<%s%s%s/>" % (el, sep, ats))
            else:
                parts.append("<%s%s%s>" % (el, sep, ats))
                stack.append(el)
        elif k < 65:
            parts.append(r.pick(G_TEXT))
        elif k < 85:
            if stack and r.chance(5, 6):
                parts.append("</%s>" % stack.pop())
            else:
                parts.append("</%s>" % r.pick(G_ELEMS))
        else:
            parts.append(r.pick(G_MISC))
    if r.chance(3, 4):
        while stack:
            parts.append("</%s>" % stack.pop())
    doc = "".join(parts)
    return {"fam": "doc", "sub": "grammar", "spec": list(sp), "doc": list(doc.encode("utf-8"))}


# ------------------------------------------------------------------------------------------

class GraphMLProp(props.BaseProp):
    run_module = "Model.XmlEscape Model.GraphML Run.RunGraphML"
    harness_mode = "graphml"
    shards = 12
    # a model/implementation difference means the proved model no longer describes the code (the property is
    # then no longer shown to hold); an input on which the property itself fails is reported by the oracle
    diff_kind = "model-mismatch"

    def __init__(self, pid, quick_n, thorough_n, rule):
        self.id = pid
        self.quick_n, self.thorough_n, self.rule = quick_n, thorough_n, rule

    # ---- generation
    def gen(self, seed, n):
        r = gv.SplitMix(seed * 7919 + (14 if self.id == "C14" else 19))
        specs = all_specs()
        cases = []
        if self.id == "C14":
            ncodec, ngraph = (n * 3) // 4, n // 4
            cases.append({"fam": "f64", "n": 40000 if n < 10000 else 2000000, "seed": seed})
            for p in CODEC_PIECES:
                cases.append({"fam": "codec", "s": list(p.encode("utf-8"))})
            for i in range(ncodec):
                cases.append(gen_codec(r, i))
            for i in range(ngraph):
                cases.append(gen_graph(r, i, specs))
            # documents far larger than any I/O buffer (8 KiB, 64 KiB): rings of 150-1500 nodes with chords, names from
            # the pool + a counter, every kind of weight; decided by the round-trip oracle alone (evaluating the
            # model on thousands of elements inside Coq is slow)
            r2 = gv.SplitMix(seed * 104729 + 14)
            for k in range(4 if n < 10000 else 12):
                nn = r2.pick([150, 400, 1500]) if k else 400
                # every second one with multi-byte names only: any fixed block size a reader could use (4 KiB, 8 KiB)
                # then falls inside a character many times over
                pool = NAME_POOL if k % 2 == 0 else ["日本語", "é", "😀x", "ß", "é<", "日本語😀", "ßé"]
                nm = ["%s%d" % (r2.pick(pool), j) for j in range(nn)]
                d = r2.below(2)
                es = [(nm[j], nm[(j + 1) % nn], None if r2.chance(1, 5) else gen_weight_bits(r2)) for j in range(nn)]
                es += [(nm[r2.below(nn)], nm[r2.below(nn)], gen_weight_bits(r2)) for _ in range(nn // 3)]
                cases.append({"fam": "graph", "spec": [d, 1, 1, 2, 0, 1], "nomodel": True,
                              "nodes": [list(x.encode("utf-8")) for x in nm],
                              "edges": [[list(u.encode("utf-8")), list(v.encode("utf-8")), w] for u, v, w in es]})
        else:
            thorough = n >= 10000
            nseed = len(SEEDS) if thorough else 3
            ncorr = 0
            for si in range(nseed):
                for k, d in corruptions(SEEDS[si], r, every_flip=thorough):
                    sp = SPECS_PERMISSIVE if r.chance(2, 3) else r.pick(specs)
                    cases.append({"fam": "doc", "sub": k, "spec": list(sp), "doc": list(d)})
                    ncorr += 1
            for s in SEEDS:
                cases.append({"fam": "doc", "sub": "seed", "spec": list(SPECS_PERMISSIVE), "doc": list(s.encode("utf-8"))})
            rest = max(200, n - ncorr)
            for i in range(rest // 3):
                cases.append(gen_wellformed(r, i, specs))
            for i in range(rest - rest // 3):
                cases.append(gen_grammar(r, i, specs))
        for i, c in enumerate(cases):
            c["id"] = "g%d" % i
        return cases

    # ---- serialisation
    def to_harness(self, c):
        L = ["case %s" % c["id"], "k %s" % c["fam"]]
        f = c["fam"]
        if f == "codec":
            L.append("s " + hx(c["s"]))
        elif f == "f64":
            L.append("n %d %d" % (c["n"], c["seed"]))
        elif f == "graph":
            L.append("spec %d %d %d %d %d %d" % tuple(c["spec"]))
            for n in c["nodes"]:
                L.append("node " + hx(n))
            for u, v, w in c["edges"]:
                L.append("edge %s %s %s" % (hx(u), hx(v), "nan" if w is None else "%016x" % w))
        elif f == "doc":
            L.append("spec %d %d %d %d %d %d" % tuple(c["spec"]))
            L.append("doc " + hx(c["doc"]))
        L.append("end")
        return "\n".join(L)

    def describe(self, c):
        f = c["fam"]
        if f == "doc":
            return "doc[%s] spec=%s %r" % (c.get("sub"), c["spec"], bytes(c["doc"]).decode("utf-8", "replace"))
        if f == "codec":
            return "codec %r" % bytes(c["s"]).decode("utf-8", "replace")
        if f == "graph":
            return "graph spec=%s nodes=%r edges=%r" % (
                c["spec"], [bytes(n).decode("utf-8", "replace") for n in c["nodes"]],
                [(bytes(u).decode("utf-8", "replace"), bytes(v).decode("utf-8", "replace"),
                  None if w is None else struct.unpack(">d", struct.pack(">Q", w))[0]) for u, v, w in c["edges"]])
        return self.to_harness(c)

    def run_impl(self, cases, wd, tag, release=False):
        impl, errs = super().run_impl(cases, wd, tag, release=release)
        if not release:
            for c in cases:
                c["_obs"] = impl.get(c["id"])
        return impl, errs

    def to_coq(self, c):
        f = c["fam"]
        if f == "codec":
            return "CCodec %s" % coq_b(c["s"])
        if f == "f64":
            return "CF64 %d" % c["n"]
        obs = c.get("_obs")
        o70 = obs_of(obs, 70)
        if o70 is None:
            if f == "graph":
                # the constructor refused the input (or the harness produced nothing): no document
                return "CGraph %s [%s] [%s] [] [] []" % (hist.coq_spec(c["spec"]), self._coq_nodes(c), self._coq_edges(c))
            return "CDoc %s [] []" % hist.coq_spec(c["spec"])
        evs = dec_events(o70[1])
        cpt, cft = tables(evs)
        cev = "[%s]" % ";".join(coq_event(e) for e in evs)
        if f == "graph":
            return "CGraph %s [%s] [%s] %s %s %s" % (hist.coq_spec(c["spec"]), self._coq_nodes(c), self._coq_edges(c),
                                                    cft, cpt, cev)
        return "CDoc %s %s %s" % (hist.coq_spec(c["spec"]), cpt, cev)

    def _coq_nodes(self, c):
        return ";".join(coq_b(n) for n in c["nodes"])

    def _coq_edges(self, c):
        return ";".join("(%s, %s, %s)" % (coq_b(u), coq_b(v), "None" if w is None else "Some (%d)" % bits2tok(w))
                        for u, v, w in c["edges"])

    def case_json(self, c):
        j = {k: v for k, v in c.items() if not k.startswith("_")}
        if "doc" in j:
            j["doc_text"] = bytes(j["doc"]).decode("utf-8", "replace")   # for the reader; "doc" (bytes) is what is replayed
        return j

    def case_from_json(self, j):
        c = dict(j)
        c.setdefault("id", "replay")
        return c

    # ---- the property itself, on the implementation's observations only
    def oracle(self, c, o):
        f = c["fam"]
        msgs = []
        if f == "codec":
            rt = obs_of(o, 12)
            if not rt or rt[1] != [[1]]:
                msgs.append("unescape(escape(s)) != s for s=%r" % bytes(c["s"]))
            e = obs_of(o, 10)
            if e:
                esc = bytes(e[1][0])
                if any(ch in esc for ch in b"<>\"'"):
                    msgs.append("escaped text contains a markup character: %r" % esc)
        elif f == "f64":
            s = obs_of(o, 60)
            if not s or s[1][0][1] != 0 or s[1][0][0] != c["n"]:
                msgs.append("f64 Display/parse is not bit-exact (or emits markup): %s %s" % (s, obs_of(o, 61)))
        elif f == "graph":
            code = obs_of(o, 1)
            if code is None or code[1][0][0] in (100, 101):
                msgs.append("graph construction panicked")
                return msgs
            if code[1][0][0] != 0:
                return msgs
            rc = obs_of(o, 4)
            if rc is None:
                msgs.append("write_graphml_string failed: %s" % (obs_of(o, 20),))
                return msgs
            if rc[1][0][0] != 0:
                msgs.append("reading back the written document returns code %d" % rc[1][0][0])
                return msgs
            n0, d0, e0 = obs_of(o, 40), obs_of(o, 41), obs_of(o, 1042)
            n1, d1, e1 = obs_of(o, 5), obs_of(o, 6), obs_of(o, 1007)
            if n0[1] != n1[1]:
                msgs.append("node names / order differ after the round trip: %s vs %s" % (n0[1], n1[1]))
            if d0[1] != d1[1]:
                msgs.append("directedness differs after the round trip")
            if sorted(e0[1]) != sorted(e1[1]):
                msgs.append("edge multiset (with bit-identical weights) differs after the round trip: %s vs %s"
                            % (sorted(e0[1])[:4], sorted(e1[1])[:4]))
            fv = obs_of(o, 50)
            if not fv or fv[1] != [[1, 1]]:
                msgs.append("file variant differs from string variant: %s" % (fv,))
        elif f == "doc":
            tk = obs_of(o, 70)
            if tk is None or any(r and r[0] in (98, 99) for r in tk[1]):
                msgs.append("quick-xml tokenizer panicked or did not reach Eof")
            rc = obs_of(o, 4)
            code = rc[1][0][0] if rc else None
            if code == 100:
                msgs.append("read_graphml_string PANICKED")
            elif code == 101:
                msgs.append("read_graphml_string did not terminate")
            elif code not in ALLOWED_READ_CODES:
                msgs.append("read_graphml_string returned unexpected code %s" % code)
            if c.get("expect_code") is not None and code != c["expect_code"]:
                msgs.append("expected outcome code %s, got %s" % (c["expect_code"], code))
            if code == 0:
                msgs += self._valid_graph(c, o)
                msgs += self._expected(c, o)
            elif c.get("expect") is not None and code not in (100, 101) and \
                    self.subject_to_specs(c["spec"], c["expect"]["directed"], c["expect"]) is not None:
                msgs.append("well-formed GraphML that the supplied specs accept was refused with code %s" % code)
        return msgs

    @staticmethod
    def _edges(o):
        out = []
        for r in o[1]:
            ul = r[0]
            u = tuple(r[1:1 + ul])
            vl = r[1 + ul]
            v = tuple(r[2 + ul:2 + ul + vl])
            out.append((u, v, tuple(r[2 + ul + vl:])))
        return out

    def _valid_graph(self, c, o):
        """Ok(graph): the graph is a valid graph for the supplied specs (C01)"""
        msgs = []
        d, m, s, dd, ms, slf = c["spec"]
        nodes = [tuple(r) for r in obs_of(o, 5)[1]]
        edges = self._edges(obs_of(o, 1007))
        if len(set(nodes)) != len(nodes):
            msgs.append("graph has duplicate node names")
        ns = set(nodes)
        for u, v, w in edges:
            if u not in ns or v not in ns:
                msgs.append("edge endpoint is not a node of the graph")
                break
        if not s and any(u == v for u, v, _ in edges):
            msgs.append("self-loop in a graph whose specs forbid them")
        directed = obs_of(o, 6)[1][0][0]
        if not m:
            ks = [(u, v) if directed else tuple(sorted((u, v))) for u, v, _ in edges]
            if len(set(ks)) != len(ks):
                msgs.append("parallel edges in a graph whose specs forbid them")
        if not directed and any(v < u for u, v, _ in edges):
            msgs.append("undirected edge not stored in canonical orientation")
        return msgs

    @staticmethod
    def subject_to_specs(spec, directed, ex):
        """the document's elements "subject to the supplied specs" (C01's policy, edges in document order after all
        node elements): None when the policy refuses the document, else (node names, stored edges)"""
        _d, m, s, dd, ms, slf = spec
        names = [tuple(n) for n in ex["nodes"]]
        multi, store = [], {}
        for u, v, wt in ex["edges"]:
            u, v = tuple(u), tuple(v)
            if wt is None:
                w = (0, 0)
            else:
                b = f2bits(float(wt))
                w = (0, 0) if is_nan_bits(b) else (1, bits2tok(b))
            if not s and u == v:
                if slf == 0:
                    return None
                continue
            if ms == 1 and (u not in names or v not in names):
                return None
            for x in (u, v):
                if x not in names:
                    names.append(x)
            k = (u, v) if directed or u <= v else (v, u)
            if m:
                multi.append((k[0], k[1], w))
            elif k in store:
                if dd == 0:
                    return None
                if dd == 2:
                    store[k] = w
            else:
                store[k] = w
        return names, (multi if m else [(k[0], k[1], w) for k, w in store.items()])

    def _expected(self, c, o):
        """generated well-formed GraphML: exactly the document's elements, subject to the supplied specs"""
        ex = c.get("expect")
        if ex is None:
            return []
        msgs = []
        directed = obs_of(o, 6)[1][0][0]
        if directed != ex["directed"]:
            return ["directedness differs from the document's edgedefault"]
        sub = self.subject_to_specs(c["spec"], directed, ex)
        if sub is None:
            return ["the document holds an element the supplied specs refuse (self-loop / undeclared node / duplicate edge "
                    "with the Error strategy) and the reader returned a graph instead of the error"]
        nodes = [tuple(r) for r in obs_of(o, 5)[1]]
        if nodes != sub[0]:
            msgs.append("node list differs from the document's node elements (then the nodes its edges create): %s vs %s"
                        % (nodes, sub[0]))
        want = sub[1]
        got = self._edges(obs_of(o, 1007))
        if sorted(want) != sorted(got):
            msgs.append("edge multiset differs from the document's edge elements: %s vs %s" % (sorted(got)[:4], sorted(want)[:4]))
        return msgs

    # ---- bookkeeping
    def nontrivial(self, c, o):
        f = c["fam"]
        if f == "codec":
            return any(ch in c["s"] for ch in b"<>&'\"")
        if f == "f64":
            return True
        if f == "graph":
            code = obs_of(o, 1)
            return bool(code and code[1][0][0] == 0 and c["edges"])
        tk = obs_of(o, 70)
        return bool(tk and any(r and r[0] in (1, 2) for r in tk[1]))

    def stats_key(self, c, o):
        ks = ["fam_" + c["fam"] + ("_" + c["sub"] if c.get("sub") else "")]
        rc = obs_of(o, 4)
        if rc:
            ks.append("read_outcome_%d" % rc[1][0][0])
        if c["fam"] == "graph":
            code = obs_of(o, 1)
            ks.append("build_outcome_%s" % (code[1][0][0] if code else "none"))
            ks.append("elements_%s" % ("<=20" if len(c["nodes"]) + len(c["edges"]) <= 20 else ">=200 (document > 8 KiB)"))
        return ks

    def shrink_candidates(self, c):
        out = []
        f = c["fam"]
        if f == "doc":
            d = c["doc"]
            n = len(d)
            for size in (n // 2, n // 4, n // 8, 8, 1):
                if size < 1:
                    continue
                for st in range(0, n, size):
                    nd = d[:st] + d[st + size:]
                    try:
                        bytes(nd).decode("utf-8")
                    except UnicodeDecodeError:
                        continue
                    e = dict(c)
                    e["doc"] = nd
                    e.pop("expect", None)
                    e.pop("expect_code", None)
                    e.pop("doc_text", None)
                    e.pop("_obs", None)
                    out.append(e)
                if len(out) > 60:
                    break
        elif f == "graph":
            for i in range(len(c["edges"])):
                e = dict(c)
                e["edges"] = c["edges"][:i] + c["edges"][i + 1:]
                e.pop("_obs", None)
                out.append(e)
            for i in range(len(c["nodes"])):
                e = dict(c)
                e["nodes"] = c["nodes"][:i] + c["nodes"][i + 1:]
                e.pop("_obs", None)
                out.append(e)
        elif f == "codec":
            for i in range(len(c["s"])):
                s = c["s"][:i] + c["s"][i + 1:]
                try:
                    bytes(s).decode("utf-8")
                except UnicodeDecodeError:
                    continue
                out.append({"fam": "codec", "s": s})
        return out


C14 = props.register(GraphMLProp(
    "C14", 2000, 24000,
    "(1) codec: every listed entity look-alike plus strings of 0-5 pieces drawn from XML specials, predefined / numeric / "
    "malformed entity references (&amp &#65; &#x42; &; &#xD800; ...), non-ASCII and random printable ASCII: model vs "
    "quick_xml::escape::{escape,unescape}, and unescape(escape s)=s on the implementation; (2) one f64 sample: every exponent x 8 "
    "boundary mantissas x both signs, then SplitMix bit patterns (40 000 quick / 2 000 000 thorough) through format!(\"{}\") / "
    "parse, bit-equality and no markup byte; (3) graphs of all 96 GraphSpecs over 2-6 names drawn from a pool with < > & ' \" "
    "spaces, non-ASCII, the empty string and entity look-alikes, 0-8 edges incl. self-loops, re-hit pairs / parallel edges, "
    "weights NaN / +-0 / subnormal / 1e308-scale / +-inf / integers / 0.1-like / random bit patterns: build, write (string and "
    "file), read back with the same specs; non-trivial = the graph was built and has >= 1 edge (codec: string contains a special "
    "character); distinct = distinct case text"))
C14.manifest = {
    "text": "Proved (unbounded, axiom-free): unescape(escape s) = s for EVERY string (C14_escape_roundtrip); escaped text contains no "
            "markup character and ampersands only as the five predefined references (C14_escape_no_markup, C14_escape_form); the reader "
            "model applied to the writer model's events hands the constructor exactly the written node list, edge list (weights as "
            "identical tokens) and directedness, for all names and weights (C14_roundtrip_elements); the constructor applied to distinct "
            "names and an edge list the specs admit, in any order, stores exactly those nodes in order and exactly that edge multiset "
            "(C14_rebuild, any name type); together: write-then-read with the same specs succeeds and returns the same names in the same "
            "order, the same directedness and the same edge multiset with identical weights (C14_roundtrip, C14_roundtrip_elements_full), "
            "and never panics (C14_roundtrip_no_panic). ROUND 2: the well-formedness hypotheses are PROVED for every state satisfying the "
            "coherence invariant WF of C01-C03, any name type (C14_WF_is_wellformed: distinct names; the stored edge list in its "
            "stored order is admissible - endpoints are nodes, no forbidden self-loop, canonical orientation when undirected, no "
            "repeated pair unless multi), hence for every graph reachable by any history of add_node(s)/add_edge(s) "
            "(C14_reachable_is_wellformed), and the round trip is stated for EVERY reachable graph without a side condition "
            "(C14_roundtrip_reachable: read(write g) with g's specs = Ok g', g' reachable, same names in order, same specs, same "
            "edge multiset with identical weights). They are in addition still evaluated on every generated graph by a "
            "verified checker (C14_wf_check_sound, observation 31; kept as a tie between model and code). Validated per generated graph on the implementation (oracle "
            "independent of the model): node order, directedness, edge multiset with bit-identical weights after write+read, string and "
            "file variant, file bytes = string bytes; plus: writer model's events = quick-xml's tokens of the real document, model reader "
            "on those tokens = real read-back.",
    "note": "Hypotheses of the round-trip theorems: the two float oracles (Display emits no markup; FromStr inverts Display), "
            "satisfiable (roundtrip_hyps_satisfiable) and sampled every run against Rust's std (every exponent x 8 mantissas x 2 signs "
            "+ 40k/2M random bit patterns, bit-equality), and well-formedness of the written graph (distinct names, admissible edges; "
            "non-vacuous: roundtrip_full_nonvacuous; that every reachable Graph satisfies it was checked per case in round 1 and is a "
            "theorem since round 2: Proofs/GraphMLStateOk.v, from WF via stored_edge_ok / stored_distinct of C15). Modelled, not verified: quick-xml tokenizer/serializer (the model runs on quick-xml's own events of the real document "
            "and the writer model's events are compared with them). Axioms: none.",
    "technique": "Coq proof (structural induction, invariants) + differential correspondence vs vm_compute model + implementation-level round-trip oracle",
}
C14.assumptions = [
    "f64 Display emits no XML markup character and str::parse::<f64> inverts it bit-exactly on non-NaN values (oracle; sampled every run)",
    "quick-xml's tokenizer inverts its serializer on the event shapes the writer emits (oracle; the writer model's events are compared "
    "with quick-xml's tokens of every generated document)",
    "names are valid UTF-8 without control characters (XML 1.0 cannot carry them); the codec theorem itself holds for all byte strings",
]

C19 = props.register(GraphMLProp(
    "C19", 4700, 40000,
    "documents: (a) EVERY single-byte truncation, deletion, duplication and byte replacement (markup characters / bit flip) of "
    "3 (thorough: 4, all listed replacements) seed GraphML documents (custom weight key, entities, non-ASCII id, comments, "
    "whitespace); (b) well-formed GraphML rendered from random abstract graphs with the syntactic freedom of XML (attribute "
    "order, quote style, whitespace, empty/start-end forms, extra keys / data, prolog, comments, names from the special-character "
    "pool, weight texts incl. inf / NaN / exponents) with the expected content recorded; (c) a grammar of near-GraphML (missing / "
    "duplicated / unquoted attributes, unknown and malformed entities, data in odd places, nested / unclosed / mismatched elements, "
    "wrong root, comments / PI / CDATA / DOCTYPE fragments, non-numeric weight text); every call under a 10 s watchdog; specs: "
    "permissive or drawn from all 96; non-trivial = the document has at least one start/empty tag; distinct = distinct case text"))
C19.manifest = {
    "text": "Proved (unbounded, axiom-free) about the transcription of read_graphml_string (event loop + Graph::new_from_nodes_and_edges), "
            "for EVERY event sequence quick-xml can hand to it, every behaviour of str::parse::<f64> and every GraphSpecs: it returns a "
            "value or an error, never reaches one of the unwrap / index sites kept in the model, never runs out of fuel (C19_total; the "
            "constructor's own panic-freedom for any name type is C19_constructor_no_panic); the only errors are ReadError and the "
            "constructor's three (C19_error_kinds); the result is ReadError exactly when the document is refused by the declarative "
            "element definition (Spec/GraphMLDef.v) and otherwise the constructor applied to exactly the node elements in order, the edge "
            "elements in order with their weight data, under the supplied specs with the declared directedness (C19_ok_content, "
            "C19_ok_directed). Validated per document: outcome kind and graph equal the model run on quick-xml's events of the same "
            "document; never panic / hang (10 s watchdog); Ok graphs are valid for the specs; generated well-formed GraphML yields exactly "
            "its elements; constructor result agrees with the spec layer (Spec/AGraph.v spec_new_from) on every case. ROUND 2 "
            "(Proofs/GraphMLStateOk.v): C19_constructor_refines_spec - for EVERY node list, edge list and specs, any name type, "
            "Graph::new_from_nodes_and_edges returns the same error as spec_new_from or a state that satisfies the coherence "
            "invariant and represents the abstract result (same specs, same node list, the same edge multiset); this needed "
            "C19_spec_add_edge_permutation_invariant (the policy ladder does not depend on the order of the abstract edge list, "
            "because the concrete store groups edges by pair); C19_reader_refines_spec - the reader as a whole: ReadError exactly "
            "when the document is refused, otherwise the spec-layer constructor's result on the document's elements; "
            "C19_ok_valid - an Ok result is a state reachable through the public mutation API and satisfies the FULL coherence "
            "invariant WF of all twelve fields (C19_ok_indexes gave only the index part).",
    "note": "Model of the code AFTER the fix commits b5a873a (F12: the pinned tree panicked on 4 input classes) and 811b5e5 (F20: the "
            "event after a weight <data> start tag was skipped, losing elements and swallowing parser errors); both confirmed, repaired. "
            "Modelled, not verified: quick-xml's tokenizer (a panic or hang inside it is covered only by the document stream: every "
            "single-byte truncation/deletion/duplication/replacement of the seeds, grammar documents). The refinement constructor-model -> "
            "spec_new_from was validated per case in round 1 (observation 8) and is proved since round 2 (see text); the "
            "observation is kept as a tie between model and code. Axioms: none.",
    "technique": "Coq proof (invariants over the event loop and the constructor) + differential correspondence vs vm_compute model on quick-xml events + oracle",
}
C19.assumptions = [
    "the string -> event step is quick-xml 0.37.5's: the model runs on the events quick-xml itself produced for the same document; a panic "
    "or hang inside quick-xml is covered only by the generated document stream",
    "str::parse::<f64> is an oracle (any behaviour is allowed by the theorems; the harness reports the real result per Text event)",
]
C14.rule += ' Every second file round trip writes to a path that already holds a LONGER document (saving must replace it).'
